module c01g

go 1.21

require github.com/pulumi/esc v0.9.1

require (
	github.com/aead/chacha20 v0.0.0-20180709150244-8b13a72661da // indirect
	github.com/agext/levenshtein v1.2.3 // indirect
	github.com/apparentlymart/go-textseg/v13 v13.0.0 // indirect
	github.com/golang/glog v1.2.0 // indirect
	github.com/hashicorp/hcl/v2 v2.17.0 // indirect
	github.com/mitchellh/go-wordwrap v1.0.1 // indirect
	github.com/pulumi/pulumi/sdk/v3 v3.137.0 // indirect
	github.com/rivo/uniseg v0.4.4 // indirect
	github.com/zclconf/go-cty v1.13.2 // indirect
	golang.org/x/exp v0.0.0-20240604190554-fc45aab8b7f8 // indirect
	golang.org/x/sys v0.22.0 // indirect
	golang.org/x/text v0.16.0 // indirect
	gopkg.in/yaml.v3 v3.0.1 // indirect
	lukechampine.com/frand v1.4.2 // indirect
)

replace github.com/pulumi/esc => /repo
