package main

import (
	"context"
	"encoding/json"
	"fmt"
	"os"

	"github.com/pulumi/esc"
	"github.com/pulumi/esc/eval"
	"github.com/pulumi/esc/schema"
)

type envs map[string]string

func (e envs) LoadEnvironment(ctx context.Context, name string) ([]byte, eval.Decrypter, error) {
	if s, ok := e[name]; ok {
		return []byte(s), nil, nil
	}
	return nil, nil, fmt.Errorf("not found")
}

type prov struct{}

func (prov) Schema() (*schema.Schema, *schema.Schema) { return schema.Always(), schema.Always() }
func (prov) Open(ctx context.Context, inputs map[string]esc.Value, ec esc.EnvExecContext) (esc.Value, error) {
	return esc.NewValue(inputs), nil
}

type provs struct{}

func (provs) LoadProvider(ctx context.Context, name string) (esc.Provider, error) {
	return prov{}, nil
}

func run(w envs, name string, check bool) {
	decl, diags, err := eval.LoadYAMLBytes(name, []byte(w[name]))
	if err != nil || len(diags) > 0 {
		fmt.Println("load", err, diags)
		os.Exit(1)
	}
	ec, _ := esc.NewExecContext(map[string]esc.Value{})
	var out *esc.Environment
	var d interface{ Error() string }
	n := 0
	if check {
		o, dd := eval.CheckEnvironment(context.Background(), name, decl, nil, provs{}, w, ec, false)
		out, n = o, len(dd)
	} else {
		o, dd := eval.EvalEnvironment(context.Background(), name, decl, nil, provs{}, w, ec)
		out, n = o, len(dd)
	}
	_ = d
	b, _ := json.Marshal(esc.NewValue(out.Properties).ToJSON(false))
	fmt.Printf("check=%v %s: %s diags=%d\n", check, name, b, n)
}

func main() {
	w := envs{
		"F": `values: {"x": {"fn::open::p": {}}}`,
		"E": `imports: ["F"]
values: {"x": {"c": 3}}`,
		"G": `values: {"x": {"b": 2}}`,
		"D": `imports: ["G", "E"]
values: {}`,
	}
	// witness 3 (C01g_unknown_cut): an unknown layer is a non-object cut (check mode)
	for _, n := range []string{"E", "G", "D"} {
		run(w, n, true)
	}
	// witness 1 (C01g_hidden_cut): the cut travels through the reference ${y}; E and G export the same values in both worlds
	w1 := envs{
		"F": `values: {"y": 5}`,
		"E": `imports: ["F"]
values: {"y": {"c": 3}, "x": "${y}"}`,
		"G": `values: {"x": {"b": 2}}`,
		"D": `imports: ["G", "E"]
values: {}`,
	}
	w2 := envs{
		"F": `values: {"y": 5}`,
		"E": `values: {"y": {"c": 3}, "x": "${y}"}`,
		"G": `values: {"x": {"b": 2}}`,
		"D": `imports: ["G", "E"]
values: {}`,
	}
	fmt.Println("-- hidden cut, world 1 (E imports F)")
	for _, n := range []string{"E", "G", "D"} {
		run(w1, n, false)
	}
	fmt.Println("-- hidden cut, world 2 (E imports nothing)")
	for _, n := range []string{"E", "G", "D"} {
		run(w2, n, false)
	}
	fmt.Println("-- worked example of Properties/C01_general.v")
	// worked example of Properties/C01_general.v
	g := envs{
		"base": `values: {"k": "v", "n": 1, "o": {"p": 1}}`,
		"X": `imports: ["base"]
values: {"a": "${k}", "b": "pre-${k}-post", "c": {"fn::secret": "s3cr3t"}, "d": {"fn::open::echo": {"in": "${a}"}}, "o": {"q": "${n}"}}`,
		"M": `values: {"z": "only-by-name", "k": "never-merged"}`,
		"L": `imports: ["X"]
values: {"l": "${o.p}"}`,
		"Rt": `imports: ["L", {"M": {"merge": false}}, "base", "X", "nope"]
values: {"d": {"lit": true}, "r": "${imports.M.z}", "s": "${d.in}", "j": {"fn::toJSON": "${o}"}}`,
	}
	run(g, "Rt", false)
	run(g, "Rt", true)
}
