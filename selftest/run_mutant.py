#!/usr/bin/env python3
"""Validate a seeded change and run the checks against it.
usage: run_mutant.py <Cxx> <dir with patch.diff, demo, meta.json> <seeded id> [check ids...]
 1. scratch worktree /tmp/mut-<Cxx>: demo passes on the unchanged tree, fails with the patch; the existing suite passes with it
 2. apply the patch to /repo, run bin/check <id> quick for each check id, undo
 3. keep patch, demo and meta.json (with what was run and what the checks said) under /verif/seeded/<seeded id>/"""
import json, os, shutil, subprocess, sys, glob

ENV = dict(os.environ, GOFLAGS="-mod=mod", GOPROXY="off", GOSUMDB="off", GOTOOLCHAIN="local")


def sh(cmd, cwd=None, timeout=1800):
    p = subprocess.run(cmd, cwd=cwd, env=ENV, shell=isinstance(cmd, str), stdout=subprocess.PIPE, stderr=subprocess.STDOUT, text=True, timeout=timeout)
    return p.returncode, p.stdout


def main():
    prop, d, sid = sys.argv[1], sys.argv[2], sys.argv[3]
    checks = sys.argv[4:] or [prop]
    wt = "/tmp/mut-" + prop
    meta = json.load(open(os.path.join(d, "meta.json")))
    patch = os.path.join(d, "patch.diff")
    sh("git checkout -- . && git clean -fdq", cwd=wt)
    ran = []
    demos = [f for f in os.listdir(d) if f not in ("patch.diff", "meta.json")]
    demo_pkg = None
    # place the demonstration
    for f in demos:
        if f.endswith("_test.go"):
            txt = open(os.path.join(d, f)).read()
            import re as _re
            pkg = _re.search(r"^package (\w+)", txt, _re.M).group(1)
            # find the package directory named in meta or by package name
            cand = meta.get("demo_dir") or meta.get("package_dir")
            if not cand:
                hits = []
                for root, _, files in os.walk(wt):
                    if "/.git" in root:
                        continue
                    for g in files:
                        if g.endswith(".go") and not g.endswith("_test.go"):
                            try:
                                head = open(os.path.join(root, g)).read(4000)
                            except Exception:
                                continue
                            if ("\npackage %s\n" % pkg.replace("_test", "")) in "\n" + head:
                                hits.append(root)
                                break
                demo_txt = json.dumps(meta)
                hits.sort(key=lambda h: (os.path.relpath(h, wt) not in demo_txt, len(h)))
                cand = os.path.relpath(hits[0], wt) if hits else "."
            demo_pkg = cand
            shutil.copy(os.path.join(d, f), os.path.join(wt, cand, f))
        elif f.endswith(".go"):
            os.makedirs(os.path.join(wt, "zz_demo"), exist_ok=True)
            shutil.copy(os.path.join(d, f), os.path.join(wt, "zz_demo", f))
            demo_pkg = "zz_demo"
    if demo_pkg == "zz_demo":
        democmd = "go run ./zz_demo"
    else:
        democmd = "go test -vet=off -count=1 ./%s/ -run 'C[0-9][0-9]|Demo|Mut|Seed'" % demo_pkg
        # run the whole demo file's tests: find their names
        names = []
        for f in demos:
            if f.endswith("_test.go"):
                import re
                names += re.findall(r"^func (Test\w+)\(", open(os.path.join(d, f)).read(), re.M)
        if names:
            democmd = "go test -vet=off -count=1 ./%s/ -run '^(%s)$'" % (demo_pkg, "|".join(names))
    rc0, out0 = sh(democmd, cwd=wt)
    ran.append({"cmd": democmd + "   (unchanged tree)", "rc": rc0, "tail": out0[-400:]})
    rc, out = sh("git apply " + patch, cwd=wt)
    if rc != 0:
        print("PATCH DOES NOT APPLY", out)
        sh("git checkout -- . && git clean -fdq", cwd=wt)
        return 2
    rc1, out1 = sh(democmd, cwd=wt)
    ran.append({"cmd": democmd + "   (with the change)", "rc": rc1, "tail": out1[-600:]})
    # the existing suite with the change (demo removed)
    for f in demos:
        for p in (os.path.join(wt, demo_pkg or ".", f),):
            if os.path.exists(p):
                os.remove(p)
    shutil.rmtree(os.path.join(wt, "zz_demo"), ignore_errors=True)
    rcb, outb = sh("go build ./... && go test -vet=off -count=1 ./...", cwd=wt)
    ran.append({"cmd": "go build ./... && go test -vet=off -count=1 ./...   (with the change, existing suite)", "rc": rcb,
                "tail": "\n".join(l for l in outb.splitlines() if not l.startswith("?"))[-600:]})
    sh("git checkout -- . && git clean -fdq", cwd=wt)
    valid = rc0 == 0 and rc1 != 0 and rcb == 0
    print("demo unchanged rc=%d, with change rc=%d, suite with change rc=%d  => %s" % (rc0, rc1, rcb, "VALID" if valid else "INVALID"))
    results = {}
    if valid and not os.environ.get("VERIF_MUT_NOCHECK"):   # NOCHECK: validate and store only; the checks are then run by rerun_parallel.py
        rc, out = sh("git -C /repo status --porcelain")
        if out.strip():
            print("/repo is not clean; refusing", out)
            return 2
        try:
            rc, out = sh("git -C /repo apply " + patch)
            if rc != 0:
                print("patch does not apply to /repo:", out)
            else:
                for c in checks:
                    rc, out = sh("bin/check %s quick" % c, cwd="/verif", timeout=3600)
                    lines = [l for l in out.splitlines() if l.startswith(("VIOLATION", "OK ", "KNOWN-FINDING"))]
                    results[c] = {"rc": rc, "lines": lines}
                    rep = None
                    for l in lines:
                        if l.startswith("VIOLATION") and "replay=" in l:
                            rep = l.split("replay=")[1].split()[0]
                    if rep and os.path.exists(rep):
                        try:
                            r = json.load(open(rep))
                            results[c]["replay_kind"] = r.get("kind")
                            results[c]["replay_case"] = json.dumps(r.get("case") or (r.get("disagreement") or {}).get("case"))[:1500]
                        except Exception:
                            pass
                    print(c, rc, lines[-1] if lines else out[-300:])
        finally:
            sh("git -C /repo checkout -- . && git -C /repo clean -fdq -e '*_verif*.go'")
    dest = os.path.join("/verif/seeded", sid)
    os.makedirs(dest, exist_ok=True)
    shutil.copy(patch, os.path.join(dest, "patch.diff"))
    for f in demos:
        shutil.copy(os.path.join(d, f), os.path.join(dest, f))
    meta["breaks_property"] = prop
    meta["validated"] = valid
    meta["what_i_ran"] = ran
    meta["checks"] = results
    meta["caught"] = any(v["rc"] != 0 for v in results.values())
    json.dump(meta, open(os.path.join(dest, "meta.json"), "w"), indent=1)
    # restore evidence files of the checks we ran (they were rewritten against a changed tree)
    if not os.environ.get("VERIF_MUT_NOCHECK"):
        sh("git -C /verif checkout -- evidence")
    return 0


sys.exit(main())
