// Differential driver for Model/Interp.v (TAG text).
// Build in a scratch module (go.mod here: replace github.com/pulumi/esc => /repo; cp /repo/go.sum .) with
//   GOFLAGS=-mod=mod GOPROXY=off GOSUMDB=off GOTOOLCHAIN=local go build -o difftest .
// Usage: ./difftest interp < inputs.hex   (ast.Interpolate + PropertyAccess.String; one hex-encoded input per line)
//        ./difftest expr   < inputs.hex   (ast.ParseExpr(syntax.String(s)))
// Output per line: <#diags>|x<text hex>;<accessors n:x.. k:x.. i:N>;x<String() hex>|...   resp.  <#diags>;str:|sym:|interp:...
// gen.py SEED N writes inputs.hex; run the driver into go.out (interp) / go_expr.out (expr); gen2.py / gen3.py then write
// T.v / T2.v which recompute the same lines with parse_interp / print_path / string_expr and list the mismatches
// (coqc -Q <coq dir> Verif T.v).
package main

import (
	"bufio"
	"encoding/hex"
	"fmt"
	"os"
	"strings"

	"github.com/pulumi/esc/ast"
	"github.com/pulumi/esc/syntax"
)

func fmtAccess(sb *strings.Builder, v *ast.PropertyAccess) {
	for i, a := range v.Accessors {
		if i > 0 {
			sb.WriteString(",")
		}
		switch a := a.(type) {
		case *ast.PropertyName:
			sb.WriteString("n:x" + hex.EncodeToString([]byte(a.Name)))
		case *ast.PropertySubscript:
			switch ix := a.Index.(type) {
			case string:
				sb.WriteString("k:x" + hex.EncodeToString([]byte(ix)))
			case int:
				fmt.Fprintf(sb, "i:%d", ix)
			}
		}
	}
}

func fmtParts(sb *strings.Builder, parts []ast.Interpolation) {
	for _, p := range parts {
		sb.WriteString("|x" + hex.EncodeToString([]byte(p.Text)) + ";")
		if p.Value == nil {
			sb.WriteString("none")
		} else {
			fmtAccess(sb, p.Value)
			sb.WriteString(";x" + hex.EncodeToString([]byte(p.Value.String())))
		}
	}
}

// mode "interp": ast.Interpolate; mode "expr": ast.ParseExpr(syntax.String(s))
func main() {
	mode := "interp"
	if len(os.Args) > 1 {
		mode = os.Args[1]
	}
	sc := bufio.NewScanner(os.Stdin)
	sc.Buffer(make([]byte, 1<<20), 1<<20)
	for sc.Scan() {
		line := strings.TrimSpace(sc.Text())
		b, err := hex.DecodeString(line)
		if err != nil {
			panic(err)
		}
		var sb strings.Builder
		if mode == "interp" {
			x, diags := ast.Interpolate(string(b))
			fmt.Fprintf(&sb, "%d", len(diags))
			fmtParts(&sb, x.Parts)
		} else {
			x, diags := ast.ParseExpr(syntax.String(string(b)))
			fmt.Fprintf(&sb, "%d;", len(diags))
			switch x := x.(type) {
			case *ast.StringExpr:
				sb.WriteString("str:x" + hex.EncodeToString([]byte(x.Value)))
			case *ast.SymbolExpr:
				sb.WriteString("sym:")
				fmtAccess(&sb, x.Property)
			case *ast.InterpolateExpr:
				sb.WriteString("interp:")
				fmtParts(&sb, x.Parts)
			default:
				fmt.Fprintf(&sb, "other:%T", x)
			}
		}
		fmt.Println(sb.String())
	}
}
