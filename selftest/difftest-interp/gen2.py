import sys
ins=[l.strip() for l in open('inputs.hex')]
outs=[l.rstrip('\n') for l in open('go.out')]
assert len(ins)==len(outs)
with open('T.v','w') as f:
    f.write('''From Verif Require Import Base.Bytes Model.Chain Model.GoText Model.Eval Model.Interp.
Definition facc (a : accessor) : string := match a with AName n => "n:x" +++ to_hex n | AKey k => "k:x" +++ to_hex k | AIdx i => "i:" +++ print_Z i end.
Definition fpart (tp : string * option path) : string :=
  "|x" +++ to_hex (fst tp) +++ ";" +++ match snd tp with None => "none" | Some p => sjoin "," (map facc p) +++ ";x" +++ to_hex (print_path p) end.
Definition run (h : string) : string := let '(ps, d) := parse_interp (hx h) in print_N d +++ String.concat "" (map fpart ps).
Definition cases : list (string * string) := [
''')
    f.write(';\n'.join('("%s","%s")'%(a,b) for a,b in zip(ins,outs)))
    f.write('''].
Definition bad := filter (fun p => negb (String.eqb (run (fst p)) (snd p))) cases.
Eval vm_compute in (length cases, length bad, map (fun p => (fst p, snd p, run (fst p))) (firstn 5 bad)).
''')
