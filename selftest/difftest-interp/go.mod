module difftest

go 1.21

require github.com/pulumi/esc v0.9.1

require (
	github.com/agext/levenshtein v1.2.3 // indirect
	github.com/apparentlymart/go-textseg/v13 v13.0.0 // indirect
	github.com/golang/glog v1.2.0 // indirect
	github.com/hashicorp/hcl/v2 v2.17.0 // indirect
	github.com/mitchellh/go-wordwrap v1.0.1 // indirect
	github.com/pulumi/pulumi/sdk/v3 v3.137.0 // indirect
	github.com/zclconf/go-cty v1.13.2 // indirect
	golang.org/x/text v0.16.0 // indirect
)

replace github.com/pulumi/esc => /repo
