ins=[l.strip() for l in open('inputs.hex')]
outs=[l.rstrip('\n') for l in open('go_expr.out')]
with open('T2.v','w') as f:
    f.write('''From Verif Require Import Base.Bytes Model.Chain Model.GoText Model.Eval Model.Interp.
Definition facc (a : accessor) : string := match a with AName n => "n:x" +++ to_hex n | AKey k => "k:x" +++ to_hex k | AIdx i => "i:" +++ print_Z i end.
Definition fpart (tp : string * option path) : string :=
  "|x" +++ to_hex (fst tp) +++ ";" +++ match snd tp with None => "none" | Some p => sjoin "," (map facc p) +++ ";x" +++ to_hex (print_path p) end.
Definition runx (h : string) : string := let '(e, d) := string_expr (hx h) in print_N d +++ ";" +++
  match e with EStr s => "str:x" +++ to_hex s | ESym p => "sym:" +++ sjoin "," (map facc p) | EInterp ps => "interp:" +++ String.concat "" (map fpart ps) | _ => "other" end.
Definition cases : list (string * string) := [
''')
    f.write(';\n'.join('("%s","%s")'%(a,b) for a,b in zip(ins,outs)))
    f.write('''].
Definition bad := filter (fun p => negb (String.eqb (runx (fst p)) (snd p))) cases.
Eval vm_compute in (length cases, length bad, map (fun p => (fst p, snd p, runx (fst p))) (firstn 5 bad)).
''')
