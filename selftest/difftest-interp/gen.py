import random, sys
random.seed(int(sys.argv[1]))
n=int(sys.argv[2])
alpha=[b'$',b'{',b'}',b'.',b'[',b']',b'"',b'\\',b' ',b'a',b'b',b'0',b'1',b'9',b'-',b'+',b'_',b'\t',b'\x85',b'\xa0',b'\xc3',b'\n',b'\x0b',b'x']
frag=[b'${',b'$$',b'${a',b'["',b'"]',b'[0]',b'}',b'${a.b}',b'.c',b'["k.\\"q"]',b'[9223372036854775807]',b'[9223372036854775808]',b'[-9223372036854775808]',b'[-9223372036854775809]',b'[+5]',b'[007]',b'[1_0]',b'[0x1]',b'[-]',b'[]',b'[""]',b'\\"',b'\\\\',b'[18446744073709551616]',b'[99999999999999999999999x]']
out=[]
for i in range(n):
    k=random.randint(0,12)
    s=random.choice([b"${",b"${a",b"x${",b""])
    for j in range(k):
        if random.random()<0.35: s+=random.choice(frag)
        else: s+=random.choice(alpha)
    out.append(s)
with open('inputs.hex','w') as f:
    for s in out: f.write(s.hex()+'\n')
with open('T.v','w') as f:
    f.write('''From Verif Require Import Base.Bytes Model.Chain Model.GoText Model.Eval Model.Interp.
Definition facc (a : accessor) : string := match a with AName n => "n:x" +++ to_hex n | AKey k => "k:x" +++ to_hex k | AIdx i => "i:" +++ print_Z i end.
Definition fpart (tp : string * option path) : string :=
  "|x" +++ to_hex (fst tp) +++ ";" +++ match snd tp with None => "none" | Some p => sjoin "," (map facc p) +++ ";x" +++ to_hex (print_path p) end.
Definition run (h : string) : string := let '(ps, d) := parse_interp (hx h) in print_N d +++ String.concat "" (map fpart ps).
Definition nl : string := String (ascii_of_N 10) "".
Definition inputs : list string := [
''')
    f.write(';\n'.join('"%s"'%s.hex() for s in out))
    f.write('''].
Eval vm_compute in String.concat nl (map run inputs).
''')
