#!/usr/bin/env python3
"""Run the checks on the UNCHANGED tree with other seeds than the registered one, in scratch copies (never in /repo or
/verif): a red run is either a genuine finding that the default seed happens not to generate, or a false alarm of the
machinery - both must be looked at.  Keeps the replays of red runs under /var/tmp/seed-sweep/.
usage: seed_sweep.py [-j N] [tier] [seeds=1,2,3] [ids...]"""
import json, os, shutil, subprocess, sys, threading, queue

args = sys.argv[1:]
J = 6
if args and args[0] == "-j":
    J = int(args[1]); args = args[2:]
tier = "quick"
seeds = [1, 2, 3]
ids = []
for a in args:
    if a in ("quick", "thorough"):
        tier = a
    elif a.startswith("seeds="):
        seeds = [int(x) for x in a[6:].split(",")]
    else:
        ids.append(a)
ids = ids or ["C%02d" % i for i in range(1, 21)]
ENV = dict(os.environ, GOFLAGS="-mod=mod", GOPROXY="off", GOSUMDB="off", GOTOOLCHAIN="local")
OUT = "/var/tmp/seed-sweep"
os.makedirs(OUT, exist_ok=True)


def sh(cmd, cwd=None, env=None, timeout=5400):
    p = subprocess.run(cmd, cwd=cwd, env=env or ENV, shell=True, stdout=subprocess.PIPE, stderr=subprocess.STDOUT, text=True, timeout=timeout)
    return p.returncode, p.stdout


todo = queue.Queue()
for s in seeds:
    for p in ids:
        todo.put((p, s))
results, lock = {}, threading.Lock()


def worker(k):
    base = "/var/tmp/ss-%d-%d" % (os.getpid(), k)
    shutil.rmtree(base, ignore_errors=True)
    os.makedirs(base)
    sh("cp -a /verif %s/verif && rm -rf %s/verif/.git && git clone -q /repo %s/repo" % (base, base, base))
    try:
        while True:
            try:
                p, s = todo.get_nowait()
            except queue.Empty:
                return
            env = dict(ENV, VERIF_REPO=base + "/repo", VERIF_SEED=str(s))
            rc, out = sh("bin/check %s %s" % (p, tier), cwd=base + "/verif", env=env)
            lines = [l for l in out.splitlines() if l.startswith(("VIOLATION", "OK "))]
            last = lines[-1] if lines else out[-300:]
            print(p, "seed", s, "OK" if rc == 0 else "RED", last[:120].replace(base, ""), flush=True)
            if rc != 0:
                for f in os.listdir(base + "/verif/work/" + p) if os.path.isdir(base + "/verif/work/" + p) else []:
                    if f.startswith("replay-"):
                        shutil.copy(base + "/verif/work/%s/%s" % (p, f), "%s/%s-seed%d-%s" % (OUT, p, s, f))
            with lock:
                results[(p, s)] = rc
    finally:
        shutil.rmtree(base, ignore_errors=True)


ts = [threading.Thread(target=worker, args=(k,)) for k in range(J)]
[t.start() for t in ts]
[t.join() for t in ts]
red = sorted(k for k, v in results.items() if v != 0)
print("runs %d, red %d: %s" % (len(results), len(red), " ".join("%s/seed%d" % k for k in red) or "none"))
