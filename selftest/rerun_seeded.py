#!/usr/bin/env python3
"""Re-run every kept seeded change against the current checks and record the result in its meta.json
(key "checks_now").  usage: rerun_seeded.py [tier] [ids...]"""
import glob, json, os, subprocess, sys

tier = sys.argv[1] if len(sys.argv) > 1 else "quick"
ids = sys.argv[2:]


def sh(cmd, cwd=None, timeout=3600):
    p = subprocess.run(cmd, cwd=cwd, shell=True, stdout=subprocess.PIPE, stderr=subprocess.STDOUT, text=True, timeout=timeout)
    return p.returncode, p.stdout


rc, out = sh("git -C /repo status --porcelain")
if out.strip():
    print("/repo not clean:", out)
    sys.exit(2)
for d in sorted(glob.glob("/verif/seeded/*/")):
    sid = os.path.basename(d.rstrip("/"))
    if ids and sid not in ids:
        continue
    meta = json.load(open(d + "meta.json"))
    prop = meta.get("breaks_property") or sid.split("-")[0]
    rc, out = sh("git -C /repo apply %spatch.diff" % d)
    if rc != 0:
        print(sid, "patch does not apply any more:", out[:200])
        meta.setdefault("checks_now", {})[tier] = {"applies": False}
    else:
        try:
            rc, out = sh("bin/check %s %s" % (prop, tier), cwd="/verif")
            lines = [l for l in out.splitlines() if l.startswith(("VIOLATION", "OK "))]
            meta.setdefault("checks_now", {})[tier] = {"rc": rc, "lines": lines}
            print(sid, "caught" if rc else "MISSED", lines[-1][:120] if lines else out[-200:])
        finally:
            sh("git -C /repo checkout -- . && git -C /repo clean -fdq")
    meta["caught_now"] = any(v.get("rc") for v in meta.get("checks_now", {}).values())
    json.dump(meta, open(d + "meta.json", "w"), indent=1)
sh("git -C /verif checkout -- evidence")
