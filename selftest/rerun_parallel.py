#!/usr/bin/env python3
"""Re-run kept seeded changes against the CURRENT checks in parallel, each worker in its own scratch copy of /verif and
its own clone of /repo (the first confirmation of a seeded change is always made against /repo itself by run_mutant.py;
this tool only re-measures).  Records the result in seeded/<id>/meta.json (key "checks_now") and removes the copies.
usage: rerun_parallel.py [-j N] [tier] [ids...]"""
import glob, json, os, shutil, subprocess, sys, threading, queue

args = sys.argv[1:]
J = 6
if args and args[0] == "-j":
    J = int(args[1]); args = args[2:]
tier = args[0] if args and args[0] in ("quick", "thorough") else "quick"
ids = [a for a in args if a not in ("quick", "thorough")]
ENV = dict(os.environ, GOFLAGS="-mod=mod", GOPROXY="off", GOSUMDB="off", GOTOOLCHAIN="local")


def sh(cmd, cwd=None, env=None, timeout=3600):
    p = subprocess.run(cmd, cwd=cwd, env=env or ENV, shell=True, stdout=subprocess.PIPE, stderr=subprocess.STDOUT, text=True, timeout=timeout)
    return p.returncode, p.stdout


todo = queue.Queue()
for d in sorted(glob.glob("/verif/seeded/*/")):
    sid = os.path.basename(d.rstrip("/"))
    if not ids or sid in ids:
        todo.put(sid)
results, lock = {}, threading.Lock()


def worker(k):
    base = "/var/tmp/rs-%d-%d" % (os.getpid(), k)
    shutil.rmtree(base, ignore_errors=True)
    os.makedirs(base)
    sh("cp -a /verif %s/verif && rm -rf %s/verif/.git && git clone -q /repo %s/repo" % (base, base, base))
    env = dict(ENV, VERIF_REPO=base + "/repo")
    try:
        while True:
            try:
                sid = todo.get_nowait()
            except queue.Empty:
                return
            d = "/verif/seeded/%s/" % sid
            meta = json.load(open(d + "meta.json"))
            prop = meta.get("breaks_property") or sid.split("-")[0]
            rc, out = sh("git apply %spatch.diff" % d, cwd=base + "/repo")
            if rc != 0:
                # made against an earlier tree (a later fix: commit touched the same lines): three-way merge on the blobs
                sh("git checkout -- . && git clean -fdq", cwd=base + "/repo")
                rc, out = sh("git apply --3way %spatch.diff && git reset -q" % d, cwd=base + "/repo")
                if rc == 0:
                    rc, o2 = sh("go build ./...", cwd=base + "/repo")
                    out += o2
            if rc != 0:
                res = {"applies": False}
                print(sid, "patch does not apply any more:", out[:200], flush=True)
            else:
                rc, out = sh("bin/check %s %s" % (prop, tier), cwd=base + "/verif", env=env)
                lines = [l for l in out.splitlines() if l.startswith(("VIOLATION", "OK "))]
                lines = [l.replace(base, "") for l in lines]
                res = {"rc": rc, "lines": lines}
                print(sid, "caught" if rc else "MISSED", lines[-1][:110] if lines else out[-300:], flush=True)
                sh("git checkout -- . && git clean -fdq", cwd=base + "/repo")
            if res.get("applies") is False:
                sh("git reset -q --hard && git clean -fdq", cwd=base + "/repo")
            with lock:
                results[sid] = res
    finally:
        shutil.rmtree(base, ignore_errors=True)


ts = [threading.Thread(target=worker, args=(k,)) for k in range(J)]
[t.start() for t in ts]
[t.join() for t in ts]
for sid, res in sorted(results.items()):
    p = "/verif/seeded/%s/meta.json" % sid
    meta = json.load(open(p))
    meta.setdefault("checks_now", {})[tier] = res
    meta["caught_now"] = any(v.get("rc") for v in meta.get("checks_now", {}).values())
    json.dump(meta, open(p, "w"), indent=1)
missed = [s for s, r in sorted(results.items()) if not r.get("rc")]
print("re-ran %d; caught %d; missed: %s" % (len(results), len(results) - len(missed), " ".join(missed) or "none"))
