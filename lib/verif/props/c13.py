"""C13 — `esc run` never forwards a secret in filtered output."""
from .. import common as C

ID = "C13"
SRC_FACTS = ["min_secret_len", "secret_placeholder", "arg_secrets_deep", "redactors_closed_on_every_path"]
RULE = ("run: for each (secrets, stream) family - overlapping, nested, prefix-related, adjacent, at line ends, with and "
        "without trailing newline, multi-line, below the length threshold, non-ASCII, confusable with the placeholder - "
        "ALL 2^(n-1) ways of cutting the stream into non-empty Write calls for streams up to 11 bytes (thorough: 14), "
        "plus chunkings with empty writes; random secrets/streams/chunkings over small alphabets up to 60 bytes "
        "(thorough: 200); `long`: unterminated and terminated lines of 2^k bytes, k = 12, 14, 16, 17 (thorough: 12..18), with "
        "a secret starting at 2^k-8, -7, -6, -4, -1, +0, +1 (ending just before / at / after the boundary, straddling it, "
        "starting just before / at / after it), written whole, cut inside the secret, and followed by a second line; "
        "`long-clean`: lines of 2^k-1, 2^k, 2^k+1 bytes without any secret (and a near miss at the boundary); model and "
        "implementation are compared on lines of EVERY length (linear-time twin of the model, C13_fast_run_is_run; the "
        "first version stopped comparing at 40 000 bytes - the lines above that are labelled in the distribution); "
        "observable = bytes that reached the underlying writer after Close, or panic.  Oracles on every `run` case "
        "whatever its size: no line-local filtered secret forwarded; clean text unchanged; every written byte outside "
        "every occurrence of every secret is forwarded, in order (`withheld`).  "
        "lib: the aho-corasick library alone (FindAll, IterOverlapping, ReplaceAllFunc) on random patterns/texts "
        "against its modelled match semantics, panics included.  cmd: the whole `esc run` cobra command against an "
        "in-memory service/file system/process runner: random opened environments (secret flags on variables, files, "
        "nested objects and arrays; secret and plain strings with double quotes, backslashes, brackets, control bytes, "
        "DEL, non-ASCII and invalid UTF-8; keys with quotes, backslashes, spaces), arguments with ${...} references "
        "(valid, missing, out of range) to scalars and to composites whose rendering quotes such strings, a command that "
        "prints its arguments and a script made of the environment's secret and plain strings, random chunk sizes, "
        "main output on stdout or stderr and a second script on the other stream, the command ending with exit 0 / an "
        "error after its output / a failure to start, last lines with and without newline (systematic `cmd-end` family: "
        "3 outcomes x 2 streams x 5 last lines x newline or not on each stream); observable = arguments the command "
        "received + bytes esc forwarded on each stream + whether esc failed.  Every scalar secret and every composite "
        "secret with a 7-bit rendering is judged by the leak oracle in EVERY cmd case; non-trivial = some filtered secret "
        "occurs in the stream / some match exists; distinct by case content")
ASSUMPTIONS = ["the underlying writer does not fail (the error path of redactor.Write, which drops the current chunk "
               "and keeps the earlier partial line, is not modelled)",
               "stdout and stderr are filtered by two independent redactors sharing one replacer; the `cmd` cases write to "
               "both and observe both; the command ends with exit status 0, with an error after its output is written, or "
               "fails to start (exec.Run error, nothing written) - *exec.ExitError itself cannot be built by the fake runner",
               "the opened environment is what the service returns (esc.Environment); Secret flags are downward closed "
               "(a value inside a secret value is flagged secret - keeping that true is the evaluator's business, C03)",
               "strconv.Quote (used by Value.ToString for members of arrays/objects) is modelled on 7-bit strings (all "
               "escapes: quote, backslash, \\a\\b\\f\\n\\r\\t\\v, \\xHH); on bytes >= 128 Go consults UTF-8 validity and "
               "unicode.IsPrint, which is not modelled: `cmd` cases that quote such a string are run, their exit/ran flags "
               "compared and EVERY exact secret text (all scalars, all 7-bit composites) judged by the leak oracle, but "
               "argument texts and forwarded bytes are not compared with the model, and the clean-text / nothing-withheld "
               "oracles are skipped when some secret composite has no exact text (counts in the distribution)",
               "the ${...} syntax itself (ast.Interpolate) is exercised with simple names and indices only",
               "LIMIT of the byte-level statement `the secret does not occur in the output` (theorems "
               "C13_no_secret_survives_partial / C13_placeholder_clash_refuted / C13_placeholder_clash_exact_bounded): it is "
               "false, without anything leaking, for a secret that can be spelled with placeholder text - one that lies "
               "inside `[secret]`, contains `[secret]`, ends with a non-empty beginning of `[secret]` or begins with a "
               "non-empty end of it (ph_clash; e.g. secret `sec` on input `sec` gives `[secret]`).  Brackets as such are not "
               "excluded any more.  The oracle judges these secrets too: an occurrence counts when it lies between the "
               "placeholder copies of the output (count of such secrets in the distribution); the flag-level theorems "
               "(no byte of an occurrence forwarded, nothing else withheld) hold for every secret"]
TRUSTED = ["the Aho-Corasick automaton construction is modelled by its match semantics (FindAll: earliest-ending "
           "occurrence starting at or after the search position, longest pattern first, next search from start+1; "
           "IterOverlapping: every occurrence by end, longest first); tied to the library by the `lib` cases of every run"]
COQ_SAMPLE = 120
BATCH = 2000

PH = b"[secret]"
NL = b"\n"


def H(b):
    return b.hex()


def all_chunkings(stream):
    n = len(stream)
    if n == 0:
        yield []
        return
    for mask in range(1 << (n - 1)):
        chunks, start = [], 0
        for i in range(n - 1):
            if mask >> i & 1:
                chunks.append(stream[start:i + 1])
                start = i + 1
        chunks.append(stream[start:])
        yield chunks


def random_chunking(rng, stream, empties=True):
    chunks, i = [], 0
    while i < len(stream):
        if empties and rng.chance(1, 12):
            chunks.append(b"")
        k = 1 + rng.below(1 + rng.below(8))
        chunks.append(stream[i:i + k])
        i += k
    if empties and rng.chance(1, 8):
        chunks.append(b"")
    return chunks


# (secrets, stream) families for the exhaustive chunkings; streams are cut to the tier's length bound
FAMILIES = [
    ([b"aaa"], b"aaaa\naaaaa\naaa"),                  # self-overlapping occurrences (panicked before the repair)
    ([b"abcd", b"bcde"], b"abcde\nabcdebcde"),         # mutually overlapping
    ([b"abcde", b"bcd"], b"xabcdey\nbcdabcde"),        # nested
    ([b"abc", b"abcd", b"ab"], b"abcd abc\nab abcd"),  # prefix-related, one below the threshold
    ([b"abc", b"def"], b"abcdef\ndefabc\nab"),         # adjacent
    ([b"abc"], b"xabc\nabc\nabcx\nab"),                # at line ends / starts
    ([b"abc"], b"abc\n\n\nabc\n\nabc\n"),              # empty lines, trailing newline
    ([b"abc"], b"ab\nc abc\nabcab"),                  # a newline inside what would be an occurrence
    ([b"ab\ncd"], b"ab\ncd\nab\ncd\nab"),             # multi-line secret (known finding)
    ([b"abc\n"], b"abc\nabc abc\nab"),                # secret ending in a newline
    ([b"\nab"], b"x\nab\nab\n\nabab"),                # secret starting with a newline (inner newline)
    ([b"ab", b"a", b""], b"abab\naba\nabab"),          # only secrets below the threshold
    ([b"\xc3\xa9\xc3\xa9", b"\xff\x00\xff"], b"\xc3\xa9\xc3\xa9\xc3\xff\x00\xff\n\xa9\xc3\xa9\xc3\xa9"),   # non-ASCII, NUL
    ([b"[secret]"], b"[secret]\n[secret"),            # the placeholder itself as a secret
    ([b"ecr", b"t]x"], b"secret]x\necr t]x"),          # secrets confusable with placeholder text
    ([b"aba", b"bab"], b"ababab\nbaba\nab"),           # periodic overlaps of two secrets
    ([b"abc", b"abc"], b"abcabc\nabc\nabc"),           # duplicate secrets
    ([b"hunter2"], b"hunter2\nhunter2"),              # the CLI test's secret
    ([b"xyz"], b"hello world\nplain"),                # clean text
    ([], b"no secrets\nat all"),                      # no secrets
]

REGRESSION = [
    ([b"aaa"], [b"aaaa"]),
    ([b"abcd", b"bcde"], [b"abcde"]),
    ([b"abcde", b"bcd"], [b"abcde"]),
    ([b"hunter2", b"pw"], [b"pw: hun", b"ter2\nrest"]),
    ([b"ab\ncd"], [b"ab\n", b"cd"]),
    ([b"abc\n"], [b"xabc", b"\n"]),
    ([b"abc"], [b"", b"abc", b""]),
    ([b"abc"], []),
    ([b""], [b"abc\n"]),
    ([b"aaa"], [b"a" * 40]),
]


# ---- `cmd` cases: the whole `esc run` command ---------------------------------------------------------------
SECRET_POOL = [b"hunter2", b"s3cr3tA", b"tokXYZ", b"aaa", b"aaaa", b"abcd", b"bcde", b"pw", b"12345", b"nested99",
               b"key=val", b"two words", b"x", b"",
               # strings that strconv.Quote rewrites when they sit inside a composite, and bracketed ones
               b'pa"ss', b"back\\slash", b'q"\\"q', b"tab\there", b"del\x7fx", b"bell\x07", b"in\nner",
               b"[bracket]", b"x[y", b"a]b", b"fe80::1]", b"[secret]", b"ecr",
               # bytes >= 128 (valid UTF-8, invalid UTF-8): exact as scalars, outside the Quote model inside composites
               b"caf\xc3\xa9!", b"\xff\xfe\xfd"]
NEWLINE_SECRETS = [b"multi\nline", b"endnl\n", b"\nstart"]
PLAIN_POOL = [b"plain", b"bob", b"value", b"aa", b"hunter", b"true", b"3.14", b"text with spaces", b"",
              b'say "hi"', b"c:\\dir", b"[x]", b"\xc3\xa9t\xc3\xa9"]
KEYS = ["a", "b", "db", "list", "cfg", "tok", "user", "password", "k1", "k2", "PW", "PLAIN", "FILE", "N",
        # keys that Quote rewrites (never used in a ${...} path: only the enclosing object is referenced)
        'we"ird', "k\\ey", "sp ace", "[k]", "k\u00e9"]


def S(b, sec):
    return {"t": "str", "s": sec, "v": H(b)}


def gen_value(rng, depth, sec):
    """random value; [sec]: an ancestor is secret, so this one is flagged too"""
    k = rng.below(10 if depth > 0 else 6)
    s = sec or rng.chance(1, 3)
    if k <= 3:
        pool = SECRET_POOL if s else PLAIN_POOL
        return S(rng.choice(pool), s)
    if k == 4:
        return {"t": "num", "s": s, "v": H(rng.choice([b"42", b"3.14", b"12345", b"-7"]))}
    if k == 5:
        return rng.choice([{"t": "bool", "s": s, "v": rng.chance(1, 2)}, {"t": "null", "s": s}])
    if k <= 7:
        return {"t": "arr", "s": s, "v": [gen_value(rng, depth - 1, s) for _ in range(rng.below(4))]}
    keys = rng.shuffle(KEYS)[:rng.below(4)]
    return {"t": "obj", "s": s, "v": [[H(k.encode()), gen_value(rng, depth - 1, s)] for k in keys]}


def gen_scalar_member(rng):
    k = rng.below(12)
    if k == 0:
        return gen_value(rng, 1, False)          # possibly a composite member: skipped by the projection
    s = rng.chance(1, 2)
    if k == 1 and s:
        return S(rng.choice(NEWLINE_SECRETS), True)
    if k == 2:
        return {"t": "num", "s": s, "v": H(b"12345")}
    if k == 3:
        return {"t": "bool", "s": s, "v": True}
    return S(rng.choice(SECRET_POOL if s else PLAIN_POOL), s)


def all_paths(v, prefix, out):
    out.append(prefix)
    if v["t"] == "arr":
        for i, x in enumerate(v["v"]):
            all_paths(x, prefix + [i], out)
    elif v["t"] == "obj":
        for k, x in v["v"]:
            name = bytes.fromhex(k).decode()
            if name.isascii() and name.replace("_", "a").isalnum():
                all_paths(x, prefix + [name], out)


def strings_of(v, out):
    if v["t"] in ("str", "num"):
        out.append((bytes.fromhex(v["v"]), v["s"]))
    elif v["t"] == "arr":
        for x in v["v"]:
            strings_of(x, out)
    elif v["t"] == "obj":
        for _, x in v["v"]:
            strings_of(x, out)


def render_path(path):
    s = ""
    for i, e in enumerate(path):
        if isinstance(e, int):
            s += "[%d]" % e
        else:
            s += ("." if i else "") + e
    return "${" + s + "}"


def gen_cmd_case(rng):
    props = []
    if rng.chance(5, 6):
        keys = rng.shuffle(["PW", "PLAIN", "N", "TOK", "A", "B"])[:1 + rng.below(4)]
        props.append(["environmentVariables", {"t": "obj", "s": False, "v": [[H(k.encode()), gen_scalar_member(rng)] for k in keys]}])
    if rng.chance(2, 3):
        keys = rng.shuffle(["FILE", "F2", "CERT"])[:1 + rng.below(3)]
        props.append(["files", {"t": "obj", "s": False, "v": [[H(k.encode()), gen_scalar_member(rng)] for k in keys]}])
    for k in rng.shuffle(["a", "b", "db", "list", "cfg", "tok"])[:rng.below(5)]:
        props.append([k, gen_value(rng, 2, False)])
    root = {"t": "obj", "s": False, "v": [[H(k.encode()), v] for k, v in props]}

    paths = []
    for k, v in props:
        all_paths(v, [k], paths)
    args = []
    for _ in range(rng.below(4)):
        parts = []
        for _ in range(1 + rng.below(3)):
            r = rng.below(10)
            if r < 4 or not paths:
                parts.append({"text": H(rng.choice([b"x", b"db=", b"arg:", b" ", b"a b", b"--flag=", b""]))})
            elif r < 9:
                parts.append({"ref": rng.choice(paths)})
            else:
                bad = list(rng.choice(paths)) + [rng.choice(["nope", 7])]
                parts.append({"ref": bad if rng.chance(1, 2) else ["missing"]})
        # two adjacent text parts are one text for the parser: merge them
        merged = []
        for p_ in parts:
            if "text" in p_ and merged and "text" in merged[-1]:
                merged[-1] = {"text": merged[-1]["text"] + p_["text"]}
            else:
                merged.append(p_)
        args.append([p_ for p_ in merged if p_.get("text") != ""])

    strs = []
    strings_of(root, strs)
    script = b""
    for _ in range(rng.below(8)):
        r = rng.below(10)
        if r < 5 and strs:
            b = rng.choice(strs)[0]
            if rng.chance(1, 6) and len(b) > 1:
                b = b[:len(b) - 1]
            script += b
        elif r < 7:
            script += rng.choice(PLAIN_POOL)
        script += rng.choice([b" ", b"\n", b"", b",", b"\"", b"="])
    sizes = [rng.below(8) + (0 if rng.chance(1, 10) else 1) for _ in range(1 + rng.below(4))]
    if not any(sizes):
        sizes = [3]
    # what goes to the other stream; both scripts end without a newline half of the time
    script2 = b""
    for _ in range(rng.below(4)):
        r = rng.below(10)
        if r < 5 and strs:
            script2 += rng.choice(strs)[0]
        else:
            script2 += rng.choice(PLAIN_POOL)
        script2 += rng.choice([b" ", b"\n", b": "])
    if rng.chance(1, 2):
        script, script2 = script.rstrip(b"\n"), script2.rstrip(b"\n")
    outcome = ["ok", "ok", "fail", "fail", "fail", "nostart"][rng.below(6)]
    return {"op": "cmd", "env": root, "cargs": args, "script": H(script), "script2": H(script2), "outcome": outcome,
            "sizes": sizes, "stderr": rng.chance(1, 3), "fam": "cmd"}


def cmd_end_family():
    """how the command ends (exit 0 / error after its output / cannot start) x which stream gets the main output x
    last line of each stream terminated or not, with a secret in it or not (the buffered last line must be flushed,
    filtered, on every path)"""
    env = {"t": "obj", "s": False, "v": [
        [H(b"environmentVariables"), {"t": "obj", "s": False, "v": [[H(b"PW"), S(b"hunter2", True)], [H(b"USER"), S(b"bob", False)]]}],
        [H(b"tok"), S(b"tokXYZ", True)]]}
    lasts = [b"fatal: password hunter2 rejected", b"fatal: giving up", b"hunter2", b"tokXYZ hunter2 tokXYZ", b""]
    out = []
    for outcome in ("ok", "fail", "nostart"):
        for to_err in (False, True):
            for i, last in enumerate(lasts):
                for nl in (b"", b"\n"):
                    last2 = lasts[(i + 1 + (1 if nl else 0)) % len(lasts)]
                    for nl2 in (b"", b"\n"):
                        out.append({"op": "cmd", "env": env, "cargs": [[{"text": H(b"tok=")}, {"ref": ["tok"]}]],
                                    "script": H(b"connecting\n" + last + nl), "script2": H(b"warning: bob\n" + last2 + nl2),
                                    "outcome": outcome, "sizes": [5, 3], "stderr": to_err, "fam": "cmd-end"})
    return out


CMD_REGRESSION = [
    # a secret nested in a non-secret object that is interpolated into the command line (defect repaired by fix 2)
    {"op": "cmd", "env": {"t": "obj", "s": False, "v": [[H(b"db"), {"t": "obj", "s": False, "v": [
        [H(b"password"), S(b"nested99", True)], [H(b"user"), S(b"bob", False)]]}]]},
     "cargs": [[{"text": H(b"db=")}, {"ref": ["db"]}]], "script": H(b""), "sizes": [4], "stderr": False, "fam": "cmd-regression"},
    # a secret element of a non-secret array
    {"op": "cmd", "env": {"t": "obj", "s": False, "v": [[H(b"list"), {"t": "arr", "s": False, "v": [S(b"elem777", True)]}]]},
     "cargs": [[{"ref": ["list"]}]], "script": H(b"elem777"), "sizes": [2], "stderr": True, "fam": "cmd-regression"},
    # the CLI test's shape: secret variable, secret file, interpolated secret
    {"op": "cmd", "env": {"t": "obj", "s": False, "v": [
        [H(b"environmentVariables"), {"t": "obj", "s": False, "v": [[H(b"SECRET"), S(b"hunter2", True)], [H(b"PLAIN"), S(b"plaintext", False)]]}],
        [H(b"files"), {"t": "obj", "s": False, "v": [[H(b"FILE"), S(b"filesecret", True)]]}],
        [H(b"secret"), S(b"topsecret", True)]]},
     "cargs": [[{"text": H(b"secret: ")}, {"ref": ["secret"]}]], "script": H(b"hunter2 plaintext filesecret\ntopsec"), "sizes": [1],
     "stderr": False, "fam": "cmd-regression"},
]


# a secret leaf inside a NON-secret object nested in the interpolated object (the audit's mutant: appendSecrets skipping
# non-secret nested maps); the rendering of the outer object contains a non-empty composite, i.e. quotes inside quotes
CMD_REGRESSION.append({"op": "cmd", "env": {"t": "obj", "s": False, "v": [[H(b"cfg"), {"t": "obj", "s": False, "v": [
    [H(b"inner"), {"t": "obj", "s": False, "v": [[H(b"tok"), S(b"s3cr3tA", True)]]}], [H(b"user"), S(b"bob", False)]]}]]},
    "cargs": [[{"text": H(b"cfg=")}, {"ref": ["cfg"]}]], "script": H(b"token s3cr3tA\n"), "sizes": [3], "stderr": False,
    "fam": "cmd-regression"})
# ... the same through an array, the leaf two composites down
CMD_REGRESSION.append({"op": "cmd", "env": {"t": "obj", "s": False, "v": [[H(b"list"), {"t": "arr", "s": False, "v": [
    {"t": "arr", "s": False, "v": [{"t": "obj", "s": False, "v": [[H(b"k1"), S(b"nested99", True)]]}]}, S(b"plain", False)]}]]},
    "cargs": [[{"ref": ["list"]}]], "script": H(b"nested99"), "sizes": [5], "stderr": True, "fam": "cmd-regression"})
# a secret composite whose members need escaping when quoted: the composite's text and each member are secrets
CMD_REGRESSION.append({"op": "cmd", "env": {"t": "obj", "s": False, "v": [[H(b"list"), {"t": "arr", "s": True, "v": [
    S(b'pa"ss', True), S(b"back\\slash", True), S(b"tab\there", True)]}]]},
    "cargs": [[{"text": H(b"--list=")}, {"ref": ["list"]}]],
    "script": H(b'pa"ss back\\slash tab\there\n"pa\\"ss","back\\\\slash","tab\\there" end'), "sizes": [4], "stderr": False,
    "fam": "cmd-regression"})
# bytes >= 128 inside a secret composite (outside the Quote model): the scalar members are judged all the same
CMD_REGRESSION.append({"op": "cmd", "env": {"t": "obj", "s": False, "v": [[H(b"list"), {"t": "arr", "s": True, "v": [
    S(b"caf\xc3\xa9!", True), S(b"\xff\xfe\xfd", True)]}]]},
    "cargs": [[{"ref": ["list"]}]], "script": H(b"caf\xc3\xa9! and \xff\xfe\xfd"), "sizes": [2], "stderr": False,
    "fam": "cmd-regression"})
# bracketed secrets: a variable, a file, an interpolated one
CMD_REGRESSION.append({"op": "cmd", "env": {"t": "obj", "s": False, "v": [
    [H(b"environmentVariables"), {"t": "obj", "s": False, "v": [[H(b"PW"), S(b"[bracket]", True)]]}],
    [H(b"files"), {"t": "obj", "s": False, "v": [[H(b"FILE"), S(b"fe80::1]", True)]]}],
    [H(b"tok"), S(b"x[y", True)]]},
    "cargs": [[{"ref": ["tok"]}]], "script": H(b"[bracket] x[bracket]y fe80::1] [x[y]\n[bracket"), "sizes": [3], "stderr": False,
    "fam": "cmd-regression"})
for _c in CMD_REGRESSION:
    _c.setdefault("script2", "")
    _c.setdefault("outcome", "ok")
# the seeded defect C13-d: the command fails after writing an unterminated last line to both streams
CMD_REGRESSION.append({"op": "cmd", "env": {"t": "obj", "s": False, "v": [
    [H(b"environmentVariables"), {"t": "obj", "s": False, "v": [[H(b"PW"), S(b"hunter2", True)]]}]]},
    "cargs": [], "script": H(b"connecting\nfatal: password hunter2 rejected"), "script2": H(b"fatal: giving up"),
    "outcome": "fail", "sizes": [7], "stderr": False, "fam": "cmd-regression"})


def _simple(b):
    """the class of the first version of the model: Quote only adds the surrounding quotes"""
    return all(32 <= x <= 126 and x not in (34, 92) for x in b)


def _ascii7(b):
    return all(x < 128 for x in b)


_ESC = {34: b'\\"', 92: b"\\\\", 7: b"\\a", 8: b"\\b", 12: b"\\f", 10: b"\\n", 13: b"\\r", 9: b"\\t", 11: b"\\v"}


def _quote7(b):
    """strconv.Quote on 7-bit input (only used for the distribution; the model is Model/RedactorCollect.v)"""
    out = b'"'
    for x in b:
        if x in _ESC:
            out += _ESC[x]
        elif x < 32 or x == 127:
            out += b"\\x%02x" % x
        else:
            out += bytes([x])
    return out + b'"'


def _to_string(v):
    t = v["t"]
    if t == "null":
        return b""
    if t == "bool":
        return b"true" if v["v"] else b"false"
    if t in ("num", "str"):
        return bytes.fromhex(v["v"])
    if t == "arr":
        return b",".join(_quote7(_to_string(x)) for x in v["v"])
    return b",".join(_quote7(k) + b"=" + _quote7(x) for k, x in sorted((bytes.fromhex(k), _to_string(x)) for k, x in v["v"]))


def _quotable(v, ok=_ascii7):
    if v["t"] == "arr":
        return all(_quotable(x, ok) and ok(_to_string(x)) for x in v["v"])
    if v["t"] == "obj":
        return all(ok(bytes.fromhex(k)) and _quotable(x, ok) and ok(_to_string(x)) for k, x in v["v"])
    return True


def _secrets_exact(v):
    """every secret node of v has an exact text in the model (scalars always, composites when 7-bit)"""
    if v["t"] in ("arr", "obj"):
        if v["s"] and not _quotable(v):
            return False
        return all(_secrets_exact(x) for x in (v["v"] if v["t"] == "arr" else [x for _, x in v["v"]]))
    return True


def _lookup(v, path):
    for e in path:
        if v["t"] == "arr" and isinstance(e, int) and 0 <= e < len(v["v"]):
            v = v["v"][e]
        elif v["t"] == "obj" and isinstance(e, str):
            hit = [x for k, x in v["v"] if bytes.fromhex(k).decode() == e]
            if not hit:
                return None
            v = hit[0]
        else:
            return None
    return v


def _refs(c):
    for a in c["cargs"]:
        for p_ in a:
            if "ref" in p_:
                v = _lookup(c["env"], p_["ref"])
                if v is not None:
                    yield v


def cmd_in_model(c, ok=_ascii7):
    """is the case inside the modelled class of strconv.Quote? (only used to report the distribution)"""
    return all(_quotable(v, ok) for v in _refs(c))


def cmd_secrets_exact(c):
    return all(_secrets_exact(v) for v in _refs(c))


def _clash(p):
    """Model.Redactor.ph_clash for the distribution"""
    return (p in PH or PH in p or any(p.endswith(PH[:k]) for k in range(1, len(PH) + 1))
            or any(p.startswith(PH[-k:]) for k in range(1, len(PH) + 1)))


def render_arg(parts):
    out = b""
    for p_ in parts:
        if "text" in p_:
            out += bytes.fromhex(p_["text"])
        else:
            out += render_path(p_["ref"]).encode()
    return out


def rand_bytes(rng, alpha, n):
    return bytes(rng.choice(alpha) for _ in range(n))


def gen(rng, tier):
    thorough = tier == "thorough"
    cases = []

    def run(secrets, chunks, fam):
        cases.append({"op": "run", "secrets": [H(s) for s in secrets], "chunks": [H(c) for c in chunks], "fam": fam})

    for secrets, chunks in REGRESSION:
        run(secrets, chunks, "regression")

    # ---- exhaustive chunkings -----------------------------------------------------------------------
    bound = 14 if thorough else 11
    r1 = rng.fork("fam")
    for k, (secrets, stream) in enumerate(FAMILIES):
        # the head of the family's stream and, when it is longer than the bound, its tail as well
        windows = [stream[:bound]]
        if len(stream) > bound:
            windows.append(stream[-(bound - 2):])
        for w in windows:
            for chunks in all_chunkings(w):
                run(secrets, chunks, "exh%d" % k)
            for _ in range(40 if thorough else 8):
                run(secrets, random_chunking(r1, w), "exh%d+empty" % k)

    # ---- random secrets, streams, chunkings ---------------------------------------------------------------
    r2 = rng.fork("rand")
    alphas = [b"ab", b"abc", b"ab\n", b"abc\n", b"abx\n ", b"a\n", bytes([0, 255, 97, 10]), b"secrt[]\n"]
    for i in range(120000 if thorough else 2500):
        alpha = alphas[r2.below(len(alphas))]
        ns = r2.below(5)
        secrets = [rand_bytes(r2, alpha, r2.below(7)) for _ in range(ns)]
        maxlen = 200 if thorough else 60
        n = r2.below(maxlen if r2.chance(1, 5) else 24)
        stream = bytearray(rand_bytes(r2, alpha, n))
        # plant secrets so that occurrences (and overlaps of occurrences) are frequent
        for _ in range(r2.below(4)):
            if secrets and len(stream) > 0:
                s = r2.choice(secrets)
                pos = r2.below(len(stream))
                stream[pos:pos + len(s)] = s
        stream = bytes(stream)
        if r2.chance(1, 3) and not stream.endswith(NL):
            stream += NL
        run(secrets, random_chunking(r2, stream), "random")

    # ---- long lines: a secret at every offset 2^k-8 .. 2^k+1 of a line (a buffer-size optimisation that flushes, cuts or
    #      truncates an over-long line must neither split an occurrence nor lose clean bytes), written whole, cut inside
    #      the secret, and followed by a second line; model (linear-time twin) and oracles on every size
    r5 = rng.fork("long")
    sec = [b"hunter2", b"other-secret"]
    ks = range(12, 19) if thorough else (12, 14, 16, 17)
    for k in ks:
        L = 1 << k
        for d in (-8, -7, -6, -4, -1, 0, 1):
            stream = b"x" * (L + d) + sec[0] + b"y" * 5
            run(sec, [stream, b"zzz tail"], "long")
            if d in (-4, 0) or thorough:
                cut = L + d + 1 + r5.below(len(sec[0]) - 1)
                run(sec, [stream[:cut], stream[cut:], b"tail\n"], "long")
            if d == 0:
                run(sec, [stream + b"\n" + b"z" * 100 + sec[1], b"\nlast " + sec[0]], "long")
        # clean lines around the boundary: nothing may be changed or lost (no secret occurs in them)
        for n in (L - 1, L, L + 1):
            run(sec, [b"x" * n, b"\n"] if n == L else [b"x" * n], "long-clean")
        run(sec, [b"x" * (L - 6) + b"hunter", b"3 other-secre", b"t\n" if k % 2 else b"t"], "long-clean")

    # ---- the library alone -----------------------------------------------------------------------------
    r3 = rng.fork("lib")
    for i in range(100000 if thorough else 3000):
        alpha = [b"ab", b"abc", b"ab\n", bytes([0, 255, 97])][r3.below(4)]
        pats = [rand_bytes(r3, alpha, 1 + r3.below(6)) for _ in range(1 + r3.below(4))]
        if r3.chance(1, 10):
            pats.append(r3.choice(pats))
        text = rand_bytes(r3, alpha, r3.below(18))
        cases.append({"op": "lib", "pats": [H(p) for p in pats], "text": H(text),
                      "placeholder": H(PH if r3.chance(2, 3) else b""), "fam": "lib"})

    # ---- the whole command -------------------------------------------------------------------------------
    r4 = rng.fork("cmd")
    for c in CMD_REGRESSION:
        cases.append(dict(c))
    for c in cmd_end_family():
        cases.append(c)
    for i in range(40000 if thorough else 1500):
        cases.append(gen_cmd_case(r4))
    return cases


def prepare(c):
    q = dict(c)
    q.pop("fam", None)
    if c["op"] == "cmd":
        q.pop("cargs", None)
        q["args"] = [H(render_arg(a)) for a in c["cargs"]]
    return q


def wire_value(v):
    s = "t" if v["s"] else "f"
    t = v["t"]
    if t == "null":
        return "(null %s)" % s
    if t == "bool":
        return "(bool %s %s)" % (s, "t" if v["v"] else "f")
    if t in ("num", "str"):
        return "(%s %s x%s)" % (t, s, v["v"])
    if t == "arr":
        return "(arr %s (%s))" % (s, " ".join(wire_value(x) for x in v["v"]))
    return "(obj %s (%s))" % (s, " ".join("(x%s %s)" % (k, wire_value(x)) for k, x in v["v"]))


def wire_part(p_):
    if "text" in p_:
        return "(t x%s)" % p_["text"]
    return "(r (%s))" % " ".join(("(i %d)" % e) if isinstance(e, int) else ("(k x%s)" % H(e.encode())) for e in p_["ref"])


def _obs(o):
    if "panic" in o or "crash" in o or o.get("short"):
        return "panic"
    return "(out %s)" % ("x" + o.get("out", ""))


def _pairs(o, k):
    if o.get(k + "_panic") or "panic" in o or "crash" in o:
        return "panic"
    return "(" + " ".join("(%d %d)" % (a, b) for a, b in (o.get(k) or [])) + ")"


def line(c, o):
    X = lambda l: "(" + " ".join("x" + h for h in l) + ")"
    if c["op"] == "run":
        return "(run %s %s %s)" % (X(c["secrets"]), X(c["chunks"]), _obs(o))
    if c["op"] == "lib":
        if o.get("replace_panic") or "panic" in o or "crash" in o:
            rep = "panic"
        else:
            rep = "(out x%s)" % o.get("replace", "")
        return "(lib %s x%s x%s %s %s %s)" % (X(c["pats"]), c["text"], c["placeholder"], _pairs(o, "findall"),
                                              _pairs(o, "overlapping"), rep)
    if c["op"] == "cmd":
        alive = "panic" not in o and "crash" not in o
        iargs = X(o.get("args") or []) if alive and o.get("ran") else "none"
        main = "(out x%s)" % o.get("out", "") if alive else "panic"
        other = "(out x%s)" % o.get("other", "") if alive else "panic"
        return "(cmd %s (%s) %s (x%s x%s) %s (%s %s %s))" % (
            wire_value(c["env"]), " ".join("(" + " ".join(wire_part(p_) for p_ in a) + ")" for a in c["cargs"]),
            c.get("outcome", "ok"), c["script"], c.get("script2", ""), iargs, main, other, "t" if o.get("err") else "f")
    return None


def shrink(c):
    if c["op"] == "run":
        secrets, chunks = c["secrets"], c["chunks"]
        for i in range(len(secrets)):
            yield dict(c, secrets=secrets[:i] + secrets[i + 1:])
        for i in range(len(chunks) - 1):
            yield dict(c, chunks=chunks[:i] + [chunks[i] + chunks[i + 1]] + chunks[i + 2:])
        for i in range(len(chunks)):
            yield dict(c, chunks=chunks[:i] + chunks[i + 1:])
        for i in range(len(chunks)):
            b = chunks[i]
            if len(b) >= 2:
                yield dict(c, chunks=chunks[:i] + [b[2:]] + chunks[i + 1:])
                yield dict(c, chunks=chunks[:i] + [b[:-2]] + chunks[i + 1:])
        for i in range(len(secrets)):
            s = secrets[i]
            if len(s) > 6:
                yield dict(c, secrets=secrets[:i] + [s[:-2]] + secrets[i + 1:])
    elif c["op"] == "cmd":
        args = c["cargs"]
        for i in range(len(args)):
            yield dict(c, cargs=args[:i] + args[i + 1:])
        for i in range(len(args)):
            for j in range(len(args[i])):
                yield dict(c, cargs=args[:i] + [args[i][:j] + args[i][j + 1:]] + args[i + 1:])
        props = c["env"]["v"]
        for i in range(len(props)):
            yield dict(c, env=dict(c["env"], v=props[:i] + props[i + 1:]))
        for i in range(len(props)):
            k, v = props[i]
            if v["t"] in ("obj", "arr") and v["v"]:
                for j in range(len(v["v"])):
                    yield dict(c, env=dict(c["env"], v=props[:i] + [[k, dict(v, v=v["v"][:j] + v["v"][j + 1:])]] + props[i + 1:]))
        sc = c["script"]
        if len(sc) >= 2:
            yield dict(c, script=sc[:len(sc) // 4 * 2])
            yield dict(c, script=sc[2:])
        sc2 = c.get("script2", "")
        if len(sc2) >= 2:
            yield dict(c, script2="")
            yield dict(c, script2=sc2[2:])
        if c["sizes"] != [64]:
            yield dict(c, sizes=[64])
    elif c["op"] == "lib":
        pats, text = c["pats"], c["text"]
        for i in range(len(pats)):
            if len(pats) > 1:
                yield dict(c, pats=pats[:i] + pats[i + 1:])
        if len(text) >= 2:
            yield dict(c, text=text[2:])
            yield dict(c, text=text[:-2])


def describe(c):
    d = dict(c)
    d.pop("id", None)
    return d


MODEL_CUTOFF_V1 = 40000      # the first version of Corr/C13.v did not compare streams above this size with the model


def distribution(cases, r):
    d = {}
    for c, o in zip(cases, r["obs"]):
        fam = c.get("fam", "?")
        fam = "exhaustive" if fam.startswith("exh") and "+" not in fam else ("exhaustive+empty-writes" if fam.startswith("exh") else fam)
        if c["op"] == "run":
            res = "panic" if ("panic" in o or "crash" in o) else "out"
            if fam.startswith("long"):
                n = sum(len(x) // 2 for x in c["chunks"])
                fam += "(>%d bytes: model compared since v2)" % MODEL_CUTOFF_V1 if n > MODEL_CUTOFF_V1 else "(<=%d bytes)" % MODEL_CUTOFF_V1
        elif c["op"] == "cmd":
            res = "child-" + c.get("outcome", "ok") if o.get("ran") and "panic" not in o and "crash" not in o else "not-run"
        else:
            res = "replace-panics" if o.get("replace_panic") else "ok"
        k = "%s:%s" % (fam, res)
        d[k] = d.get(k, 0) + 1
    d["nontrivial"] = len(r["nontrivial"])
    nt = set(r["nontrivial"])
    cmds = [(i, c) for i, c in enumerate(cases) if c["op"] == "cmd"]
    d["cmd:nontrivial"] = sum(1 for i, c in cmds if i in nt)
    # escape hatches, with their counts
    d["cmd:outside-modelled-quote-class(bytes>=128 quoted; texts not compared, exact secrets still judged)"] = \
        sum(1 for _, c in cmds if not cmd_in_model(c))
    d["cmd:some-secret-composite-without-exact-text(clean/withheld oracles skipped)"] = \
        sum(1 for _, c in cmds if not cmd_secrets_exact(c))
    d["cmd:compared-since-v2(quoting rewrites a member: was outside the v1 class)"] = \
        sum(1 for _, c in cmds if cmd_in_model(c) and not cmd_in_model(c, _simple))
    runs = [c for c in cases if c["op"] == "run"]
    d["run:streams-above-%d-bytes" % MODEL_CUTOFF_V1] = sum(1 for c in runs if sum(len(x) // 2 for x in c["chunks"]) > MODEL_CUTOFF_V1)
    d["run:cases-with-a-filtered-secret-spellable-with-placeholder-text(judged between placeholder copies)"] = \
        sum(1 for c in runs if any(len(x) >= 6 and _clash(bytes.fromhex(x)) for x in c["secrets"]))
    d["run:cases-with-a-bracketed-secret-judged-plainly(excluded by v1)"] = \
        sum(1 for c in runs if any(len(x) >= 6 and (b"[" in bytes.fromhex(x) or b"]" in bytes.fromhex(x)) and not _clash(bytes.fromhex(x))
                                   for x in c["secrets"]))
    return d


def search(rng, info):
    """Targeted search when an obligation or the correspondence is broken: every chunking of the short overlap /
    line-end / threshold families."""
    cases = []
    fams = [([b"aaa"], b"aaaa"), ([b"abcd", b"bcde"], b"abcde"), ([b"abc"], b"xabc\nabc"), ([b"ab", b"abc"], b"abab abc"),
            ([b"abcde", b"bcd"], b"abcde\n"), ([b"abc"], b"abc"), ([b"xyz"], b"plain\ntext")]
    for m in info.get("mismatch_cases", [])[:5]:
        if m.get("op") == "run":
            fams.append(([bytes.fromhex(s) for s in m["secrets"]], b"".join(bytes.fromhex(x) for x in m["chunks"])[:10]))
    for secrets, stream in fams:
        for chunks in all_chunkings(stream):
            cases.append({"op": "run", "secrets": [H(s) for s in secrets], "chunks": [H(x) for x in chunks], "fam": "search"})
    for c in CMD_REGRESSION:
        cases.append(dict(c))
    for c in cmd_end_family():
        cases.append(c)
    for i in range(300):
        cases.append(gen_cmd_case(rng))
    return cases
