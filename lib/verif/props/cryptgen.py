"""YAML document generator shared by C12 and C04 (secret rewriting).  Builds an abstract document, renders it to
YAML text in a chosen presentation (block/flow collections, scalar styles, comments).  Only the TEXT is given to
the implementation; the yaml.v3 node tree of the text is read back from the implementation side, so a rendering
mistake here can only cost coverage, never soundness."""
import base64
import re
import struct
import zlib

MAGIC = b"escx"


def envelope(ct, magic=MAGIC, version=1):
    body = magic + struct.pack(">I", version) + ct
    return base64.b64encode(body + struct.pack(">I", zlib.crc32(body) & 0xFFFFFFFF)).decode()


def toy_encrypt(p, key, pad):
    return bytes([key] * pad) + bytes(b ^ key for b in p)


# ---- abstract documents ---------------------------------------------------------------------------------
class Sc:  # scalar
    def __init__(self, text, style="plain", typed=None, line=None, tag=None):
        self.text, self.style, self.typed, self.line, self.tag = text, style, typed, line, tag


class Seq:
    def __init__(self, items, flow=False, heads=None, foots=None, line=None, inner=None):
        self.items, self.flow = items, flow
        self.heads = heads or [None] * len(items)
        self.foots = foots or [None] * len(items)     # foot comment after an item (block style)
        self.line = line                               # line comment after a flow collection: `k: [..] # c`
        self.inner = inner                             # flow style written over several lines: comment after each item


class Map:
    def __init__(self, entries, flow=False, line=None, inner=None):
        # entries: list of dicts {key: Sc, val: node, head: str|None, kline: str|None, foot: str|None}
        self.entries, self.flow = entries, flow
        self.line = line                               # line comment after a flow mapping: `k: {..} # c`
        self.inner = inner                             # flow style over several lines: comment after each entry


PLAIN_SAFE = re.compile(r"^[A-Za-z_À-￿][A-Za-z0-9_./À-￿-]*( [A-Za-z0-9_.À-￿]+)*$")
SPECIAL_WORDS = {"null", "Null", "NULL", "true", "True", "TRUE", "false", "False", "FALSE", "yes", "no", "on", "off",
                 "y", "n", "Y", "N", "Yes", "No", "On", "Off", "YES", "NO", "ON", "OFF"}


def plain_ok(text):
    if text.startswith("fn::"):
        return bool(re.match(r"^fn::[A-Za-z:]+$", text))
    return bool(PLAIN_SAFE.match(text)) and text not in SPECIAL_WORDS


def dq(text):
    out = ['"']
    for ch in text:
        o = ord(ch)
        if ch == '"':
            out.append('\\"')
        elif ch == "\\":
            out.append("\\\\")
        elif ch == "\n":
            out.append("\\n")
        elif ch == "\t":
            out.append("\\t")
        elif o < 0x20 or o == 0x7F:
            out.append("\\x%02x" % o)
        else:
            out.append(ch)
    out.append('"')
    return "".join(out)


def esc_dq(text, mode):
    """Double-quoted spelling with YAML escapes that decode to the same text: mode 'x' writes one ASCII character
    (the middle one) as \\xNN, 'u' as \\uNNNN, 'all' writes every character as an escape."""
    if not text:
        return '""'
    pick = len(text) // 2
    out = ['"']
    for i, ch in enumerate(text):
        o = ord(ch)
        if mode == "all" or i == pick:
            if o < 0x80 and mode != "u":
                out.append("\\x%02x" % o)
            elif o < 0x10000:
                out.append("\\u%04x" % o)
            else:
                out.append("\\U%08x" % o)
        else:
            out.append(dq(ch)[1:-1])
    out.append('"')
    return "".join(out)


ESC_STYLES = {"esc_x": "x", "esc_u": "u", "esc_all": "all"}


def sq(text):
    return "'" + text.replace("'", "''") + "'"


def scalar_inline(s, flow):
    """Render a scalar that fits on the current line (plain/single/double/tagged); returns text or None."""
    t = s.text
    st = s.style
    if s.typed:  # genuine number/bool/null written plain
        return t
    if st in ESC_STYLES:
        return esc_dq(t, ESC_STYLES[st])
    if st == "tagged":
        return "!!str " + (t if re.match(r"^[A-Za-z0-9][A-Za-z0-9_.]*$", t) or t == "~" else dq(t))
    if st == "plain":
        if plain_ok(t) and not (flow and re.search(r"[,\[\]{}]", t)):
            return t
        st = "double"
    if st == "single":
        if "\n" in t or "\t" in t or any(ord(c) < 0x20 or ord(c) == 0x7F for c in t):
            st = "double"
        else:
            return sq(t)
    if st == "double":
        return dq(t)
    return None


def block_scalar(s, indent):
    """literal / folded block scalar lines (without the key), or None when the text does not fit the style."""
    t = s.text
    if any((ord(c) < 0x20 and c != "\n") or ord(c) == 0x7F for c in t) or t == "" or t.strip("\n") == "":
        return None
    if s.style == "folded":
        if "\n" in t or t != t.strip(" ") or "  " in t or len(t) > 60:
            return None
        return [">-", " " * indent + t]
    body = t
    if body.endswith("\n\n"):
        chomp = "+"
        lines = body[:-1].split("\n")
    elif body.endswith("\n"):
        chomp = ""
        lines = body[:-1].split("\n")
    else:
        chomp = "-"
        lines = body.split("\n")
    if any(l != l.rstrip(" ") and l.strip(" ") == "" for l in lines):
        return None
    ind = ""
    if lines[0].startswith(" ") or lines[0] == "":
        ind = "2"
    if chomp == "+":
        # keep: trailing newlines are content; body ended with k+1 newlines, already split
        pass
    hdr = "|" + ind + chomp
    return [hdr] + [(" " * indent + l) if l != "" else "" for l in lines]


def cmt(text):
    return "# " + text


def render(node, indent=0):
    """Render a node in block context at the given indentation; returns list of lines."""
    lines = []
    if isinstance(node, Map):
        if node.flow or not node.entries:
            return [" " * indent + flow(node)]
        for e in node.entries:
            if e.get("head"):
                lines.append(" " * indent + cmt(e["head"]))
            k = scalar_inline(e["key"], False)
            lines.extend(entry_lines(" " * indent + k + ":", e["val"], indent, e.get("kline")))
            if e.get("foot"):
                lines.extend([" " * indent + cmt(e["foot"]), ""])
        return lines
    if isinstance(node, Seq):
        if node.flow or not node.items:
            return [" " * indent + flow(node)]
        for it, h, ft in zip(node.items, node.heads, node.foots):
            if h:
                lines.append(" " * indent + cmt(h))
            lines.extend(entry_lines(" " * indent + "-", it, indent, None))
            if ft:
                lines.extend([" " * indent + cmt(ft), ""])
        return lines
    # scalar at top level
    return [" " * indent + (scalar_inline(node, False) or dq(node.text))]


def entry_lines(prefix, val, indent, kline):
    """`prefix` is 'key:' or '-'; renders the value after it."""
    if isinstance(val, Sc):
        if val.style in ("literal", "folded") and not val.typed:
            b = block_scalar(val, indent + 2)
            if b is not None:
                return [prefix + " " + b[0]] + b[1:]
        txt = scalar_inline(val, False) or dq(val.text)
        if val.typed == "null" and val.text == "":
            return [prefix + ((" " + cmt(val.line)) if val.line else "")]
        return [prefix + " " + txt + ((" " + cmt(val.line)) if val.line else "")]
    if (isinstance(val, Map) and (val.flow or not val.entries)) or (isinstance(val, Seq) and (val.flow or not val.items)):
        ml = flow_multiline(val, indent + 2)
        if ml is not None:
            return [prefix + " " + ml[0]] + ml[1:]
        return [prefix + " " + flow(val) + ((" " + cmt(val.line)) if getattr(val, "line", None) else "")]
    head = prefix + ((" " + cmt(kline)) if kline else "")
    if prefix.endswith("-") and isinstance(val, Map):
        # compact nested mapping in a sequence: "- k: v"
        sub = render(val, indent + 2)
        if not sub[0].lstrip().startswith("#") and not kline:
            return [prefix + " " + sub[0].lstrip()] + sub[1:]
    return [head] + render(val, indent + 2)


def flow(node):
    if isinstance(node, Sc):
        return scalar_inline(Sc(node.text, node.style if node.style not in ("literal", "folded") else "double",
                                node.typed), True) or dq(node.text)
    if isinstance(node, Seq):
        return "[" + ", ".join(flow(i) for i in node.items) + "]"
    return "{" + ", ".join(scalar_inline(e["key"], True) + ": " + flow(e["val"]) for e in node.entries) + "}"


def flow_multiline(node, indent):
    """A flow collection written over several lines so that comments can stand INSIDE it:
         [            {
           a, # c       k: v, # c
           b            l: w
         ] # line     }
    Returns the lines (first one is the opening bracket) or None when the node asks for no inner comments."""
    inner = getattr(node, "inner", None)
    if not inner or not any(inner):
        return None
    if isinstance(node, Seq):
        parts, op, cl = [flow(i) for i in node.items], "[", "]"
    else:
        parts, op, cl = [scalar_inline(e["key"], True) + ": " + flow(e["val"]) for e in node.entries], "{", "}"
    if not parts:
        return None
    lines = [op]
    for i, (p_, c) in enumerate(zip(parts, inner)):
        sep = "," if i + 1 < len(parts) else ""
        lines.append(" " * indent + p_ + sep + ((" " + cmt(c)) if c else ""))
    lines.append(" " * indent + cl + ((" " + cmt(node.line)) if getattr(node, "line", None) else ""))
    return lines


def to_text(root, trailing_newline=True):
    t = "\n".join(render(root, 0))
    return t + ("\n" if trailing_newline else "")


# ---- alternative spellings of the keys and of the texts ------------------------------------------------------
# The recognition of a secret works on the DECODED key (`fn::secret`, `ciphertext`), so every YAML spelling of the
# same string is the same call: plain, quoted, with \\x / \\u escapes (the raw bytes "fn::secret" then do not occur in
# the text at all), with an explicit !!str tag, in block and in flow style.
KEY_SPELLINGS = ["plain", "single", "double", "esc_x", "esc_u", "esc_all", "tagged"]
VAL_SPELLINGS = ["plain", "single", "double", "esc_x", "esc_u", "esc_all", "tagged", "literal", "folded"]


def spelled_documents(key, pad, thorough=False):
    """Yields (form, text): one secret per document so that an escaped key leaves no raw `fn::secret` in it.
    form 'plain': fn::secret carries plaintext; form 'cipher': it carries {ciphertext: envelope}."""
    def wrap(node, ctx):
        if ctx == "block":
            vals = Map([{"key": Sc("s", "plain"), "val": node}, {"key": Sc("other", "plain"), "val": Sc("abc", "plain")}])
        elif ctx == "flow":
            node.flow = True
            vals = Map([{"key": Sc("s", "plain"), "val": node}, {"key": Sc("other", "plain"), "val": Sc("abc", "plain")}])
        else:  # inside a flow sequence in provider inputs
            node.flow = True
            vals = Map([{"key": Sc("p", "plain"),
                         "val": Map([{"key": Sc("fn::open::test", "plain"),
                                      "val": Map([{"key": Sc("k", "plain"), "val": Seq([Sc("x", "plain"), node], True)}])}])}])
        return to_text(Map([{"key": Sc("values", "plain"), "val": vals}]))

    texts = ["hunter2", "p\u00e4ssw\u00f6rd 42"]
    n = 0
    for ks in KEY_SPELLINGS:
        for vs in VAL_SPELLINGS:
            for ctx in ("block", "flow", "deep"):
                if ctx != "block" and vs in ("literal", "folded"):
                    continue
                n += 1
                t = texts[n % 2]
                yield "plain", wrap(Map([{"key": Sc("fn::secret", ks), "val": Sc(t, vs)}]), ctx)
    env_styles = ["plain", "single", "double", "esc_x", "tagged"]
    for ks in KEY_SPELLINGS:
        for cks in KEY_SPELLINGS:
            for ctx in ("block", "flow", "deep"):
                n += 1
                if not thorough and ctx == "deep" and (n % 3):
                    continue
                t = texts[n % 2]
                env = envelope(toy_encrypt(t.encode("utf-8"), key, pad))
                inner = Map([{"key": Sc("ciphertext", cks), "val": Sc(env, env_styles[n % len(env_styles)])}],
                            flow=(ctx != "block") or n % 2 == 0)
                yield "cipher", wrap(Map([{"key": Sc("fn::secret", ks), "val": inner}]), ctx)


# ---- texts that start with a line break character ---------------------------------------------------------------
# yaml.v3 cannot write a block scalar whose text starts with a line break (LF, U+2028, U+2029: the break is dropped) or
# a tab; MarshalYAML writes such strings double-quoted.  The two Unicode breaks are three bytes long in UTF-8, so a
# test of the first BYTE misses them.  Controls: U+0085 (NEL, read as LF by the scanner) and U+FEFF (no break).
BREAK_PREFIXES = [("ls", "\u2028"), ("ps", "\u2029"), ("nel", "\u0085"), ("bom", "\ufeff"), ("lf", "\n"), ("tab", "\t")]
BREAK_BODIES = ["first\nsecond\n", "x\ny", "\n"]


def break_scalar_documents():
    """NON-secret block scalars (literal, folded; chomping clip / strip / keep) whose text starts with the prefix and
    contains a line feed, beside a secret.  A line made of U+2028 / U+2029 / U+0085 alone right after the header is how
    such a text is spelled in a block scalar."""
    tail = "  s: {fn::secret: q}\n"
    for name, p in BREAK_PREFIXES:
        for ind, chomp in (("|", ""), ("|", "-"), ("|", "+"), (">", ""), (">", "-")):
            sep = "\n" if ind == "|" else "\n\n"
            if name in ("ls", "ps", "nel"):
                body = "%s    first%s    second\n" % (p, sep)
                hdr = ind + chomp
            elif name == "lf":
                body = "\n    first%s    second\n" % sep
                hdr = ind + "2" + chomp
            else:
                body = "    %sfirst%s    second\n" % (p, sep)
                hdr = ind + ("2" if name == "tab" else "") + chomp
            yield "values:\n  t: %s\n%s%s" % (hdr, body, tail)
        # the same text double-quoted (stays quoted) and as a sequence item
        yield "values:\n  t: %s\n%s" % (esc_dq(p + "first\nsecond\n", "all"), tail)
        if name in ("ls", "ps", "nel"):
            yield "values:\n  l:\n    - |\n%s      first\n      second\n%s" % (p, tail)


def break_secret_documents(key, pad):
    """(form, text): secrets whose plaintext starts with the prefix and contains a line feed, in block and in flow
    position; 'plain' documents carry the plaintext (double-quoted with escapes, or as a literal block scalar),
    'cipher' documents the envelope (decrypted into the plain-style slot of the ciphertext scalar)."""
    for name, p in BREAK_PREFIXES:
        for body in BREAK_BODIES:
            t = p + body
            q = esc_dq(t, "all")
            env = envelope(toy_encrypt(t.encode("utf-8"), key, pad))
            yield "plain", "values:\n  a:\n    fn::secret: %s\n  b: 1\n" % q
            yield "plain", "values:\n  a: {fn::secret: %s}\n  b: [{fn::secret: %s}]\n" % (q, q)
            yield "plain", "values:\n  p:\n    fn::open::test:\n      k:\n        fn::secret: %s\n" % q
            yield "cipher", "values:\n  a:\n    fn::secret:\n      ciphertext: %s\n  b: 1\n" % env
            yield "cipher", "values:\n  a:\n    fn::secret: {ciphertext: \"%s\"}\n  b: 1\n" % env
            yield "cipher", "values:\n  a: {fn::secret: {ciphertext: %s}}\n  b: 1\n" % env
        if name in ("ls", "ps", "nel"):
            yield "plain", "values:\n  a:\n    fn::secret: |\n%s      first\n      second\n  b: 1\n" % p


# ---- random documents -------------------------------------------------------------------------------------
SECRET_TEXTS = ["", "a", "\x7f", "123", "null", "true", "~", " lead", "trail ", "  both  ", "$", "$$", "a$$b", "$$$",
                "a$b", "${x}", "$${x}", "pre ${a.b} post", "line1\nline2\n", "x\ny", "\n", "tab\there",
                "héllo", "日本語", "ключ", "😀 emoji", "12345678901234567890", "1e3", "0x1F", "-", "- a", "a: b", "a #b",
                "#hash", "'q'", "\"dq\"", "back\\slash", "[x]", "{y}", "ZXNjeAAAAAEQbF1s", "ciphertext", "fn::secret",
                "hunter2", "correct horse battery staple", "p@ssw0rd!", "S3cr3t-Value_42"]

STRING_TEXTS = ["abc", "hello world", "123", "null", "true", "false", "~", "1e3", "0x1F", "1_000", ".5", "-1",
                "+1", "12345678901234567890", "yes", "no", "", " lead", "trail ", "a: b", "a #b", "héllo", "日本語",
                "x\ny", "multi\nline\n", "it's", "say \"hi\"", "back\\slash", "[x]", "{y}", "a,b", "*star", "&amp", "!bang",
                "%pct", "@at", "`tick", "- dash", "? q", ": c", "#hash", "NaN", ".inf", "Infinity", "1.5e+300",
                "2001-01-01x", "fn::secretx", "ciphertext"]

TYPED = [("1", "int"), ("0", "int"), ("-7", "int"), ("12345678901234567890", "int"),
         ("12345678901234567890123", "float"), ("1.5", "float"), ("1e3", "float"), ("0x1F", "int"), ("0o17", "int"),
         ("true", "bool"), ("false", "bool"), ("True", "bool"), ("null", "null"), ("~", "null"), ("Null", "null"),
         ("", "null")]

KEYS = ["a", "b", "c", "key", "name", "x1", "foo", "bar", "baz", "k_2", "user", "token", "héllo", "long key", "123",
        "true", "null", "a.b", "x-y", "values2", "inputs", "provider"]

COMMENTS = ["c", "note", "a comment", "TODO: fix", "héllo", "x # y", "secret below", "  padded", "k: v"]


class Gen:
    def __init__(self, rng, comments=True, ciphers=False, key=0x5A, pad=0, secret_texts=None, flow_ok=True,
                 typed_ok=True, trivia=False, dup_keys=False, long_lines=False, roots=False):
        """trivia: foot comments, line comments after flow collections, comments inside (multi-line) flow collections;
        dup_keys: mappings may repeat a key; long_lines: strings / secrets of 90..400 characters (the emitter's line
        width is 80); roots: documents that are not just `values:` (imports, other top-level keys, comments around).
        All off by default (C04 uses this class and keeps its stream)."""
        self.rng, self.comments, self.ciphers = rng, comments, ciphers
        self.key, self.pad = key, pad
        self.secret_texts = secret_texts or SECRET_TEXTS
        self.flow_ok, self.typed_ok = flow_ok, typed_ok
        self.trivia, self.dup_keys, self.long_lines, self.roots = trivia, dup_keys, long_lines, roots
        self.n_secrets = 0

    def long_text(self):
        words = ["word", "x", "lorem", "ipsum-dolor", "a,b", "日本", "k:v", "tail"]
        n = 90 + self.rng.below(310)
        out = []
        while sum(len(w) + 1 for w in out) < n:
            out.append(self.rng.choice(words))
        return (" " if self.rng.chance(1, 2) else "").join(out) if self.rng.chance(1, 4) else " ".join(out)

    def coll_trivia(self, node, in_flow):
        """line comment after / comments inside a flow collection that sits directly in a block collection"""
        if not self.trivia or in_flow or not node.flow:
            return node
        n = len(node.items) if isinstance(node, Seq) else len(node.entries)
        if n and self.rng.chance(1, 3):
            node.inner = [self.comment(1, 2) for _ in range(n)]
        if self.rng.chance(1, 3):
            node.line = self.comment(1, 1)
        return node

    def comment(self, num=1, den=4):
        if self.comments and self.rng.chance(num, den):
            return self.rng.choice(COMMENTS)
        return None

    def style(self, text, block_ok=True):
        styles = ["plain", "single", "double", "double"]
        if block_ok:
            styles += ["literal", "literal" if "\n" in text else "folded", "tagged"]
        return self.rng.choice(styles)

    def string(self, in_flow):
        t = self.rng.choice(STRING_TEXTS)
        if self.long_lines and self.rng.chance(1, 6):
            t = self.long_text()
        return Sc(t, self.style(t, not in_flow), line=None if in_flow else self.comment(1, 6))

    def typed(self, in_flow):
        t, ty = self.rng.choice(TYPED)
        if in_flow and t == "":
            t = "null"
        # an empty null with a line comment ("k: # c") is re-emitted as "k: null # c": the comment survives in the
        # text but yaml.v3 then attaches it to the value instead of the key; kept out of the generated subset
        return Sc(t, "plain", typed=ty, line=None if in_flow or t == "" else self.comment(1, 8))

    def secret(self, in_flow, text=None):
        self.n_secrets += 1
        t = text if text is not None else self.rng.choice(self.secret_texts)
        if text is None and self.long_lines and self.rng.chance(1, 8):
            t = self.long_text()
        kstyle = self.rng.choice(["plain", "plain", "plain", "double", "single"])
        key = Sc("fn::secret", kstyle)
        if self.ciphers and self.rng.chance(2, 3) or self.ciphers == "all":
            env = envelope(toy_encrypt(t.encode("utf-8"), self.key, self.pad))
            cval = Sc(env, self.rng.choice(["plain", "plain", "double", "single"]),
                      line=None if in_flow else self.comment(1, 5))
            inner = Map([{"key": Sc("ciphertext", "plain"), "val": cval}], flow=in_flow or self.rng.chance(1, 4))
            return Map([{"key": key, "val": inner, "head": None if in_flow else self.comment(1, 6)}],
                       flow=in_flow or (inner.flow and self.rng.chance(1, 2)))
        val = Sc(t, self.style(t, not in_flow), line=None if in_flow else self.comment(1, 3))
        return Map([{"key": key, "val": val, "head": None if in_flow else self.comment(1, 6)}],
                   flow=in_flow or (self.flow_ok and val.style not in ("literal", "folded") and self.rng.chance(1, 4)))

    def node(self, depth, in_flow):
        r = self.rng.below(100)
        if depth <= 0:
            r = r % 55
        if r < 25:
            return self.string(in_flow)
        if r < 35 and self.typed_ok:
            return self.typed(in_flow)
        if r < 55:
            return self.secret(in_flow)
        if r < 70:
            n = self.rng.below(4)
            fl = in_flow or (self.flow_ok and self.rng.chance(1, 3))
            items = [self.node(depth - 1, fl) for _ in range(n)]
            q = Seq(items, fl, [None if fl else self.comment(1, 6) for _ in items],
                    [self.comment(1, 8) if (self.trivia and not fl) else None for _ in items])
            return self.coll_trivia(q, in_flow)
        if r < 78:
            return self.provider(depth, in_flow)
        return self.mapping(depth, in_flow, 1 + self.rng.below(4))

    def mapping(self, depth, in_flow, n):
        fl = in_flow or (self.flow_ok and self.rng.chance(1, 4))
        keys = self.rng.shuffle(KEYS)[:n]
        if self.dup_keys and n >= 2 and self.rng.chance(1, 5):
            keys[self.rng.below(n)] = keys[self.rng.below(n)]          # the same key (possibly) twice
        entries = []
        for k in keys:
            v = self.node(depth - 1, fl)
            ks = Sc(k, "plain" if plain_ok(k) and self.rng.chance(3, 4) else self.rng.choice(["single", "double"]))
            kline = None
            if not fl and isinstance(v, (Map, Seq)) and not getattr(v, "flow", False):
                kline = self.comment(1, 8)
            entries.append({"key": ks, "val": v, "head": None if fl else self.comment(1, 5), "kline": kline,
                            "foot": self.comment(1, 8) if (self.trivia and not fl) else None})
        return self.coll_trivia(Map(entries, fl), in_flow)

    def provider(self, depth, in_flow):
        inputs = self.mapping(depth - 1, in_flow, 1 + self.rng.below(3))
        if self.rng.chance(1, 2):
            return Map([{"key": Sc("fn::open::test", "plain"), "val": inputs}], in_flow)
        body = Map([{"key": Sc("provider", "plain"), "val": Sc("test", "plain")},
                    {"key": Sc("inputs", "plain"), "val": inputs}], in_flow)
        return Map([{"key": Sc("fn::open", "plain"), "val": body}], in_flow)

    def document(self, depth=3):
        vals = self.mapping(depth, False, 1 + self.rng.below(4))
        vals.flow = False
        for e in vals.entries:
            if e["key"].text in ("123", "true", "null"):
                e["key"].style = "double"
        ents = [{"key": Sc("values", "plain"), "val": vals, "head": self.comment(1, 5)}]
        if self.roots:
            r = self.rng
            k = r.below(6)
            if k in (0, 1):      # imports before the values (strings, a merge-less import object)
                imps = Seq([Sc(r.choice(["base", "a/b", "proj/env"]), r.choice(["plain", "double"])) for _ in range(1 + r.below(2))],
                           r.chance(1, 3), None)
                if k == 1:
                    imps.items.append(Map([{"key": Sc("other", "plain"),
                                            "val": Map([{"key": Sc("merge", "plain"), "val": Sc("false", typed="bool")}], r.chance(1, 2))}],
                                          imps.flow))
                ents.insert(0, {"key": Sc("imports", "plain"), "val": imps, "head": self.comment(1, 4)})
            elif k == 2:         # an unknown top-level key holding anything, also a secret
                ents.append({"key": Sc(r.choice(["foo", "metadata", "x-ext"]), "plain"), "val": self.node(depth - 1, False),
                             "head": self.comment(1, 4)})
            elif k == 3:         # values is not the first key; an empty imports list
                ents.insert(0, {"key": Sc("imports", "plain"), "val": Seq([], True)})
            elif k == 4:         # foot comment at the end of the document
                ents[-1]["foot"] = self.comment(1, 1)
        root = Map(ents)
        return root
