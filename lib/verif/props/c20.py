"""C20 — the API client addresses the right resource, once.

A driver case is a GROUP of calls; the implementation runner executes the calls of a group concurrently (each
against its own fault-injecting httptest server) because the client's retry loop sleeps for real (1 s, 2 s, 4 s).
Every call carries the generator's INDEPENDENT expectation of the request line (method, path, query built here
from the documented REST routes, not from the Go source) which the Coq specification compares with what the
server saw."""
import json

from .. import common as C

ID = "C20"
SRC_FACTS = ["client_ops", "resolve_templates", "should_retry_table", "default_policy", "max_retry_count",
             "client_headers", "default_project", "reject_unclean_path"]
COQ_SAMPLE = 10
BATCH = 2          # groups per implrun process
IMPL_TIMEOUT = 300

RULE = ("every method of the Client interface x name/version tuples (plain, odd-but-valid characters, route words "
        "such as 'tags'/'versions'/'yaml') x fault prefixes k=0..1 (quick) / 0..5 (thorough) of {connection reset, "
        "5xx with empty body, 5xx with JSON body, 5xx text} x final replies (2xx with/without body and revision "
        "headers, 4xx with diagnostics / error JSON / text / empty, 401 without token, 429, permanent 5xx, permanent "
        "reset); every diagnostics-returning method x diagnostics replies whose body code and HTTP status agree or "
        "disagree; same-method tuples differing in one position or permuted (collision oracle inside a group); "
        "ROUTE-WORD family: every route word (versions, tags, open, decrypt, yaml, clone, retract, check, hooks, ...) in "
        "every name / version position of every operation, both flag values, two words in the project/environment "
        "positions (thorough: in every pair of positions), bucketed by (method, segment count) and run as one sequence "
        "per bucket: two calls that address different RESOURCES (independent canonical form, delegations identified) "
        "must not produce the same (method, target, body) - across operations; "
        "SEQUENCES of 2-4 operations on one client instance (every conditional update followed by every method, two "
        "different tags then every method, tag combinations t1/t2/none on one environment, random): per request the "
        "tag header must be exactly the tag of THAT call; malformed stream: one name per call replaced by '', '.', '..', names with / % ? # space, control and "
        "non-ASCII bytes, sub-delims.  non-trivial = at least one request reached the server; distinct by content")
ASSUMPTIONS = [
    "valid names: non-empty, not '.' or '..', only characters net/url leaves unescaped in a path "
    "(ALPHA DIGIT - _ . ~ $ & + , : ; = @), no '/'",
    "the server's n-th reply depends only on n (scripted); a 'connection error' is the server closing the "
    "connection after reading the request and before writing a response",
    "request bodies of updates are a fixed YAML text (opaque to the projection); of the JSON bodies the string, number "
    "and boolean leaves are compared; durations are whole seconds",
    "the diagnostics rule applies to the replies the per-method decoding sees: a 429 and a 401 on a client without a "
    "token are answered by httpCall's generic errors (theorem C20_diagnostics_intercepted; counted as "
    "diag_outside_429_or_401_without_token)",
    "every call starts on a fresh connection (own server); sequences carry no transport faults",
]
TRUSTED = ["net/http client+server, net/url, encoding/json, go-querystring are exercised, not proved; their "
           "request-line behaviour (url.Parse + RequestURI, transparent replay of a GET on a reused connection) is "
           "modelled in Model/Client.v and tied by this correspondence",
           "the expected request lines are built independently in lib/verif/props/c20.py"]

E = b"/api/esc/environments"


def B(x):
    return x if isinstance(x, bytes) else x.encode("utf-8")


def qe(v):
    out = bytearray()
    for b in v:
        ch = chr(b)
        if ch.isascii() and (ch.isalnum() or ch in "-_.~"):
            out.append(b)
        elif ch == " ":
            out += b"+"
        else:
            out += b"%%%02X" % b
    return bytes(out)


def qs(pairs):
    items = [(B(k), v) for k, v, om in pairs if not (om and v == b"")]
    items.sort(key=lambda kv: kv[0])
    return (b"?" + b"&".join(qe(k) + b"=" + qe(v) for k, v in items)) if items else b""


def dur(secs):
    if secs == 0:
        return b"0s"
    h, m, s = secs // 3600, (secs // 60) % 60, secs % 60
    if secs < 60:
        return b"%ds" % s
    if secs < 3600:
        return b"%dm%ds" % (m, s)
    return b"%dh%dm%ds" % (h, m, s)


def oi(x):
    return b"" if x is None else b"%d" % x


def valid_name(x):
    return (x not in (b"", b".", b"..")
            and all(chr(b).isascii() and (chr(b).isalnum() or chr(b) in "-_.~$&+,:;=@") for b in x))


def envp(o, p, e, v=b""):
    r = E + b"/" + o + b"/" + p + b"/" + e
    if v != b"":
        r += b"/versions/" + v
    return r


# op -> (roles of the string arguments, kinds of the numeric arguments)
#   roles: N path name, V version (may be empty), Q query value, S body string, T etag
OPS = {
    "Insecure": ("", ""), "URL": ("", ""),
    "GetPulumiAccountDetails": ("", ""),
    "GetRevisionNumber": ("NNNV", ""),
    "ListEnvironments": ("QQ", ""),
    "CreateEnvironment": ("NS", ""),
    "CreateEnvironmentWithProject": ("NSS", ""),
    "CloneEnvironment": ("NNNSS", "b"),
    "GetEnvironment": ("NNNV", "b"),
    "UpdateEnvironmentWithRevision": ("NNNT", ""),
    "UpdateEnvironment": ("NNT", ""),
    "UpdateEnvironmentWithProject": ("NNNT", ""),
    "DeleteEnvironment": ("NNN", ""),
    "OpenEnvironment": ("NNNV", "d"),
    "CheckYAMLEnvironment": ("N", "B"),
    "OpenYAMLEnvironment": ("N", "d"),
    "GetOpenEnvironment": ("NNN", ""),
    "GetOpenEnvironmentWithProject": ("NNNN", ""),
    "GetAnonymousOpenEnvironment": ("NN", ""),
    "GetOpenProperty": ("NNNNQ", ""),
    "GetAnonymousOpenProperty": ("NNQ", ""),
    "ListEnvironmentTags": ("NNNQ", "i"),
    "CreateEnvironmentTag": ("NNNSS", ""),
    "GetEnvironmentTag": ("NNNN", ""),
    "UpdateEnvironmentTag": ("NNNNSSS", ""),
    "DeleteEnvironmentTag": ("NNNN", ""),
    "GetEnvironmentRevision": ("NNN", "r"),
    "ListEnvironmentRevisions": ("NNN", "ii"),
    "RetractEnvironmentRevision": ("NNNNS", "i"),
    "CreateEnvironmentRevisionTag": ("NNNS", "i"),
    "GetEnvironmentRevisionTag": ("NNNN", ""),
    "UpdateEnvironmentRevisionTag": ("NNNN", "i"),
    "DeleteEnvironmentRevisionTag": ("NNNN", ""),
    "ListEnvironmentRevisionTags": ("NNNQ", "i"),
    "EnvironmentExists": ("NNN", ""),
}
OP_NAMES = list(OPS)
DIAG_OPS = {"UpdateEnvironmentWithRevision", "UpdateEnvironment", "UpdateEnvironmentWithProject", "OpenEnvironment",
            "CheckYAMLEnvironment", "OpenYAMLEnvironment"}


def expect(op, s, n):
    """Independent construction of what must be on the wire for valid names:
       (method or '-', target, names that address the resource, etag, identity extras)."""
    s = list(s) + [b""] * 8
    n = list(n) + [None] * 3
    o, p, e = s[0], s[1], s[2]
    flag = bool(n[0])
    if op in ("Insecure", "URL"):
        return "-", b"", [], b"", []
    if op == "GetPulumiAccountDetails":
        return "GET", b"/api/user", [], b"", []
    if op == "GetRevisionNumber":
        v = s[3] or b"latest"
        if v[:1].isdigit():
            return "-", b"", [o, p, e], b"", [v]
        return "GET", envp(o, p, e) + b"/versions/tags/" + v, [o, p, e, v], b"", []
    if op == "ListEnvironments":
        return "GET", E + qs([("continuationToken", s[1], True), ("organization", s[0], True)]), [], b"", [s[0], s[1]]
    if op == "CreateEnvironment":
        return "POST", E + b"/" + o, [o], b"", [b"default", s[1]]
    if op == "CreateEnvironmentWithProject":
        return "POST", E + b"/" + o, [o], b"", [s[1], s[2]]
    if op == "CloneEnvironment":
        return "POST", envp(o, p, e) + b"/clone", [o, p, e], b"", [s[3], s[4], b"%d" % flag]
    if op == "GetEnvironment":
        return ("GET", envp(o, p, e, s[3]) + (b"/decrypt" if flag else b""), [o, p, e] + ([s[3]] if s[3] else []), b"",
                [b"decrypt" if flag else b"plain", b"v" if s[3] else b"nov"])
    if op in ("UpdateEnvironmentWithRevision", "UpdateEnvironmentWithProject"):
        return "PATCH", envp(o, p, e), [o, p, e], s[3], []
    if op == "UpdateEnvironment":
        return "PATCH", envp(o, b"default", s[1]), [o, s[1]], s[2], []
    if op == "DeleteEnvironment":
        return "DELETE", envp(o, p, e), [o, p, e], b"", []
    if op == "OpenEnvironment":
        return ("POST", envp(o, p, e, s[3]) + b"/open" + qs([("duration", dur(n[0] or 0), False)]),
                [o, p, e] + ([s[3]] if s[3] else []), b"", [b"v" if s[3] else b"nov", dur(n[0] or 0)])
    if op == "CheckYAMLEnvironment":
        return ("POST", E + b"/" + o + b"/yaml/check" + qs([("showSecrets", b"true" if flag else b"false", False)]),
                [o], b"", [b"%d" % flag])
    if op == "OpenYAMLEnvironment":
        return "POST", E + b"/" + o + b"/yaml/open" + qs([("duration", dur(n[0] or 0), False)]), [o], b"", [dur(n[0] or 0)]
    if op == "GetOpenEnvironment":
        return "GET", envp(o, b"default", s[1]) + b"/open/" + s[2], [o, s[1], s[2]], b"", []
    if op == "GetOpenEnvironmentWithProject":
        return "GET", envp(o, p, e) + b"/open/" + s[3], [o, p, e, s[3]], b"", []
    if op == "GetAnonymousOpenEnvironment":
        return "GET", E + b"/" + o + b"/yaml/open/" + s[1], [o, s[1]], b"", []
    if op == "GetOpenProperty":
        return ("GET", envp(o, p, e) + b"/open/" + s[3] + qs([("property", s[4], False)]), [o, p, e, s[3]], b"", [s[4]])
    if op == "GetAnonymousOpenProperty":
        return "GET", E + b"/" + o + b"/yaml/open/" + s[1] + qs([("property", s[2], False)]), [o, s[1]], b"", [s[2]]
    if op == "ListEnvironmentTags":
        return ("GET", envp(o, p, e) + b"/tags" + qs([("after", s[3], False), ("count", oi(n[0]), False)]), [o, p, e], b"",
                [s[3], oi(n[0])])
    if op == "CreateEnvironmentTag":
        return "POST", envp(o, p, e) + b"/tags", [o, p, e], b"", [s[3], s[4]]
    if op == "GetEnvironmentTag":
        return "GET", envp(o, p, e) + b"/tags/" + s[3], [o, p, e, s[3]], b"", []
    if op == "UpdateEnvironmentTag":
        return "PATCH", envp(o, p, e) + b"/tags/" + s[3], [o, p, e, s[3]], b"", [s[4], s[5], s[6]]
    if op == "DeleteEnvironmentTag":
        return "DELETE", envp(o, p, e) + b"/tags/" + s[3], [o, p, e, s[3]], b"", []
    if op == "GetEnvironmentRevision":
        return ("GET", envp(o, p, e) + b"/versions" + qs([("before", oi((n[0] or 0) + 1), False), ("count", b"1", False)]),
                [o, p, e], b"", [oi(n[0] or 0)])
    if op == "ListEnvironmentRevisions":
        return ("GET", envp(o, p, e) + b"/versions" + qs([("before", oi(n[0]), False), ("count", oi(n[1]), False)]),
                [o, p, e], b"", [oi(n[0]), oi(n[1])])
    if op == "RetractEnvironmentRevision":
        return "POST", envp(o, p, e) + b"/versions/" + s[3] + b"/retract", [o, p, e, s[3]], b"", [s[4], oi(n[0])]
    if op == "CreateEnvironmentRevisionTag":
        return "POST", envp(o, p, e) + b"/versions/tags", [o, p, e], b"", [s[3], oi(n[0])]
    if op == "GetEnvironmentRevisionTag":
        return "GET", envp(o, p, e) + b"/versions/tags/" + s[3], [o, p, e, s[3]], b"", []
    if op == "UpdateEnvironmentRevisionTag":
        return "PATCH", envp(o, p, e) + b"/versions/tags/" + s[3], [o, p, e, s[3]], b"", [oi(n[0])]
    if op == "DeleteEnvironmentRevisionTag":
        return "DELETE", envp(o, p, e) + b"/versions/tags/" + s[3], [o, p, e, s[3]], b"", []
    if op == "ListEnvironmentRevisionTags":
        return ("GET", envp(o, p, e) + b"/versions/tags" + qs([("after", s[3], False), ("count", oi(n[0]), False)]),
                [o, p, e], b"", [s[3], oi(n[0])])
    if op == "EnvironmentExists":
        return "GET", envp(o, p, e), [o, p, e], b"", []
    raise KeyError(op)


def resource(op, s, n):
    """Canonical form of the RESOURCE a call addresses, independent of the operation that addresses it (operations
    related by delegation or by sharing a REST route give the same form).  Built from the documented routes, not from
    the Go source.  Two calls with different forms must never produce the same (method, target, body)."""
    s = list(s) + [b""] * 8
    n = list(n) + [None] * 3
    o, p, e = s[0], s[1], s[2]
    flag = bool(n[0])
    if op in ("Insecure", "URL"):
        return ["none"]
    if op == "GetPulumiAccountDetails":
        return ["user"]
    if op == "GetRevisionNumber":
        v = s[3] or b"latest"
        return ["local"] if v[:1].isdigit() else ["revtag", o, p, e, v, b""]
    if op == "ListEnvironments":
        return ["envs", s[0], s[1]]
    if op == "CreateEnvironment":
        return ["create", o, b"default", s[1]]
    if op == "CreateEnvironmentWithProject":
        return ["create", o, s[1], s[2]]
    if op == "CloneEnvironment":
        return ["clone", o, p, e, s[3], s[4], b"%d" % flag]
    if op == "GetEnvironment":
        return ["env", o, p, e, s[3], b"decrypt" if flag else b"plain"]
    if op in ("UpdateEnvironmentWithRevision", "UpdateEnvironmentWithProject", "DeleteEnvironment", "EnvironmentExists"):
        return ["env", o, p, e, b"", b"plain"]
    if op == "UpdateEnvironment":
        return ["env", o, b"default", s[1], b"", b"plain"]
    if op == "OpenEnvironment":
        return ["env-open", o, p, e, s[3], dur(n[0] or 0)]
    if op == "CheckYAMLEnvironment":
        return ["yaml-check", o, b"%d" % flag]
    if op == "OpenYAMLEnvironment":
        return ["yaml-open", o, dur(n[0] or 0)]
    if op == "GetOpenEnvironment":
        return ["session", o, b"default", s[1], s[2], b"-"]
    if op == "GetOpenEnvironmentWithProject":
        return ["session", o, p, e, s[3], b"-"]
    if op == "GetOpenProperty":
        return ["session", o, p, e, s[3], b"=" + s[4]]
    if op == "GetAnonymousOpenEnvironment":
        return ["anon-session", o, s[1], b"-"]
    if op == "GetAnonymousOpenProperty":
        return ["anon-session", o, s[1], b"=" + s[2]]
    if op == "ListEnvironmentTags":
        return ["env-tags", o, p, e, s[3], oi(n[0])]
    if op == "CreateEnvironmentTag":
        return ["env-tag-create", o, p, e, s[3], s[4]]
    if op in ("GetEnvironmentTag", "DeleteEnvironmentTag"):
        return ["env-tag", o, p, e, s[3]]
    if op == "UpdateEnvironmentTag":
        return ["env-tag", o, p, e, s[3], s[4], s[5], s[6]]
    if op == "GetEnvironmentRevision":
        return ["revisions", o, p, e, oi((n[0] or 0) + 1), b"1"]
    if op == "ListEnvironmentRevisions":
        return ["revisions", o, p, e, oi(n[0]), oi(n[1])]
    if op == "RetractEnvironmentRevision":
        return ["retract", o, p, e, s[3], s[4], oi(n[0])]
    if op == "CreateEnvironmentRevisionTag":
        return ["revtag-create", o, p, e, s[3], oi(n[0])]
    if op in ("GetEnvironmentRevisionTag", "DeleteEnvironmentRevisionTag"):
        return ["revtag", o, p, e, s[3], b""]
    if op == "UpdateEnvironmentRevisionTag":
        return ["revtag", o, p, e, s[3], oi(n[0])]
    if op == "ListEnvironmentRevisionTags":
        return ["revtags", o, p, e, s[3], oi(n[0])]
    raise KeyError(op)


# ---- pools ---------------------------------------------------------------------------------------------
PLAIN = [b"org1", b"my-proj", b"env_2", b"a.b", b"x~y", b"a", b"Z9", b"team-42", b"prod"]
ODD_VALID = [b"a$b", b"a&b", b"a+b", b"a,b", b"a:b", b"a;b", b"a=b", b"a@b", b"...", b".a", b"a.", b"-", b"_", b"~",
             b"$&+,:;=@"]
ROUTE_WORDS = [b"versions", b"tags", b"open", b"decrypt", b"yaml", b"clone", b"default", b"latest", b"retract",
               b"check", b"environments", b"api", b"esc", b"user", b"hooks", b"drafts", b"schedules", b"rotate",
               b"revisions", b"providers"]
# the words that occur as literal segments BELOW an organisation in today's routes (two-word family)
ROUTE_WORDS_2 = [b"yaml", b"open", b"tags", b"versions", b"decrypt", b"check", b"clone", b"retract"]
SUBDELIM = [b"a!b", b"a'b", b"(a)", b"a*b", b"[a]", b"!"]
MALFORMED = [b"", b".", b"..", b"a/b", b"a/../b", b"../x", b"a/", b"/a", b"a//b", b"a%41", b"a%2Fb", b"a%2fb", b"a%zz", b"%",
             b"a%4", b"a?b", b"a?", b"?", b"a?b=c&d", b"a#b", b"#", b"a#", b"a#%zz", b"a b", b" ", b"a\xc3\xa9b", b"a\nb",
             b"\x7f", b"a\"b", b"a\\b", b"a{b}", b"a|b", b"a^b", b"a`b", b"a<b>", b"*"]
VERSIONS = [b"", b"", b"3", b"12", b"latest", b"stable", b"v1.2", b"tags", b"rc-1"]
QVALS = [b"", b"tok", b"a b", b"a&b=c", b"a/b", b"\xc3\xa9", b"x.y[0][\"k\"]", b"%41", b"+", b"..", b"a?b#c"]
SVALS = [b"", b"v", b"name-1", b"a b", b"x/y", b"\xc3\xa9", b"..", b"why \"not\""]
TOKENS = [b"tok", b"pul-0123abcdef", b"t.o-k_en~1", b""]
ETAGS = [b"", b"etag1", b"\"abc\"", b"W/\"x-1\"", b"7"]


def R_reset():
    return {"k": "reset"}


def R_resp(status, body="k", code=None, ndiag=0, etag=b"", rev=None):
    return {"k": "resp", "status": status, "body": body, "code": code, "ndiag": ndiag, "etag": etag.hex(), "rev": rev}


FAULTS = [R_reset(), R_resp(503, "e"), R_resp(503, "j", 503), R_resp(500, "t"), R_resp(502, "e"), R_resp(599, "j", None),
          R_resp(500, "j", 400, 1)]

FINALS_OK = [R_resp(200, "k", etag=b"E1", rev=5), R_resp(200, "k", etag=b"\"e2\"", rev=0), R_resp(200, "k"),
             R_resp(200, "e", rev=17), R_resp(204, "e"), R_resp(201, "k", rev=123456789)]
FINALS_ERR = [R_resp(400, "j", 400, 1), R_resp(400, "j", 400, 3), R_resp(400, "j", 400, 0), R_resp(400, "j", None, 2),
              R_resp(400, "j", 422, 1), R_resp(422, "j", 400, 1), R_resp(422, "j", 422, 1), R_resp(404, "j", 404),
              R_resp(404, "t"), R_resp(404, "e"), R_resp(409, "j", 409), R_resp(401, "e"), R_resp(401, "j", 401),
              R_resp(429, "e"), R_resp(429, "j", 400, 1), R_resp(403, "j", None), R_resp(412, "j", 412),
              R_resp(500, "j", 500), R_resp(503, "e"), R_resp(500, "j", 400, 2), R_reset()]


def mk_args(rng, op, names=None, pool=None):
    roles, kinds = OPS[op]
    pool = pool or PLAIN
    s = []
    for r in roles:
        if r == "N":
            s.append(rng.choice(pool))
        elif r == "V":
            s.append(rng.choice(VERSIONS))
        elif r == "Q":
            s.append(rng.choice(QVALS))
        elif r == "S":
            s.append(rng.choice(SVALS))
        elif r == "T":
            s.append(rng.choice(ETAGS))
    n = []
    for k in kinds:
        if k == "b":
            n.append(rng.below(2))
        elif k == "B":
            n.append(rng.choice([None, 0, 1]))
        elif k == "d":
            n.append(rng.choice([0, 1, 59, 60, 61, 3599, 3600, 3661, 7200, 86400, 90061]))
        elif k == "i":
            n.append(rng.choice([None, 0, 1, 7, 100, 2147483647]))
        elif k == "r":
            n.append(rng.choice([0, 1, 41, 999]))
    return s, n


def call(op, s, n=(), token=b"tok", script=(), final=None):
    return {"op": op, "s": [B(x).hex() for x in s], "n": list(n), "token": B(token).hex(), "script": list(script),
            "final": final or FINALS_OK[0]}


def delay_of(c):
    """seconds the real retry loop will sleep for this call"""
    m, _, _, _, _ = expect(c["op"], [bytes.fromhex(x) for x in c["s"]], c["n"])
    if m != "GET":
        return 0
    k = 0
    for r in c["script"]:
        if r["k"] == "reset" or 500 <= r["status"] <= 599:
            k += 1
        else:
            break
    else:
        f = c["final"]
        if f["k"] == "reset" or 500 <= f["status"] <= 599:
            k = 9
    return [0, 1, 3, 7][min(k, 3)]


def gen_calls(rng, tier):
    thorough = tier == "thorough"
    calls = []
    kmax = 5 if thorough else 1

    # ---- regression corpus ----------------------------------------------------------------------
    e3 = [b"org1", b"proj", b"env"]
    calls.append(call("DeleteEnvironmentTag", e3 + [b".."]))
    calls.append(call("DeleteEnvironmentTag", e3 + [b"a?b#c"]))
    calls.append(call("DeleteEnvironmentRevisionTag", e3 + [b"../.."]))
    calls.append(call("GetEnvironment", e3 + [b"tags"], [1]))
    calls.append(call("GetEnvironmentRevisionTag", e3 + [b"decrypt"]))
    calls.append(call("UpdateEnvironmentWithRevision", e3 + [b"etag1"], [], script=[R_resp(503, "e")], final=R_resp(200, rev=6)))
    calls.append(call("UpdateEnvironmentWithRevision", e3 + [b"etag1"], [], script=[R_reset()], final=R_resp(200, rev=6)))
    calls.append(call("UpdateEnvironmentWithRevision", e3 + [b""], [], final=R_resp(400, "j", 400, 2)))
    calls.append(call("UpdateEnvironmentWithRevision", e3 + [b""], [], final=R_resp(400, "j", None, 2)))
    calls.append(call("UpdateEnvironmentWithRevision", e3 + [b""], [], final=R_resp(422, "j", 400, 2)))
    calls.append(call("GetEnvironment", e3 + [b""], [0], script=[R_resp(503, "e"), R_reset()], final=FINALS_OK[0]))
    if thorough:
        calls.append(call("GetEnvironment", e3 + [b""], [0],
                          script=[R_resp(503, "e"), R_reset()] * 3, final=FINALS_OK[0]))
        calls.append(call("GetEnvironment", e3 + [b""], [0], script=[R_reset()] * 5, final=FINALS_OK[0]))

    # ---- exhaustive small family: every method x tuples x fault prefix x fault kind ----------------
    tuples = [PLAIN, ODD_VALID, ROUTE_WORDS]
    for op in OP_NAMES:
        for pool in tuples:
            for rep in range(2 if thorough else 1):
                s, n = mk_args(rng, op, pool=pool)
                tok = rng.choice(TOKENS[:3])
                calls.append(call(op, s, n, tok, [], rng.choice(FINALS_OK)))
                for k in range(1, kmax + 1):
                    for fault in (FAULTS if thorough else FAULTS[:3]):
                        calls.append(call(op, s, n, tok, [fault] * k, rng.choice(FINALS_OK[:2])))
                if thorough:
                    for k in range(2, kmax + 1):
                        calls.append(call(op, s, n, tok, [rng.choice(FAULTS) for _ in range(k)], rng.choice(FINALS_OK[:2])))

    # ---- every method x every final reply (no faults) ----------------------------------------------
    for op in OP_NAMES:
        for f in FINALS_OK + FINALS_ERR:
            s, n = mk_args(rng, op)
            tok = b"" if (f["k"] == "resp" and f["status"] == 401 and rng.chance(1, 2)) else rng.choice(TOKENS[:3])
            calls.append(call(op, s, n, tok, [], f))

    # ---- every diagnostics-returning method x diagnostics replies (incl. body code / status disagreements) ----
    for op in sorted(DIAG_OPS):
        for f in [R_resp(400, "j", 400, 1), R_resp(400, "j", 400, 4), R_resp(422, "j", 400, 1), R_resp(409, "j", 400, 2),
                  R_resp(400, "j", None, 1), R_resp(400, "j", 409, 1), R_resp(404, "j", 404, 1), R_resp(499, "j", 400, 1),
                  # long diagnostic lists: bodies of ~8 KB, ~90 KB and ~1.3 MB are still diagnostics, not failures
                  R_resp(400, "j", 400, 500), R_resp(400, "j", 400, 5000), R_resp(400, "j", 400, 70000)]:
            for tok in (b"tok", b""):
                s, n = mk_args(rng, op, pool=PLAIN + ODD_VALID)
                calls.append(call(op, s, n, tok, [], f))
        s, n = mk_args(rng, op)
        calls.append(call(op, s, n, b"", [], R_resp(401, "j", 400, 1)))

    # ---- same-method tuples that differ in one position / are permutations (injectivity) ----------
    for op in OP_NAMES:
        roles, _ = OPS[op]
        if "N" not in roles and "V" not in roles:
            continue
        first = len(calls)
        base_s, base_n = mk_args(rng, op)
        variants = [list(base_s)]
        for i, r in enumerate(roles):
            if r in "NV":
                v = list(base_s)
                v[i] = rng.choice(PLAIN + ODD_VALID + ROUTE_WORDS)
                variants.append(v)
            elif r == "S":
                # names carried in the BODY (destination project / environment, tag names and values, reason)
                v = list(base_s)
                v[i] = rng.choice([x for x in SVALS + PLAIN if x != base_s[i]])
                variants.append(v)
        v = list(base_s)
        idx = [i for i, r in enumerate(roles) if r == "N"]
        if len(idx) >= 2:
            v[idx[0]], v[idx[1]] = v[idx[1]], v[idx[0]]
            variants.append(v)
            v2 = list(base_s)
            v2[idx[-1]], v2[idx[-2]] = v2[idx[-2]], v2[idx[-1]]
            variants.append(v2)
        for v in variants:
            calls.append(call(op, v, base_n, b"tok", [], FINALS_OK[0]))
        if base_n and OPS[op][1][0] == "b":
            calls.append(call(op, base_s, [1 - base_n[0]] + base_n[1:], b"tok", [], FINALS_OK[0]))
        # the numbers a request carries (revision of a tag, replacement revision, page sizes): present / absent / other
        if base_n and OPS[op][1][0] in "ir":
            for alt in (None, 7, 8):
                if alt != base_n[0] and not (alt is None and OPS[op][1][0] == "r"):
                    calls.append(call(op, base_s, [alt] + base_n[1:], b"tok", [], FINALS_OK[0]))
        for c in calls[first:]:
            c["g"] = "inj-" + op      # kept in ONE group: the collision oracle works inside a group

    # ---- random structured stream ----------------------------------------------------------------------
    for _ in range(4000 if thorough else 500):
        op = rng.choice(OP_NAMES)
        pool = rng.choice([PLAIN, PLAIN, PLAIN + ODD_VALID, ROUTE_WORDS + PLAIN, PLAIN + SUBDELIM])
        s, n = mk_args(rng, op, pool=pool)
        k = rng.below(kmax + 1) if rng.chance(1, 3) else 0
        script = [rng.choice(FAULTS) for _ in range(k)]
        final = rng.choice(FINALS_OK) if rng.chance(2, 3) else rng.choice(FINALS_ERR)
        calls.append(call(op, s, n, rng.choice(TOKENS), script, final))

    # ---- malformed stream: one name of the call is replaced -------------------------------------------------
    for op in OP_NAMES:
        roles, _ = OPS[op]
        for i, r in enumerate(roles):
            if r not in "NV":
                continue
            toks = MALFORMED + SUBDELIM
            if not thorough:
                toks = [t for t in toks if rng.chance(1, 2)] + [b"..", b"a?b"]
            for t in toks:
                s, n = mk_args(rng, op)
                s[i] = t
                calls.append(call(op, s, n, b"tok", [], FINALS_OK[0]))
    return calls


SEQ_FINALS = None


def seq_final(rng, op):
    """replies for the operations of a sequence: no transport faults and no 5xx (a connection left over by an earlier
    operation of the same client would bring net/http's replay into play; covered by the single-call families)"""
    pool = FINALS_OK + [f for f in FINALS_ERR if f["k"] == "resp" and f["status"] < 500]
    return rng.choice(FINALS_OK) if rng.chance(3, 4) else rng.choice(pool)


UPDATE_OPS = ["UpdateEnvironmentWithRevision", "UpdateEnvironmentWithProject", "UpdateEnvironment"]


def tagged(rng, op, tag, names=None):
    """a conditional (tag != b"") or unconditional update on the environment `names` = (org, project, env)"""
    o, p, e = names or (b"org1", b"proj", b"env")
    s = [o, e, tag] if op == "UpdateEnvironment" else [o, p, e, tag]
    return call(op, s, [], b"tok", [], seq_final(rng, op))


def gen_seqs(rng, tier):
    """SEQUENCES of 2-4 operations on ONE client instance: what a request carries must not depend on the requests the
    same client made before (a tag given to an earlier conditional update must not reappear)."""
    thorough = tier == "thorough"
    seqs = []
    e3 = [b"org1", b"proj", b"env"]
    t1, t2 = b"etag1", b"\"tag-2\""

    def other(op, tok=b"tok"):
        s, n = mk_args(rng, op)
        return call(op, s, n, tok, [], seq_final(rng, op))

    # regression corpus
    seqs.append([tagged(rng, UPDATE_OPS[0], t1), tagged(rng, UPDATE_OPS[0], t2)])
    seqs.append([tagged(rng, UPDATE_OPS[0], t1), tagged(rng, UPDATE_OPS[0], b"")])
    seqs.append([tagged(rng, UPDATE_OPS[1], t1), call("GetEnvironment", e3 + [b""], [0], b"tok", [], FINALS_OK[0])])
    seqs.append([tagged(rng, UPDATE_OPS[2], t1), tagged(rng, UPDATE_OPS[1], t2), call("DeleteEnvironment", e3),
                 call("GetEnvironment", e3 + [b""], [1], b"tok", [], FINALS_OK[0])])
    seqs.append([call("GetEnvironment", e3 + [b""], [0], b"tok", [], FINALS_OK[0]), tagged(rng, UPDATE_OPS[0], b"E1"),
                 call("GetEnvironment", e3 + [b""], [0], b"tok", [], FINALS_OK[1]), tagged(rng, UPDATE_OPS[0], b"\"e2\"")])
    # every conditional update followed by every method of the interface; two different tags then every method
    for a in UPDATE_OPS:
        for b in OP_NAMES:
            seqs.append([tagged(rng, a, rng.choice(ETAGS[1:])), other(b)])
    for b in OP_NAMES:
        a1, a2 = rng.choice(UPDATE_OPS), rng.choice(UPDATE_OPS)
        tags = rng.shuffle(ETAGS[1:])
        seqs.append([tagged(rng, a1, tags[0]), tagged(rng, a2, tags[1]), other(b)])
        seqs.append([tagged(rng, a1, tags[2]), tagged(rng, a2, b""), other(b)])
    # tag combinations on one environment: (t1,t2), (t1,""), ("",t1), (t1,t1)
    for a1 in UPDATE_OPS:
        for a2 in UPDATE_OPS:
            for x, y in [(t1, t2), (t1, b""), (b"", t1), (t1, t1)]:
                seqs.append([tagged(rng, a1, x), tagged(rng, a2, y), tagged(rng, rng.choice(UPDATE_OPS), b"")])
    # the SAME operation twice on one client with argument tuples that are equal or differ in exactly one name / version
    # position: every call issues its own request for its own target (nothing may be answered from a table keyed by part of
    # the tuple)
    for op in OP_NAMES:
        if op == "GetPulumiAccountDetails":
            continue
        roles, _ = OPS[op]
        base_s, base_n = mk_args(rng, op)
        pos = [i for i, r in enumerate(roles) if r in "NV"]
        variants = [list(base_s)]
        for i in pos:
            v = list(base_s)
            v[i] = rng.choice([x for x in PLAIN if x != base_s[i]] or PLAIN)
            variants.append(v)
        for v in variants:
            seqs.append([call(op, list(base_s), list(base_n), b"tok", [], FINALS_OK[0]),
                         call(op, v, list(base_n), b"tok", [], FINALS_OK[0])])
        if len(variants) > 2:
            seqs.append([call(op, variants[1], list(base_n), b"tok", [], FINALS_OK[0]),
                         call(op, variants[2], list(base_n), b"tok", [], FINALS_OK[0]),
                         call(op, list(base_s), list(base_n), b"tok", [], FINALS_OK[0])])
    # random sequences of 2..4 operations (updates over-represented); also on a client without a token
    for _ in range(1200 if thorough else 150):
        tok = rng.choice(TOKENS)
        k = 2 + rng.below(3)
        sq = []
        for _ in range(k):
            if rng.chance(2, 5):
                c = tagged(rng, rng.choice(UPDATE_OPS), rng.choice(ETAGS), (rng.choice(PLAIN), rng.choice(PLAIN), rng.choice(PLAIN)))
                c["token"] = tok.hex()
            else:
                c = other(rng.choice(OP_NAMES), tok)
            sq.append(c)
        seqs.append(sq)
    # the client caches the account after the first GetPulumiAccountDetails (no second request; not modelled): keep
    # at most one such call per sequence; one token per client instance
    out = []
    for sq in seqs:
        seen, keep = False, []
        for c in sq:
            if c["op"] == "GetPulumiAccountDetails":
                if seen:
                    continue
                seen = True
            c["token"] = sq[0]["token"]
            keep.append(c)
        if len(keep) >= 2:
            out.append({"seq": keep})
    return out


def gen_route_words(rng, tier):
    """Exhaustive family for addressing ACROSS operations: every route word in every name / version position of every
    operation (all other positions hold fixed plain names, so that requests of different operations can coincide), both
    values of a boolean flag; two words in every pair of positions (quick: the project/environment pair only).  No
    faults.  The calls are bucketed by (expected method, number of segments of the expected target) - two requests can
    only coincide inside a bucket unless one of them misses its expected target, which the target clause reports - and
    every bucket runs as sequences on one client so that the collision oracle sees all its calls together."""
    thorough = tier == "thorough"
    base = [b"org1", b"proj", b"env", b"x1", b"x2", b"x3", b"x4"]
    calls = []

    def variants(op, s, n):
        kinds = OPS[op][1]
        if kinds[:1] in ("b", "B"):
            for b in (0, 1):
                yield call(op, s, [b] + list(n[1:]), b"tok", [], FINALS_OK[0])
        else:
            yield call(op, s, n, b"tok", [], FINALS_OK[0])

    for op in OP_NAMES:
        roles, kinds = OPS[op]
        pos = [i for i, r in enumerate(roles) if r in "NV"]
        if not pos:
            continue
        s0 = []
        for i, r in enumerate(roles):
            s0.append(base[i] if r in "NV" else (b"q" if r == "Q" else b"sv" if r == "S" else b""))
        n0 = [None if k in "iB" else 0 for k in kinds]
        if "V" in roles:
            for c in variants(op, [b"" if r == "V" else x for x, r in zip(s0, roles)], n0):
                calls.append(c)
        for c in variants(op, s0, n0):
            calls.append(c)
        for i in pos:
            for w in ROUTE_WORDS:
                v = list(s0)
                v[i] = w
                calls.extend(variants(op, v, n0))
                if "V" in roles and roles[i] != "V":
                    v2 = [b"" if r == "V" else x for x, r in zip(v, roles)]
                    calls.extend(variants(op, v2, n0))
        pairs = [(i, j) for i in pos for j in pos if i < j]
        if not thorough:
            pairs = [(i, j) for i, j in pairs if (i, j) == (1, 2)]
        for i, j in pairs:
            for w1 in ROUTE_WORDS_2:
                for w2 in ROUTE_WORDS_2:
                    v = list(s0)
                    v[i], v[j] = w1, w2
                    calls.extend(variants(op, v, n0))
                    if "V" in roles and roles[i] != "V" and roles[j] != "V":
                        v2 = [b"" if r == "V" else x for x, r in zip(v, roles)]
                        calls.extend(variants(op, v2, n0))
    buckets = {}
    for c in calls:
        m, target, _, _, _ = expect(c["op"], [bytes.fromhex(x) for x in c["s"]], c["n"])
        if m == "-":
            continue
        key = (m, target.split(b"?")[0].count(b"/"))
        buckets.setdefault(key, []).append(c)
    items = []
    for key in sorted(buckets):
        b = buckets[key]
        # one sequence per bucket, never cut: calls that can coincide stay together
        items.append({"seq": b, "family": "route-words"})
    return items


def gen(rng, tier):
    calls = gen_calls(rng, tier)
    together = {}
    for c in calls:
        if "g" in c:
            together.setdefault(c.pop("g"), []).append(c)
    kept = set(id(c) for cs in together.values() for c in cs)
    calls = [c for c in calls if id(c) not in kept]
    slow = [c for c in calls if delay_of(c) > 0]
    fast = [c for c in calls if delay_of(c) == 0]
    slow.sort(key=lambda c: (delay_of(c), c["op"]))
    seqs = gen_seqs(rng.fork("seq"), tier)
    groups = []
    # the route-word family: one group per bucket (the collision oracle works inside a group)
    for it in gen_route_words(rng.fork("route-words"), tier):
        groups.append({"calls": [it]})
    # sequences first: they are cheap and a stale-header defect shows only there
    for i in range(0, len(seqs), 8):
        groups.append({"calls": seqs[i:i + 8]})
    for k in sorted(together):
        groups.append({"calls": together[k]})
    for i in range(0, len(fast), 12):
        groups.append({"calls": fast[i:i + 12]})
    for i in range(0, len(slow), 48):
        groups.append({"calls": slow[i:i + 48]})
    return groups


def flat(c, o):
    """(call, observation) pairs of a group, sequences flattened in order"""
    obs = o.get("calls") if isinstance(o, dict) else None
    if not obs or len(obs) != len(c["calls"]):
        obs = [None] * len(c["calls"])
    for it, oo in zip(c["calls"], obs):
        if "seq" in it:
            so = oo.get("seq") if isinstance(oo, dict) else None
            if not so or len(so) != len(it["seq"]):
                so = [None] * len(it["seq"])
            for cc, x in zip(it["seq"], so):
                yield cc, x
        else:
            yield it, oo


# ---- wire line -------------------------------------------------------------------------------------------
def X(h):
    return "x" + h


def reply_sx(r):
    if r["k"] == "reset":
        return "r"
    b = r["body"]
    if b == "j":
        b = "(j %s %d)" % ("nil" if r.get("code") is None else r["code"], r.get("ndiag", 0))
    return "(p %d %s %s %s)" % (r["status"], b, X(r.get("etag", "")), "nil" if r.get("rev") is None else r["rev"])


def result_sx(r):
    k = r.get("k")
    if k == "ok":
        return "(ok%s)" % "".join(" " + X(v) for v in r.get("v", []))
    if k == "diags":
        return "(diags %d)" % r["n"]
    if k == "err":
        code = r.get("code", 0)
        return "(err %s %d)" % (r.get("c", "other"), code if code >= 0 else 0)
    return "panic"


def obs_sx(o):
    if o is None or "panic" in o or "reqs" not in o:
        return "panic"
    reqs = []
    for q in o["reqs"]:
        bf = "(" + " ".join("(%s %s)" % (C.sx(k), X(v)) for k, v in q["bf"]) + ")"
        reqs.append("(%s %s %s %s %s %s)" % (q["m"], X(q["t"]), X(q["auth"]), X(q["etag"]), X(q["ifm"]), bf))
    return "(obs (%s) %d %s)" % (" ".join(reqs), o["att"], result_sx(o["res"]))


def call_sx(c, o):
    s = [bytes.fromhex(x) for x in c["s"]]
    m, target, pn, tag, extra = expect(c["op"], s, c["n"])
    ident = json.dumps([c["op"], [x.hex() for x in pn], [x.hex() for x in extra]])
    rid = json.dumps([x if isinstance(x, str) else x.hex() for x in resource(c["op"], s, c["n"])])
    return "(call %s (%s) (%s) %s (%s) %s (%s) %s %s %s %s %s %s %s)" % (
        c["op"], " ".join(X(x) for x in c["s"]), " ".join("nil" if v is None else str(v) for v in c["n"]),
        X(c["token"]), " ".join(reply_sx(r) for r in c["script"]), reply_sx(c["final"]),
        " ".join(C.sx(x) for x in pn), m, C.sx(target), C.sx(ident), C.sx(rid), C.sx(tag),
        "t" if c["op"] in DIAG_OPS else "f", obs_sx(o))


def item_sx(it, oo):
    if "seq" in it:
        so = oo.get("seq") if isinstance(oo, dict) else None
        if not so or len(so) != len(it["seq"]):
            so = [None] * len(it["seq"])
        return "(seq %s)" % " ".join(call_sx(cc, x) for cc, x in zip(it["seq"], so))
    return call_sx(it, oo)


def line(c, o):
    obs = o.get("calls") if isinstance(o, dict) else None
    if not obs or len(obs) != len(c["calls"]):
        obs = [None] * len(c["calls"])
    return "(grp %s)" % " ".join(item_sx(it, oo) for it, oo in zip(c["calls"], obs))


def shrink(c):
    cs = c["calls"]
    if len(cs) > 1:
        for x in cs:
            yield {"calls": [x]}
        plain = [x for x in cs if "seq" not in x]
        if len(plain) > 2:
            for i in range(len(plain)):
                for j in range(i + 1, len(plain)):
                    if plain[i]["op"] == plain[j]["op"]:
                        yield {"calls": [plain[i], plain[j]]}
    elif len(cs) == 1 and "seq" in cs[0]:
        sq = cs[0]["seq"]
        if len(sq) > 2:
            for i in range(len(sq)):
                yield {"calls": [{"seq": sq[:i] + sq[i + 1:]}]}
        # simpler replies
        for i, x in enumerate(sq):
            if x["final"] != FINALS_OK[0]:
                yield {"calls": [{"seq": sq[:i] + [dict(x, final=FINALS_OK[0])] + sq[i + 1:]}]}


def describe(c):
    out = []
    def one(x):
        return {"op": x["op"], "s": [bytes.fromhex(h).decode("latin-1") for h in x["s"]], "n": x["n"],
                "faults": len(x["script"])}
    for it in c["calls"][:3]:
        out.append({"seq": [one(x) for x in it["seq"]]} if "seq" in it else one(it))
    return {"items": len(c["calls"]), "first": out}


def distribution(cases, r):
    d = {"groups": len(cases), "calls": 0}
    seen = {}
    collisions = {}
    in_class = 0
    outside = 0
    diag_known = 0
    for c, o in zip(cases, r["obs"]):
        obs = o.get("calls") if isinstance(o, dict) else None
        if not obs:
            d["crashed_groups"] = d.get("crashed_groups", 0) + 1
            continue
        for it in c["calls"]:
            if "seq" in it:
                d["sequences"] = d.get("sequences", 0) + 1
                d["sequence_calls"] = d.get("sequence_calls", 0) + len(it["seq"])
                if it.get("family") == "route-words":
                    d["route_word_family_calls"] = d.get("route_word_family_calls", 0) + len(it["seq"])
        for cc, oo in flat(c, o):
            d["calls"] += 1
            if not oo or "reqs" not in oo:
                d["panic"] = d.get("panic", 0) + 1
                continue
            res = oo["res"]
            k = "result:" + res.get("k", "?") + (":" + res.get("c", "") if res.get("k") == "err" else "")
            d[k] = d.get(k, 0) + 1
            kk = "requests:%d" % len(oo["reqs"])
            d[kk] = d.get(kk, 0) + 1
            sb = [bytes.fromhex(x) for x in cc["s"]]
            m, target, pn, _, _ = expect(cc["op"], sb, cc["n"])
            if len(oo["reqs"]) > oo["att"]:
                d["transport_replays"] = d.get("transport_replays", 0) + 1
            # escape hatches of the diagnostics rule, counted: replies the rule does not apply to (429, 401 without
            # a token), and failures excused by the class of C20-diag-code (body code absent or not 400)
            f0 = (cc["script"] or [cc["final"]])[0]
            if (cc["op"] in DIAG_OPS and len(oo["reqs"]) == 1 and f0.get("k") == "resp" and f0.get("body") == "j"
                    and 400 <= f0["status"] <= 499 and f0.get("ndiag", 0) > 0):
                if f0["status"] == 429 or (f0["status"] == 401 and cc["token"] == ""):
                    outside += 1
                elif res.get("k") != "diags" and f0.get("code") != 400:
                    diag_known += 1
            if oo["reqs"] and all(valid_name(x) for x in pn):
                rq = oo["reqs"][0]
                key = (rq["m"], rq["t"], json.dumps(rq["bf"]))
                rid = json.dumps([x if isinstance(x, str) else x.hex() for x in resource(cc["op"], sb, cc["n"])])
                prev = seen.setdefault(key, (rid, cc["op"], pn))
                # cross-operation collisions: the same request for two different resources (the oracle in Corr/C20.v
                # decides inside a group; this is the global count)
                if prev[0] != rid:
                    collisions.setdefault("%s %s" % (key[0], bytes.fromhex(key[1]).decode("latin-1")), sorted({prev[1], cc["op"]}))
                    if any(x in ROUTE_WORDS for x in pn) or any(x in ROUTE_WORDS for x in prev[2]):
                        in_class += 1
    d["diag_outside_429_or_401_without_token"] = outside
    d["diag_failures_in_known_class_C20-diag-code"] = diag_known
    d["cross_operation_collisions_observed"] = len(collisions)
    d["cross_operation_collisions_with_a_route_word_name"] = in_class
    d["cross_operation_collision_samples"] = dict(list(sorted(collisions.items()))[:8])
    return d


def model_show(c, o):
    """what the Coq model predicts for each call of a replayed group (evaluated inside Coq)"""
    import re
    out = []
    for i, (cc, oo) in enumerate(flat(c, o or {})):
        l = "(grp %s)" % call_sx(cc, oo)
        text = ("From Verif Require Import Base.Bytes Base.Wire Model.Client Corr.C20.\nOpen Scope string_scope.\n"
                "Definition L := \"%s\".\n"
                "Definition R := Eval vm_compute in match parse_sexp L with Some x => match decode x with Some [c] => "
                "match model_obs c with Some o => Some (map (fun q => (rq_method q, to_hex (rq_target q), "
                "to_hex (rq_auth q), to_hex (rq_etag q), to_hex (rq_ifmatch q), rq_body q)) (co_requests o), "
                "co_attempts o, co_result o) | None => None end | _ => None end | None => None end.\nPrint R.\n" % l)
        rc, txt = C.coqc_text("show_C20_%d" % i, text)
        m = re.search(r"R\s*=\s*(.*?)\n\s*:\s", txt, re.S)
        body = m.group(1) if m else txt[-600:]
        body = re.sub(r'"([0-9a-f]{2,})"', lambda mm: repr(bytes.fromhex(mm.group(1)).decode("latin-1"))
                      if len(mm.group(1)) % 2 == 0 else mm.group(0), body)
        out.append("%s: %s" % (cc["op"], " ".join(body.split())))
    return " | ".join(out)


def search(rng, info):
    """Targeted search when an obligation or the correspondence is broken: every method under one and two
    faults of each kind, the diagnostics replies, tagged updates."""
    calls = []
    for op in OP_NAMES:
        s, n = mk_args(rng, op)
        for fault in FAULTS[:3]:
            calls.append(call(op, s, n, b"tok", [fault], FINALS_OK[0]))
        calls.append(call(op, s, n, b"tok", [FAULTS[1], FAULTS[0]], FINALS_OK[0]))
        calls.append(call(op, s, n, b"tok", [], FINALS_ERR[0]))
    groups = []
    calls.sort(key=lambda c: (delay_of(c), c["op"]))
    for i in range(0, len(calls), 48):
        groups.append({"calls": calls[i:i + 48]})
    return groups
