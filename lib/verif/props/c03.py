"""C03 — secret plaintext never reaches redacted output (non-interference)."""
import json
from .. import common as C
from .. import evalgen as G

ID = "C03"
impl_prop = "EV"
SRC_FACTS = []
COQ_SAMPLE = 30
RULE = ("worlds in which secrets (plaintext fn::secret, ciphertext secrets, provider outputs flagged secret at the top level "
        "only / nested only / mixed) flow through references, property and index access, interpolation, fn::join, toJSON, "
        "fromJSON, toBase64, fromBase64, toString, provider inputs echoed back and merging; an environmentVariables "
        "object is always present.  Each world is evaluated twice, the second time with every secret payload replaced by a "
        "different text of a different length; the redacted JSON, string and environment-variable renderings of the two "
        "results are compared byte for byte.  Family `shape` (exhaustive over 9 payload shapes x 9 x 5 programs, plus random "
        "ones): the second run's secret payloads differ in SHAPE - other keys, other array lengths, scalar versus array versus "
        "object, other scalar kinds - for provider outputs flagged secret (at the top or at a nested node) and for static "
        "secret JSON documents decoded by fn::fromJSON; a public object is merged over the secret (shallow and deep), or it is "
        "only referenced, converted, wrapped, or exported as an environment variable.  non-trivial = both evaluations "
        "finished without diagnostics")
ASSUMPTIONS = ["secret payloads are unique tokens that occur nowhere else in the program, so textual substitution changes "
               "secrets only", "providers are functions of their inputs (the stub providers are)",
               "shape family: the EV handler substitutes secrets textually and inside string leaves only, so a provider payload of "
               "another SHAPE is obtained by renaming the provider in the program text of the second run (shpA<i> -> shpB<i>, two "
               "constant providers with equal schemas); for the model the second run is the same program over a provider table in "
               "which shpA<i> returns shpB<i>'s payload - exactly the pair of worlds of theorem C03_noninterference_partial",
               "only the plain k=v rendering of environment variables is modelled in Coq; dotenv and shell renderings are compared "
               "on the implementation (cli.PrepareEnvironment with Redact)"]
TRUSTED = []

PLAIN = ["hunter2", "p4ssw0rd", "s e c r e t"]
CTS = ["ct-one", "ct-two"]


def gen_world(rng):
    r = rng
    provs = {}
    sites = []
    vals = []
    names_secret = []      # keys holding (possibly composite) secrets
    names_plain = []
    nsec = 1 + r.below(3)
    for i in range(nsec):
        k = "s%d" % i
        j = r.below(4)
        if j == 0:
            vals.append((k, ("secret", r.choice(PLAIN))))
        elif j == 1:
            vals.append((k, ("cipher", G.envelope_repr(r.choice(CTS).encode()))))
        else:
            pn = "prov%d" % len(provs)
            mode = r.below(3)
            const = G.gen_const_output(r, depth=2, secret_mode=mode)
            provs[pn] = {"in": "always", "out": "always" if r.chance(1, 2) else G.out_schema_of(const), "beh": "const", "const": const}
            vals.append((k, ("open", pn, ("obj", [("region", ("str", "us"))]))))
        names_secret.append(k)
    for i in range(1 + r.below(2)):
        k = "p%d" % i
        vals.append((k, r.choice([("str", "public"), ("num", "7"), ("obj", [("x", ("str", "pub"))])])))
        names_plain.append(k)

    def paths_into(k):
        """reference paths into a secret key, using the provider constant's shape when there is one"""
        e = dict(vals)[k]
        out = [[("name", k)]]
        if e[0] == "open":
            const = provs[e[1]]["const"]

            def walk(v, p, depth):
                x = v["v"]
                if isinstance(x, dict) and "o" in x:
                    for kk, vv in x["o"].items():
                        out.append(p + [("name", kk)])
                        walk(vv, p + [("name", kk)], depth + 1)
                elif isinstance(x, list):
                    for i, vv in enumerate(x):
                        out.append(p + [("idx", i)])
                        walk(vv, p + [("idx", i)], depth + 1)
            walk(const, [("name", k)], 0)
        return out

    n = 3 + r.below(5)
    derived = []
    for i in range(n):
        k = "d%d" % i
        src = r.choice(names_secret + [d for d, _ in derived] if derived and r.chance(1, 3) else names_secret)
        p = r.choice(paths_into(src)) if src in names_secret else [("name", src)]
        j = r.below(11)
        if j == 0:
            e = ("sym", p)
        elif j == 1:
            e = G.norm_interp([("v=", p), (";", None)])
        elif j == 2:
            e = ("join", ("str", "-"), ("arr", [("str", "a"), ("tostring", ("sym", p))]))
        elif j == 3:
            e = ("tojson", ("sym", p))
        elif j == 4:
            e = ("fromjson", ("tojson", ("sym", p)))
        elif j == 5:
            e = ("tob64", ("tostring", ("sym", p)))
        elif j == 6:
            e = ("fromb64", ("tob64", ("tostring", ("sym", p))))
        elif j == 7:
            e = ("tostring", ("sym", p))
        elif j == 8:
            pn = "echo%d" % len(provs)
            provs[pn] = {"in": "always", "out": "always", "beh": "echo"}
            e = ("open", pn, ("obj", [("x", ("sym", p)), ("y", ("str", "pub"))]))
        elif j == 9:
            e = ("obj", [("inner", ("sym", p)), ("pub", ("str", "visible"))])
        else:
            e = ("arr", [("sym", p), ("str", "visible")])
        derived.append((k, e))
    envvars = [("V%d" % i, ("sym", [("name", r.choice(names_secret + names_plain + [d for d, _ in derived]))]))
               for i in range(1 + r.below(3))]
    if r.chance(1, 2):
        # several variables carrying the same value (each occurrence must be redacted)
        envvars.append(("W0", r.choice(envvars)[1]))
        if r.chance(1, 2):
            envvars.append(("A0", r.choice(envvars)[1]))
    vals = vals + derived + [("environmentVariables", ("obj", envvars))]
    envs = {}
    imports = []
    if r.chance(1, 3):
        # a base environment that defines an object under one of the secret keys: merging another object over a secret
        k = r.choice(names_secret)
        envs["base"] = {"imports": [], "values": [(k, ("obj", [("frombase", ("str", "pub"))]))]}
        imports = [("base", True)]
    if r.chance(1, 4):
        k = r.choice(names_secret)
        vals.append(("over", ("sym", [("name", k)])))
        envs["base2"] = {"imports": [], "values": [("over", ("obj", [("basekey", ("str", "pub"))]))]}
        imports.append(("base2", True))
    envs["root"] = {"imports": imports, "values": vals}
    c = G.case_from_graph(envs, "root")
    c["provs"] = provs
    subs = {p: p.upper() + "-alt-" + str(len(p)) for p in PLAIN}
    for ct in CTS:
        subs[ct] = "other plaintext for " + ct
    for i in range(100):
        subs["s3cr3t-%d" % i] = "S3CR3T*%d*longer" % (i + 1)
    c["secrets2"] = subs
    c["composite"] = any(v.get("beh") == "const" and v["const"]["s"] for v in provs.values())
    return c


def subs_map():
    subs = {p: p.upper() + "-alt-" + str(len(p)) for p in PLAIN}
    for ct in CTS:
        subs[ct] = "other plaintext for " + ct
    for i in range(100):
        subs["s3cr3t-%d" % i] = "S3CR3T*%d*longer" % (i + 1)
    subs["471100"] = "918273645"
    return subs


def gen_inherited(rng):
    """secrets that an object only INHERITS from an imported base, and secret numbers/objects decoded from a secret JSON
    text, flowing into aggregate built-ins and into environmentVariables"""
    r = rng
    base_vals = [("creds", ("obj", [("pw", ("secret", r.choice(PLAIN))), ("n", ("num", "1"))])),
                 ("doc", ("fromjson", ("secret", '{"pin": 471100, "name": "x"}')))]
    vals = [("creds", ("obj", [("user", ("str", "bob"))]))]       # a plain sibling merged over the base's object
    sinks = []
    for i in range(2 + r.below(4)):
        src = r.choice([[("name", "creds")], [("name", "creds"), ("name", "pw")], [("name", "doc")], [("name", "doc"), ("name", "pin")]])
        j = r.below(7)
        if j == 0:
            e = ("tojson", ("sym", src))
        elif j == 1:
            e = ("join", ("str", "-"), ("arr", [("str", "a"), ("tojson", ("sym", src))]))
        elif j == 2:
            e = G.norm_interp([("v=", src), ("", None)])
        elif j == 3:
            e = ("tostring", ("sym", src))
        elif j == 4:
            e = ("tob64", ("tojson", ("sym", src)))
        elif j == 5:
            e = ("obj", [("wrapped", ("sym", src))])
        else:
            e = ("sym", src)
        sinks.append(("k%d" % i, e))
    envvars = [("PIN", ("sym", [("name", "doc"), ("name", "pin")])), ("PW", ("sym", [("name", "creds"), ("name", "pw")])),
               ("USER", ("sym", [("name", "creds"), ("name", "user")]))]
    if sinks:
        envvars.append(("S0", ("sym", [("name", sinks[0][0])])))
    vals = vals + sinks + [("environmentVariables", ("obj", envvars)),
                           ("files", ("obj", [("F", ("sym", [("name", "doc"), ("name", "pin")]))]))]
    envs = {"base": {"imports": [], "values": base_vals}, "root": {"imports": [("base", True)], "values": vals}}
    layers = r.below(4)
    if layers == 1:
        # THREE layers: the secret sits only in the bottom one, a plain middle layer (a sibling import) lies between it and
        # the root's own object (seeded change C03-k: containsSecrets looked at the object and its direct base only)
        envs["mid"] = {"imports": [], "values": [("creds", ("obj", [("host", ("str", "h"))])), ("doc", ("obj", [("extra", ("num", "2"))]))]}
        envs["root"]["imports"] = [("base", True), ("mid", True)]
    elif layers == 2:
        # the same as a chain root -> mid -> base, and a fourth plain layer
        envs["mid"] = {"imports": [("base", True)], "values": [("creds", ("obj", [("host", ("str", "h"))]))]}
        envs["mid2"] = {"imports": [("mid", True)], "values": [("creds", ("obj", [("port", ("num", "5"))]))]}
        envs["root"]["imports"] = [("mid2", True)]
    c = G.case_from_graph(envs, "root")
    c["provs"] = {}
    c["secrets2"] = subs_map()
    c["composite"] = False
    return c


# ---- the shape family ------------------------------------------------------------------------------------------------
def _pub(v):
    return {"s": False, "u": False, "v": v}


def _sec(v):
    return {"s": True, "u": False, "v": v}


def _obj(sec, kvs):
    return {"s": sec, "u": False, "v": {"o": dict(kvs)}}


# payloads flagged secret at the top; the strings are not substitution keys
SHAPES = [
    ("str", _sec("v")),
    ("num", _sec({"n": "7"})),
    ("null", _sec(None)),
    ("obj_j", _obj(True, [("j", _pub("v"))])),
    ("obj_k", _obj(True, [("k", _pub("v"))])),
    ("obj_jk", _obj(True, [("j", _pub("v")), ("k", _pub("w"))])),
    ("obj_in_j", _obj(True, [("in", _obj(False, [("j", _pub("v"))]))])),
    ("arr1", _sec([_pub("a")])),
    ("arr2", _sec([_pub("a"), _pub("b")])),
]
# static secret JSON documents (fn::fromJSON of a static secret); the differing token is the substitution key
# (no quote or backslash in a key or a replacement: the substitution acts alike on the text and on its YAML spelling)
DOCS = [('{"j471101": 1}', {"j471101": "k471101"}),            # another key
        ('[471102, 2]', {"471102, 2": "471102, 2, 3"}),        # another array length
        ('[471103]', {"[471103]": "471103"}),                  # array versus scalar
        ('471104', {"471104": "true"}),                        # another scalar kind
        ('{"a": [471106]}', {"471106": "471106, 1"})]          # nested array length


def nest_secret(payload):
    """the same payload one level down: a public object with the secret node as a member"""
    return _obj(False, [("pubkey", _pub("visible")), ("inner", payload)])


def shape_case(payloads, actions, doc=None, check=False):
    """payloads: [(P1, P2)] per shape provider; actions: per provider, what the root does with `cfg<i>`"""
    provs, base_vals, root_vals, subs = {}, [], [], {}
    for i, (p1, p2) in enumerate(payloads):
        a, b = "shpA%d" % i, "shpB%d" % i
        provs[a] = {"in": "always", "out": "always", "beh": "const", "const": p1}
        provs[b] = {"in": "always", "out": "always", "beh": "const", "const": p2}
        subs[a] = b
        k = "cfg%d" % i
        base_vals.append((k, ("open", a, ("obj", [("region", ("str", "us"))]))))
        act = actions[i]
        ref = [("name", k)]
        if act == "merge":
            root_vals.append((k, ("obj", [("extra", ("str", "x"))])))
        elif act == "deep":
            root_vals.append((k, ("obj", [("in", ("obj", [("extra", ("str", "x"))])), ("inner", ("obj", [("extra2", ("num", "1"))]))])))
        elif act == "ref":
            root_vals.append(("r%d" % i, ("sym", ref)))
            root_vals.append(("w%d" % i, ("obj", [("wrapped", ("sym", ref))])))
            root_vals.append(("a%d" % i, ("arr", [("sym", ref), ("str", "visible")])))
        elif act == "conv":
            root_vals.append(("j%d" % i, ("tojson", ("sym", ref))))
            root_vals.append(("t%d" % i, ("tostring", ("sym", ref))))
            root_vals.append(("i%d" % i, ("sym", [("name", "imports"), ("name", "base"), ("name", k)])))
        elif act == "envvar":
            root_vals.append(("environmentVariables", ("obj", [("V%d" % i, ("sym", ref)), ("PUB", ("str", "p"))])))
            root_vals.append(("files", ("obj", [("F%d" % i, ("sym", ref))])))
    d2 = None
    if doc is not None:
        text, dsub = doc
        base_vals.append(("doc", ("fromjson", ("secret", text))))
        root_vals.append(("doc", ("obj", [("extra", ("str", "x"))])))
        subs.update(dsub)
    envs = {"base": {"imports": [], "values": base_vals}, "root": {"imports": [("base", True)], "values": root_vals}}
    c = G.case_from_graph(envs, "root")
    c["provs"] = provs
    c["secrets2"] = subs
    c["composite"] = True
    c["check"] = check
    c["family"] = "shape"
    c["run2"] = make_run2(c)
    return c


def subst_expr(e, subs):
    """the EV handler's textual substitution, on the AST: only static secret texts contain substitution keys here"""
    k = e[0]
    if k == "secret":
        t = e[1]
        for a, b in subs.items():
            t = t.replace(a, b)
        return ("secret", t)
    if k in ("arr",):
        return (k, [subst_expr(x, subs) for x in e[1]])
    if k == "obj":
        return (k, [(kk, subst_expr(v, subs)) for kk, v in e[1]])
    if k == "join":
        return (k, subst_expr(e[1], subs), subst_expr(e[2], subs))
    if k in ("tojson", "fromjson", "tostring", "tob64", "fromb64"):
        return (k, subst_expr(e[1], subs))
    if k == "open":
        return (k, e[1], subst_expr(e[2], subs))
    return e


def make_run2(c):
    """the second run as the MODEL sees it: same program (provider names unchanged), static secret texts substituted, and a
    provider table in which shpA<i> returns the payload of shpB<i>"""
    subs = c["secrets2"]
    sd = lambda d: {"imports": d["imports"], "values": [(k, subst_expr(e, subs)) for k, e in d["values"]]}
    provs = {n: dict(p) for n, p in c["provs"].items()}
    for a, b in subs.items():
        if a in provs and b in provs:
            provs[a] = dict(provs[a], const=provs[b]["const"])
    return {"def": sd(c["def"]),
            "envs": {n: ({"kind": "def", "def": sd(e["def"])} if e["kind"] == "def" else e) for n, e in c["envs"].items()},
            "provs": provs}


def shape_family(rng, tier):
    cases = []
    acts = ["merge", "deep", "ref", "conv", "envvar"]
    # exhaustive: every ordered pair of payload shapes (the diagonal: same shape, a control) x every action
    for n1, p1 in SHAPES:
        for n2, p2 in SHAPES:
            for act in acts:
                cases.append(shape_case([(p1, p2)], [act]))
    # the secret node one level down (a provider output flagged secret at a nested node only)
    for n1, p1 in SHAPES:
        for n2, p2 in SHAPES[::2]:
            cases.append(shape_case([(nest_secret(p1), nest_secret(p2))], ["deep"]))
            cases.append(shape_case([(nest_secret(p1), nest_secret(p2))], ["merge"]))
    # static secret documents through fn::fromJSON
    for doc in DOCS:
        for act in ("merge", "ref"):
            cases.append(shape_case([(SHAPES[3][1], SHAPES[3][1])], [act], doc=doc))
    n = 600 if tier == "thorough" else 60
    for i in range(n):
        r = rng.fork("s%d" % i)
        k = 1 + r.below(2)
        pl = []
        for _ in range(k):
            p1, p2 = r.choice(SHAPES)[1], r.choice(SHAPES)[1]
            if r.chance(1, 3):
                p1, p2 = nest_secret(p1), nest_secret(p2)
            pl.append((p1, p2))
        cases.append(shape_case(pl, [r.choice(acts) for _ in range(k)], doc=r.choice(DOCS) if r.chance(1, 4) else None,
                                check=False))
    return cases


def gen(rng, tier):
    n = 5000 if tier == "thorough" else 400
    cases = shape_family(rng.fork("shape"), tier)
    cases += [gen_world(rng.fork("w%d" % i)) for i in range(n)]
    cases += [gen_inherited(rng.fork("i%d" % i)) for i in range(n // 5)]
    return cases


def prepare(c):
    return G.request(c, secrets2=c["secrets2"])


def line(c, o):
    f = lambda b: "t" if b else "f"
    r2 = "none"
    if c.get("run2") and o.get("ni_compared") and o.get("value2") is not None:
        c2 = dict(c, envs=c["run2"]["envs"], provs=c["run2"]["provs"])
        r2 = "(%s %s %s)" % (G.w_envdef(c["run2"]["def"]), G.w_world(c2), G.w_xval_obs(o["value2"]))
    return "(c03 %s %s %s %s %s)" % (G.w_case(c, o), f(o.get("ni_compared")), f(o.get("ni_equal", True)), f(c["composite"]), r2)


def describe(c):
    return {"root": G.render_env(c["def"]), "imports": {n: G.render_env(e["def"]) for n, e in c["envs"].items()},
            "providers": {k: v.get("const") for k, v in c["provs"].items()}}


def shrink(c):
    d = c["def"]

    def with_def(nd):
        c2 = dict(c, **{"def": nd})
        if c.get("run2"):
            c2["run2"] = make_run2(c2)
        return c2
    for i in range(len(d["values"])):
        yield with_def({"imports": d["imports"], "values": d["values"][:i] + d["values"][i + 1:]})
    for i in range(len(d["imports"])):
        yield with_def({"imports": d["imports"][:i] + d["imports"][i + 1:], "values": d["values"]})


def distribution(cases, r):
    d = {"compared": 0, "unequal": 0, "with_errors": 0, "composite_secret_outputs": 0,
         "shape_family": 0, "shape_family_compared": 0, "shape_family_unequal": 0,
         "excused_by_known_classes(C03-fromjson-null|C03-secret-shape)": len(r["spec_fail_known"]),
         "second_run_modelled": 0}
    for c, o in zip(cases, r["obs"]):
        if c.get("family") == "shape":
            d["shape_family"] += 1
            d["shape_family_compared"] += 1 if o.get("ni_compared") else 0
            d["shape_family_unequal"] += 1 if (o.get("ni_compared") and not o.get("ni_equal")) else 0
            d["second_run_modelled"] += 1 if (o.get("ni_compared") and o.get("value2") is not None) else 0
        d["compared"] += 1 if o.get("ni_compared") else 0
        d["unequal"] += 1 if (o.get("ni_compared") and not o.get("ni_equal")) else 0
        d["with_errors"] += 1 if o.get("errors") else 0
        d["composite_secret_outputs"] += 1 if c["composite"] else 0
    return d
