"""C03 — secret plaintext never reaches redacted output (non-interference)."""
from .. import common as C
from .. import evalgen as G

ID = "C03"
impl_prop = "EV"
SRC_FACTS = []
COQ_SAMPLE = 30
RULE = ("worlds in which secrets (plaintext fn::secret, ciphertext secrets, provider outputs flagged secret at the top level "
        "only / nested only / mixed) flow through references, property and index access, interpolation, fn::join, toJSON, "
        "fromJSON, toBase64, fromBase64, toString, provider inputs echoed back and merging; an environmentVariables "
        "object is always present.  Each world is evaluated twice, the second time with every secret payload replaced by a "
        "different text of a different length; the redacted JSON, string and environment-variable renderings of the two "
        "results are compared byte for byte.  non-trivial = both evaluations finished without diagnostics")
ASSUMPTIONS = ["secret payloads are unique tokens that occur nowhere else in the program, so textual substitution changes "
               "secrets only", "providers are functions of their inputs (the stub providers are)"]
TRUSTED = []

PLAIN = ["hunter2", "p4ssw0rd", "s e c r e t"]
CTS = ["ct-one", "ct-two"]


def gen_world(rng):
    r = rng
    provs = {}
    sites = []
    vals = []
    names_secret = []      # keys holding (possibly composite) secrets
    names_plain = []
    nsec = 1 + r.below(3)
    for i in range(nsec):
        k = "s%d" % i
        j = r.below(4)
        if j == 0:
            vals.append((k, ("secret", r.choice(PLAIN))))
        elif j == 1:
            vals.append((k, ("cipher", G.envelope_repr(r.choice(CTS).encode()))))
        else:
            pn = "prov%d" % len(provs)
            mode = r.below(3)
            const = G.gen_const_output(r, depth=2, secret_mode=mode)
            provs[pn] = {"in": "always", "out": "always" if r.chance(1, 2) else G.out_schema_of(const), "beh": "const", "const": const}
            vals.append((k, ("open", pn, ("obj", [("region", ("str", "us"))]))))
        names_secret.append(k)
    for i in range(1 + r.below(2)):
        k = "p%d" % i
        vals.append((k, r.choice([("str", "public"), ("num", "7"), ("obj", [("x", ("str", "pub"))])])))
        names_plain.append(k)

    def paths_into(k):
        """reference paths into a secret key, using the provider constant's shape when there is one"""
        e = dict(vals)[k]
        out = [[("name", k)]]
        if e[0] == "open":
            const = provs[e[1]]["const"]

            def walk(v, p, depth):
                x = v["v"]
                if isinstance(x, dict) and "o" in x:
                    for kk, vv in x["o"].items():
                        out.append(p + [("name", kk)])
                        walk(vv, p + [("name", kk)], depth + 1)
                elif isinstance(x, list):
                    for i, vv in enumerate(x):
                        out.append(p + [("idx", i)])
                        walk(vv, p + [("idx", i)], depth + 1)
            walk(const, [("name", k)], 0)
        return out

    n = 3 + r.below(5)
    derived = []
    for i in range(n):
        k = "d%d" % i
        src = r.choice(names_secret + [d for d, _ in derived] if derived and r.chance(1, 3) else names_secret)
        p = r.choice(paths_into(src)) if src in names_secret else [("name", src)]
        j = r.below(11)
        if j == 0:
            e = ("sym", p)
        elif j == 1:
            e = G.norm_interp([("v=", p), (";", None)])
        elif j == 2:
            e = ("join", ("str", "-"), ("arr", [("str", "a"), ("tostring", ("sym", p))]))
        elif j == 3:
            e = ("tojson", ("sym", p))
        elif j == 4:
            e = ("fromjson", ("tojson", ("sym", p)))
        elif j == 5:
            e = ("tob64", ("tostring", ("sym", p)))
        elif j == 6:
            e = ("fromb64", ("tob64", ("tostring", ("sym", p))))
        elif j == 7:
            e = ("tostring", ("sym", p))
        elif j == 8:
            pn = "echo%d" % len(provs)
            provs[pn] = {"in": "always", "out": "always", "beh": "echo"}
            e = ("open", pn, ("obj", [("x", ("sym", p)), ("y", ("str", "pub"))]))
        elif j == 9:
            e = ("obj", [("inner", ("sym", p)), ("pub", ("str", "visible"))])
        else:
            e = ("arr", [("sym", p), ("str", "visible")])
        derived.append((k, e))
    envvars = [("V%d" % i, ("sym", [("name", r.choice(names_secret + names_plain + [d for d, _ in derived]))]))
               for i in range(1 + r.below(3))]
    if r.chance(1, 2):
        # several variables carrying the same value (each occurrence must be redacted)
        envvars.append(("W0", r.choice(envvars)[1]))
        if r.chance(1, 2):
            envvars.append(("A0", r.choice(envvars)[1]))
    vals = vals + derived + [("environmentVariables", ("obj", envvars))]
    envs = {}
    imports = []
    if r.chance(1, 3):
        # a base environment that defines an object under one of the secret keys: merging another object over a secret
        k = r.choice(names_secret)
        envs["base"] = {"imports": [], "values": [(k, ("obj", [("frombase", ("str", "pub"))]))]}
        imports = [("base", True)]
    if r.chance(1, 4):
        k = r.choice(names_secret)
        vals.append(("over", ("sym", [("name", k)])))
        envs["base2"] = {"imports": [], "values": [("over", ("obj", [("basekey", ("str", "pub"))]))]}
        imports.append(("base2", True))
    envs["root"] = {"imports": imports, "values": vals}
    c = G.case_from_graph(envs, "root")
    c["provs"] = provs
    subs = {p: p.upper() + "-alt-" + str(len(p)) for p in PLAIN}
    for ct in CTS:
        subs[ct] = "other plaintext for " + ct
    for i in range(100):
        subs["s3cr3t-%d" % i] = "S3CR3T*%d*longer" % (i + 1)
    c["secrets2"] = subs
    c["composite"] = any(v.get("beh") == "const" and v["const"]["s"] for v in provs.values())
    return c


def subs_map():
    subs = {p: p.upper() + "-alt-" + str(len(p)) for p in PLAIN}
    for ct in CTS:
        subs[ct] = "other plaintext for " + ct
    for i in range(100):
        subs["s3cr3t-%d" % i] = "S3CR3T*%d*longer" % (i + 1)
    subs["471100"] = "918273645"
    return subs


def gen_inherited(rng):
    """secrets that an object only INHERITS from an imported base, and secret numbers/objects decoded from a secret JSON
    text, flowing into aggregate built-ins and into environmentVariables"""
    r = rng
    base_vals = [("creds", ("obj", [("pw", ("secret", r.choice(PLAIN))), ("n", ("num", "1"))])),
                 ("doc", ("fromjson", ("secret", '{"pin": 471100, "name": "x"}')))]
    vals = [("creds", ("obj", [("user", ("str", "bob"))]))]       # a plain sibling merged over the base's object
    sinks = []
    for i in range(2 + r.below(4)):
        src = r.choice([[("name", "creds")], [("name", "creds"), ("name", "pw")], [("name", "doc")], [("name", "doc"), ("name", "pin")]])
        j = r.below(7)
        if j == 0:
            e = ("tojson", ("sym", src))
        elif j == 1:
            e = ("join", ("str", "-"), ("arr", [("str", "a"), ("tojson", ("sym", src))]))
        elif j == 2:
            e = G.norm_interp([("v=", src), ("", None)])
        elif j == 3:
            e = ("tostring", ("sym", src))
        elif j == 4:
            e = ("tob64", ("tojson", ("sym", src)))
        elif j == 5:
            e = ("obj", [("wrapped", ("sym", src))])
        else:
            e = ("sym", src)
        sinks.append(("k%d" % i, e))
    envvars = [("PIN", ("sym", [("name", "doc"), ("name", "pin")])), ("PW", ("sym", [("name", "creds"), ("name", "pw")])),
               ("USER", ("sym", [("name", "creds"), ("name", "user")]))]
    if sinks:
        envvars.append(("S0", ("sym", [("name", sinks[0][0])])))
    vals = vals + sinks + [("environmentVariables", ("obj", envvars)),
                           ("files", ("obj", [("F", ("sym", [("name", "doc"), ("name", "pin")]))]))]
    envs = {"base": {"imports": [], "values": base_vals}, "root": {"imports": [("base", True)], "values": vals}}
    c = G.case_from_graph(envs, "root")
    c["provs"] = {}
    c["secrets2"] = subs_map()
    c["composite"] = False
    return c


def gen(rng, tier):
    n = 5000 if tier == "thorough" else 400
    cases = [gen_world(rng.fork("w%d" % i)) for i in range(n)]
    cases += [gen_inherited(rng.fork("i%d" % i)) for i in range(n // 5)]
    return cases


def prepare(c):
    return G.request(c, secrets2=c["secrets2"])


def line(c, o):
    f = lambda b: "t" if b else "f"
    return "(c03 %s %s %s %s)" % (G.w_case(c, o), f(o.get("ni_compared")), f(o.get("ni_equal", True)), f(c["composite"]))


def describe(c):
    return {"root": G.render_env(c["def"]), "imports": {n: G.render_env(e["def"]) for n, e in c["envs"].items()},
            "providers": {k: v.get("const") for k, v in c["provs"].items()}}


def shrink(c):
    d = c["def"]
    for i in range(len(d["values"])):
        yield dict(c, **{"def": {"imports": d["imports"], "values": d["values"][:i] + d["values"][i + 1:]}})
    for i in range(len(d["imports"])):
        yield dict(c, **{"def": {"imports": d["imports"][:i] + d["imports"][i + 1:], "values": d["values"]}})


def distribution(cases, r):
    d = {"compared": 0, "unequal": 0, "with_errors": 0, "composite_secret_outputs": 0}
    for c, o in zip(cases, r["obs"]):
        d["compared"] += 1 if o.get("ni_compared") else 0
        d["unequal"] += 1 if (o.get("ni_compared") and not o.get("ni_equal")) else 0
        d["with_errors"] += 1 if o.get("errors") else 0
        d["composite_secret_outputs"] += 1 if c["composite"] else 0
    return d
