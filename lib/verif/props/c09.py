"""C09 — evaluation is deterministic."""
from .. import common as C
from .. import evalgen as G

ID = "C09"
impl_prop = "EV"
SRC_FACTS = []
COQ_SAMPLE = 30
BATCH = 60
IMPL_TIMEOUT = 400
FRESH_PROCESS_COMPARE = True
RULE = ("programs with several keys and several errors per level, provider input schemas with several violated clauses "
        "(required, typed properties, dependentRequired with 2..5 violated entries); each evaluated N+1 times in one process "
        "(N = 20 quick, 200 thorough) and once more in a fresh process; json.Marshal(Environment) and the sorted diagnostic "
        "texts are compared byte for byte (Go's map iteration order is re-randomised on every range).  "
        "non-trivial = the evaluation produced an environment")
ASSUMPTIONS = ["the model is a function, so 'same input, same output' holds of it trivially; what the check adds is that the "
               "implementation's result, including diagnostic texts, does not depend on map iteration order"]
TRUSTED = []


def gen(rng, tier):
    n = 900 if tier == "thorough" else 120
    reps = 200 if tier == "thorough" else 20
    cases = []
    for i in range(n):
        r = rng.fork("w%d" % i)
        g = G.RichGen(r, bad_refs=True, faulty=r.chance(1, 2))
        c = g.world(depth=2)
        c["check"] = r.chance(1, 3)
        c["model"] = True
        c["reps"] = reps
        if r.chance(1, 2):
            # definitions that observe the execution context (root / current environment names)
            for d in [c["def"]] + [e["def"] for e in c["envs"].values() if e.get("kind") == "def"]:
                if r.chance(2, 3):
                    d["values"].append(("ctxr", ("sym", [("name", "context"), ("name", "rootEnvironment"), ("name", "name")])))
                if r.chance(1, 3):
                    d["values"].append(("ctxc", ("sym", [("name", "context"), ("name", "currentEnvironment"), ("name", "name")])))
        cases.append(c)
    # schemas with many violated clauses (outside the model's schema fragment: implementation only)
    for i in range(60 if tier == "thorough" else 25):
        r = rng.fork("s%d" % i)
        keys = ["k%d" % j for j in range(6)]
        depreq = {k: r.shuffle([x for x in keys if x != k])[: 2 + r.below(3)] + ["m%d" % j for j in range(2 + r.below(3))]
                  for k in r.shuffle(keys)[: 1 + r.below(3)]}
        present = sorted(depreq.keys()) + (["k5"] if r.chance(1, 2) else [])
        inputs = ("obj", [(k, ("num", "1") if r.chance(1, 2) else ("str", "x")) for k in dict.fromkeys(present)])
        schema = {"t": "object", "props": {k: r.choice(["string", "number", "boolean"]) for k in keys},
                  "required": ["r%d" % j for j in range(r.below(4))], "depreq": depreq}
        c = {"name": "root", "def": {"imports": [], "values": [("v", ("open", "p", inputs)), ("w", ("sym", [("name", "nope")]))]},
             "envs": {}, "provs": {}, "model": False, "reps": reps,
             "raw_provs": {"p": {"in": schema, "out": "always", "beh": "echo"}}}
        cases.append(c)
    # keys that differ only in case, with reference cycles between them (an evaluation order that is not a total
    # order on keys shows up as a different blamed expression from run to run)
    for i in range(40 if tier == "thorough" else 12):
        r = rng.fork("k%d" % i)
        pairs = r.shuffle([("Host", "host"), ("PORT", "port"), ("Key", "kEy"), ("a", "A")])[: 1 + r.below(3)]
        entries = []
        for a, b in pairs:
            entries.append((a, ("sym", [("name", "endpoint"), ("name", b)])))
            entries.append((b, ("sym", [("name", "endpoint"), ("name", a)])))
        top = [("endpoint", ("obj", r.shuffle(entries))), ("Zed", ("sym", [("name", "zed")])), ("zed", ("sym", [("name", "Zed")]))]
        c = {"name": "root", "def": {"imports": [], "values": r.shuffle(top)}, "envs": {}, "provs": {}, "model": True, "reps": reps}
        cases.append(c)
    # an unknown provider output (record schema) passed whole as the inputs of a provider whose input schema conflicts
    # with it on several properties: the schema-against-schema validator must report the same diagnostics every time
    for i in range(40 if tier == "thorough" else 12):
        r = rng.fork("u%d" % i)
        keys = ["host", "port", "user", "tls", "zone"][: 2 + r.below(4)]
        tys = ["string", "number", "boolean"]
        out_props = {k: r.choice(tys) for k in keys}
        in_props = {k: r.choice([t for t in tys if t != out_props[k]]) for k in keys}
        out_schema = {"t": "object", "props": out_props, "required": sorted(keys), "addl": "never"}
        in_schema = {"t": "object", "props": in_props, "required": ["r%d" % j for j in range(r.below(3))]}
        c = {"name": "root", "def": {"imports": [], "values": [("a", ("open", "pa", ("obj", [("k", ("str", "v"))]))),
                                                             ("b", ("open", "pb", ("sym", [("name", "a")])))]},
             "envs": {}, "provs": {}, "model": False, "reps": reps, "check": True,
             "raw_provs": {"pa": {"in": "always", "out": out_schema, "beh": "echo"},
                           "pb": {"in": in_schema, "out": "always", "beh": "echo"}}}
        cases.append(c)
        cases.append(dict(c, check=False, raw_provs={"pa": {"in": "always", "out": out_schema, "beh": "fail"}, "pb": c["raw_provs"]["pb"]}))
    # schema-against-schema with CHAINED dependentRequired (a -> b, b -> c, ...): which entries are reported must not
    # depend on the order in which the map of dependencies is visited
    for i in range(30 if tier == "thorough" else 10):
        r = rng.fork("d%d" % i)
        names = ["a", "b", "c", "d", "e"][: 3 + r.below(3)]
        depreq = {names[j]: [names[j + 1]] + (["m%d" % j] if r.chance(1, 3) else []) for j in range(len(names) - 1)}
        if r.chance(1, 2):
            depreq[names[-1]] = [names[0]]
        out_schema = {"t": "object", "props": {k: "string" for k in names[:1 + r.below(2)]}, "required": [names[0]]}
        in_schema = {"t": "object", "props": {}, "required": ["r%d" % j for j in range(r.below(2))], "depreq": depreq}
        c = {"name": "root", "def": {"imports": [], "values": [("a", ("open", "pa", ("obj", [("k", ("str", "v"))]))),
                                                             ("b", ("open", "pb", ("sym", [("name", "a")])))]},
             "envs": {}, "provs": {}, "model": False, "reps": reps, "check": True,
             "raw_provs": {"pa": {"in": "always", "out": out_schema, "beh": "echo"},
                           "pb": {"in": in_schema, "out": "always", "beh": "echo"}}}
        cases.append(c)
    # a provider with ONE static schema (inputs and outputs) whose `required` list is not sorted, opened in an import with the
    # required inputs missing, the property overridden by the importer: nothing may reorder the provider's own list, so the
    # second evaluation reports what the first did
    for i, req in enumerate((["zone", "account"], ["z", "m", "a"], ["b", "a"], ["k2", "k10", "k1"])):
        sch = {"t": "object", "props": {k: "string" for k in req}, "required": list(req)}
        for over in (("obj", []), ("obj", [("x", ("num", "1"))]), None):
            envs = {"lib": {"imports": [], "values": [("o", ("open", "pst", ("obj", [])))]},
                    "root": {"imports": [("lib", True)], "values": ([("o", over)] if over else []) + [("p", ("open", "pst", ("obj", [("q", ("num", "1"))])))]}}
            c = G.case_from_graph(envs, "root")
            c.update({"provs": {}, "model": False, "reps": reps, "check": i % 2 == 0, "raw_provs": {"pst": {"in": sch, "out": sch, "beh": "echo"}}})
            cases.append(c)
    # an unknown imported value overridden 1..5 levels deep with 2..3 sibling keys at the bottom: expression metadata
    # (base access chains in Exprs) must be the same on every run
    for depth in range(1, 6):
        for nsib in (2, 3):
            leaf = ("obj", [(k, ("num", str(j))) for j, k in enumerate(["d", "e", "f"][:nsib])])
            e = leaf
            for k in reversed(["a", "b", "c", "g"][: depth - 1]):
                e = ("obj", [(k, e)])
            envs = {"lib": {"imports": [], "values": [("cfg", ("open", "pl", ("obj", [("k", ("str", "v"))])))]},
                    "root": {"imports": [("lib", True)], "values": [("cfg", e)]}}
            c = G.case_from_graph(envs, "root")
            c.update({"provs": {"pl": {"in": "always", "out": "always", "beh": "echo"}}, "model": True, "reps": reps, "check": True})
            cases.append(c)
            cases.append(dict(c, check=False))
    return cases


def prepare(c):
    r = G.request(c, repeat=c["reps"], history=True)
    if "raw_provs" in c:
        r["provs"] = c["raw_provs"]
    return r


def line(c, o):
    rep = bool(o.get("repeat_diff"))
    fresh = bool(o.get("fresh_diff"))
    w = dict(c)
    if "raw_provs" in c:
        w["provs"] = {}
    return "(c09 %s %s %s %s)" % ("t" if c["model"] else "f", G.w_case(w, o), "t" if rep else "f", "t" if fresh else "f")


def describe(c):
    return {"root": G.render_env(c["def"]), "providers": c.get("raw_provs") or {k: v["in"] for k, v in c["provs"].items()}}


def distribution(cases, r):
    d = {"with_errors": 0, "repeat_differs": 0, "fresh_differs": 0, "schema_cases": 0}
    for c, o in zip(cases, r["obs"]):
        d["with_errors"] += 1 if o.get("errors") else 0
        d["repeat_differs"] += 1 if o.get("repeat_diff") else 0
        d["fresh_differs"] += 1 if o.get("fresh_diff") else 0
        d["schema_cases"] += 0 if c["model"] else 1
    return d


def shrink(c):
    d = c["def"]
    for i in range(len(d["values"])):
        yield dict(c, **{"def": {"imports": d["imports"], "values": d["values"][:i] + d["values"][i + 1:]}})
