"""C19 — reported source ranges point at the right text."""
from .. import common as C

ID = "C19"
BATCH = 100
COQ_SAMPLE = 40
SRC_FACTS = ["pos_line_lo", "pos_line_hi_inclusive", "pos_ascii_clamp", "pos_column_runes", "end_len_chars",
             "end_tag_len_chars", "scalar_range_runes"]
RULE = ("regression corpus (the documents of every finding); exhaustive family: scalar form x place (block value, "
        "key, block sequence element, flow mapping value, flow sequence element, nested, multi-line flow collection, "
        "flow-style `values:`) x text before the node on its line (none / ASCII / non-ASCII width-1 / TAB / East-Asian wide / "
        "emoji / flag / combining sequence) x final newline (yes / no) x position (first / last entry); documents with lines of "
        "4.5-6 KiB (ASCII and non-ASCII, a plain scalar, an interpolation at the end of the line, flow sequences of 300-400 "
        "elements on one line) and of 72 KiB (thorough: 200 KiB, 70 KiB on one line, a 100 KiB block scalar, random 70 KiB "
        "documents); random environments (block and flow collections also written over several lines, flow-style values, "
        "plain / quoted / multi-line / literal / folded / tagged / anchored scalars, interpolations and symbols (also preceded in "
        "the same scalar by literal `$`, `$$`, `$x`, `a$`, non-ASCII and wide text and combinations of them, plain and quoted), "
        "builtins, comments, keys / values / accessor names of 2-, 3- and 4-byte characters of width 0, 1, 2 and 3 and of "
        "multi-code-point clusters, TABs) with 0-2 imported environments, check and eval mode; erroneous programs (unknown "
        "references, bad builtins, aliases, non-string keys, missing and cyclic imports).  Every document is also "
        "evaluated as a root so that imported expressions are walked.  A run that panics or kills the process is a failure of "
        "the specification (replay = the documents).  non-trivial = at least one non-zero range; distinct by case content")
ASSUMPTIONS = [
    "yaml.v3 reports 1-based (line, column) of a node's first character with columns counted in code points; this is "
    "an input of the model (the handler sends yaml.v3's own numbers for the same bytes) and is exercised, not proved",
    "rivo/uniseg is an external collaborator of the code under test: the clusters uniseg.Step yields on every non-ASCII line "
    "and uniseg.StringWidth of every prefix of every plain scalar that is not printable ASCII are inputs of the model (the "
    "handler sends the library's own answers for the same bytes); the theorems hold for every behaviour of the library and "
    "state the domain they need (w1_prefix, u_width = nchars) as hypotheses",
    "documents are CRLF-free, valid UTF-8",
    "ranges reached by walking Environment.Exprs in parallel with the yaml tree are compared with the model's range of "
    "exactly that node; ranges without such a path (Trace.Def, diagnostics, resolved-value and receiver ranges) are "
    "compared by membership in the set of model ranges of the named document (sub-ranges of scalars allowed for "
    "diagnostics and accessors); their number is in the distribution",
    "a failing range counts as a recorded finding only if the model reproduces its six numbers exactly AND the failing "
    "requirement has a recorded cause on the node the model attaches the range to (Corr.C19 header); the per-cause counts, "
    "the zero ranges (no position, not checked) and the ranges compared by membership are in the distribution",
]
TRUSTED = ["gopkg.in/yaml.v3 node positions (input of the model, exercised)",
           "rivo/uniseg Step / StringWidth (input of the model, exercised)"]

# width-1, single code point, 2/3/4-byte
NONASCII_WORDS = ["héllo", "ünï", "ñandú", "Ωmega", "привет", "€uro", "a𐀀b", "žluť", "øre"]
NONASCII_KEYS = ["é", "ключ", "ñ", "€", "kø", "𐀀"]
# NOT width-1 single-code-point clusters for rivo/uniseg: East-Asian wide and fullwidth (2 columns), emoji (2), emoji with
# variation selector / ZWJ sequence / flag (several code points, one cluster), combining sequences (two code points, one
# cluster of width 1), Hangul, zero-width space (width 0), two-em dash (width 3)
WIDE_WORDS = ["世界", "日本語", "ｆｕｌｌ", "😀", "a😀b", "❤️", "👨‍👩‍👧", "🇩🇪", "e\u0301t\u0301e", "한글", "x\u200by", "\u2e3a", "世e\u0301😀"]
WIDE_KEYS = ["世", "日本", "😀", "e\u0301", "한", "ｋ", "🇩🇪"]
ASCII_WORDS = ["abc", "hello", "x", "v1.2", "a-b_c", "some-longer-word", "q"]
KEYS = ["a", "b", "c", "d", "e", "k", "name", "cfg", "list", "item", "x1", "y", "z", "long_key_name"]


# ---------------------------------------------------------------------------------------------------
# rendering
class Sc:
    """a scalar as written; block=True for forms that continue on following lines"""

    def __init__(self, text, kind, flow_ok=True, cont=None):
        self.text, self.kind, self.flow_ok, self.cont = text, kind, flow_ok, cont


def scalar(rng, refs, flow=False, depth=0):
    k = rng.below(100)
    if k < 12:
        return Sc(rng.choice(ASCII_WORDS), "plain")
    if k < 14:
        return Sc(rng.choice(WIDE_WORDS), "plain-wide")
    if k < 24:
        return Sc(rng.choice(NONASCII_WORDS), "plain-na")
    if k < 30:
        return Sc(rng.choice(ASCII_WORDS) + " " + rng.choice(NONASCII_WORDS + ASCII_WORDS), "plain-words")
    if k < 36:
        return Sc(rng.choice(["42", "0", "3.14", "true", "false", "~", "null", "-7"]), "lit")
    if k < 44:
        body = rng.choice(["x", "a b", "é", "tab\\there", "q\\\"q", "\\u00e9x", "a\tb", "ü ö", "${a}", "x ${b} y", ""])
        return Sc('"' + body + '"', "dq")
    if k < 50:
        body = rng.choice(["x", "it''s", "é ü", "a b c", "${a}", ""])
        return Sc("'" + body + "'", "sq")
    if k < 68 and rng.chance(1, 3):
        return dollar_scalar(rng, refs, flow)
    if k < 68:
        r = rng.choice(refs) if refs and not rng.chance(1, 8) else rng.choice(["nope", "zz.y", "a[9]"])
        if rng.chance(1, 4) and refs:
            r = r + rng.choice([".x", "[0]", '["k"]', ".é" if False else ".y"])
        form = rng.below(8)
        if flow:
            return Sc('"%s${%s}"' % (rng.choice(WIDE_WORDS + [""] * 12), r), "interp-q")
        if form == 0:
            return Sc("${%s}" % r, "sym")
        if form == 1:
            return Sc("pre ${%s} post" % r, "interp")
        if form == 2:
            r2 = rng.choice(refs) if refs else "nope"
            return Sc("${%s} ${%s}" % (r, r2), "interp2")
        if form == 3 and rng.chance(1, 2):
            return Sc("%s ${%s} %s ${%s}" % (rng.choice(WIDE_WORDS), r, rng.choice(WIDE_WORDS + ["x"]), r), "interp-wide")
        if form == 3:
            return Sc("%s ${%s}" % (rng.choice(NONASCII_WORDS), r), "interp-na")
        if form == 4:
            return Sc("x\t${%s}" % r, "interp-tab", flow_ok=False)
        if form == 5 and not getattr(rng, "safe", False):
            return Sc("${%s" % r, "interp-open")
        if form == 6:
            return Sc("$${%s} ${%s}" % (r, r), "interp-esc")
        return Sc("${%s}" % r, "sym")
    if flow:
        return Sc(rng.choice(ASCII_WORDS + NONASCII_WORDS), "plain")
    if k < 74:
        second = rng.choice(["more", "wörld", "${%s}" % (rng.choice(refs) if refs else "nope"), "and so on"])
        return Sc(rng.choice(ASCII_WORDS + NONASCII_WORDS), "multi", flow_ok=False, cont=[second])
    if k < 82:
        head = rng.choice(["|", "|-", "|+", "|2" if False else "|"])
        lines = [rng.choice(["line", "é", "keep", "a b"]) for _ in range(1 + rng.below(3))]
        if head == "|+":
            lines += [""] * rng.below(3)
        return Sc(head, "literal", flow_ok=False, cont=lines)
    if k < 87:
        return Sc(rng.choice([">", ">-"]), "folded", flow_ok=False, cont=[rng.choice(["folded", "téxt"]) for _ in range(1 + rng.below(3))])
    if k < 92:
        return Sc(rng.choice(["!!str 12", "!!str é", "!!int 3", "!!str ${a}", "!custom x"]), "tagged", flow_ok=False)
    if k < 96:
        return Sc("&a%d %s" % (rng.below(90), rng.choice(["1", "val", "${a}", "é"])), "anchored", flow_ok=False)
    if k < 98 and not getattr(rng, "safe", False):
        return Sc("*nope", "alias", flow_ok=False)
    return Sc(rng.choice(["{}", "[]"]), "empty")


DOLLAR_PIECES = ["$", "$$", "$x", "a$", "$5", "é$", "$é", "€$", "$$$", "a$b", "$$x", "x$$", "$ $", "ü", "世$", "$😀", "e\u0301"]
ACCESS_TAILS = ["", "", ".世", '["😀"].y', ".e\u0301", ".y", "[0]", '["k"]', ".y[1]", '["a b"].z', ".caf\u00e9", ".\u043a\u043b\u044e\u0447.x", '["\u00e9"].y', ".\u00fc[0]"]


def dollar_text(rng, refs):
    """literal text with lone `$`, `$$`, `$x`, `a$` ... pieces BEFORE (and between) interpolations of one scalar"""
    def ref():
        r = rng.choice(refs) if refs and not rng.chance(1, 6) else rng.choice(["nobody", "zz"])
        return "${%s%s}" % (r, rng.choice(ACCESS_TAILS))
    parts = [rng.choice(DOLLAR_PIECES) for _ in range(1 + rng.below(3))]
    parts.append(ref())
    if rng.chance(1, 2):
        parts += [rng.choice(DOLLAR_PIECES) for _ in range(rng.below(3))]
        parts.append(ref())
    if rng.chance(1, 4):
        parts.append(rng.choice(DOLLAR_PIECES))
    if parts[0] == "ü" or rng.chance(1, 5):
        parts.insert(0, rng.choice(["costs", "é", "x"]))
    return " ".join(parts)


def dollar_scalar(rng, refs, flow):
    t = dollar_text(rng, refs)
    q = rng.below(6)
    if flow or q == 0:
        return Sc('"' + t.replace('"', "'") + '"', "dollar-dq")
    if q == 1:
        return Sc("'" + t.replace("'", "") + "'", "dollar-sq")
    return Sc(t, "dollar-plain", flow_ok=False)


def key_text(rng, used):
    for _ in range(20):
        k = rng.choice(NONASCII_KEYS) if rng.chance(1, 5) else rng.choice(WIDE_KEYS) if rng.chance(1, 12) else rng.choice(KEYS)
        if rng.chance(1, 12):
            k = '"%s"' % k
        if k.strip('"') not in used:
            used.add(k.strip('"'))
            return k
    k = "k%d" % len(used)
    used.add(k)
    return k


def flow_value(rng, refs, depth):
    if depth < 2 and rng.chance(1, 4):
        if rng.chance(1, 2):
            used = set()
            items = ["%s: %s" % (key_text(rng, used), flow_value(rng, refs, depth + 1)) for _ in range(rng.below(4))]
            sep = ",\t" if rng.chance(1, 12) else ", "
            return "{" + sep.join(items) + "}"
        return "[" + ", ".join(flow_value(rng, refs, depth + 1) for _ in range(rng.below(4))) + "]"
    for _ in range(10):
        s = scalar(rng, refs, flow=True)
        if s.flow_ok and s.cont is None and s.kind not in ("empty",):
            return s.text
    return "x"


def comment(rng):
    if rng.chance(1, 6):
        return rng.choice([" # c", " # é", "\t# tab", "  # x y"])
    return ""


def block_entry_lines(rng, prefix, indent, refs, depth):
    """lines for `<prefix><value>` where prefix is e.g. '  k: ' or '  - ' (value may continue on following lines)"""
    k = rng.below(100)
    pad = " " * indent
    if depth < 3 and k < 16:
        # nested block mapping on following lines
        n = 1 + rng.below(3)
        used = set()
        lines = [prefix.rstrip() + comment(rng)]
        for _ in range(n):
            lines += block_entry_lines(rng, pad + "  " + key_text(rng, used) + ": ", indent + 2, refs, depth + 1)
        return lines
    if depth < 3 and k < 26:
        n = 1 + rng.below(3)
        lines = [prefix.rstrip()]
        for _ in range(n):
            lines += block_entry_lines(rng, pad + "  - ", indent + 2, refs, depth + 1)
        return lines
    if k < 31:
        ls = flow_multiline(rng, refs, indent)
        return [prefix + ls[0]] + ls[1:]
    if k < 44:
        return [prefix + flow_value_top(rng, refs) + comment(rng)]
    if depth < 3 and k < 52:
        return builtin_lines(rng, prefix, indent, refs, depth)
    s = scalar(rng, refs)
    if s.cont is None:
        c = comment(rng) if s.kind not in ("interp-open",) else ""
        return [prefix + s.text + c]
    lines = [prefix + s.text]
    for t in s.cont:
        lines.append((pad + "    " + t) if t else "")
    return lines


def flow_multiline(rng, refs, indent):
    """a flow collection written over several lines (continuation lines indented deeper than the key)"""
    pad = " " * (indent + 4)
    used = set()
    if rng.chance(1, 2):
        items = ["%s: %s" % (key_text(rng, used), flow_value(rng, refs, 1)) for _ in range(2 + rng.below(3))]
        o, c = "{", "}"
    else:
        items = [flow_value(rng, refs, 1) for _ in range(2 + rng.below(3))]
        o, c = "[", "]"
    lines = [o + items[0] + ","]
    for it in items[1:-1]:
        lines.append(pad + it + "," + comment(rng))
    last = pad + items[-1]
    form = rng.below(3)
    if form == 0:
        lines.append(last + c)
    elif form == 1:
        lines += [last, pad[:-2] + c]
    else:
        lines += [last + ",", pad + c]
    return lines


def flow_value_top(rng, refs):
    if rng.chance(1, 2):
        used = set()
        items = ["%s: %s" % (key_text(rng, used), flow_value(rng, refs, 1)) for _ in range(rng.below(4))]
        sep = ",\t" if rng.chance(1, 10) else ", "
        return "{" + sep.join(items) + "}"
    return "[" + ", ".join(flow_value(rng, refs, 1) for _ in range(rng.below(4))) + "]"


def builtin_lines(rng, prefix, indent, refs, depth):
    pad = " " * indent
    r = rng.choice(refs) if refs else "nope"
    k = rng.below(7 if getattr(rng, "safe", False) else 9)
    if k == 0:
        return [prefix + '{fn::join: [",", ["${%s}", b, é]]}' % r]
    if k == 1:
        return [prefix.rstrip(), pad + "  fn::join:", pad + '    - ","', pad + "    - [x, ${%s}]" % r if False else pad + "    - [x, y]"]
    if k == 2:
        return [prefix.rstrip(), pad + "  fn::toJSON:"] + block_entry_lines(rng, pad + "    " + "q: ", indent + 4, refs, depth + 2)
    if k == 3:
        return [prefix.rstrip(), pad + "  fn::toString: ${%s}" % r]
    if k == 4:
        return [prefix.rstrip(), pad + "  fn::toBase64: " + rng.choice(["abc", "é", "${%s}" % r])]
    if k == 5:
        return [prefix.rstrip(), pad + "  fn::secret: " + rng.choice(["hunter2", "pässword", '"q"'])]
    if k == 6:
        return [prefix.rstrip(), pad + "  fn::open::test:", pad + "    a: ${%s}" % r, pad + "    é: 1"]
    if k == 7:
        return [prefix + "{fn::bogus: 1}"]
    return [prefix + "{fn::join: %s}" % rng.choice(["1", "[a]", '[",", 2]'])]


def gen_env(rng, imports, refs_in, final_nl=None, nvals=None):
    lines = []
    if rng.chance(1, 8):
        lines.append(rng.choice(["# header", "# é header", "---", "", "", "\n", "   "]))   # blank lead: LoadYAML(reader) route
    if imports:
        lines.append("imports:")
        for i in imports:
            if rng.chance(1, 6):
                lines += ["  - %s:" % i, "      merge: %s" % rng.choice(["false", "true"])]
            else:
                lines.append("  - " + i)
    n = nvals if nvals is not None else 1 + rng.below(6)
    used = set()
    keys = [key_text(rng, used) for _ in range(n)]
    # unquoted names may be non-ASCII (bytes 0x85 / 0xA0 end a name in this parser: such keys are not used as references)
    refs = list(refs_in) + [k.strip('"') for k in keys if not k.startswith('"') and (k.isascii() or (
        k.isalpha() and not any(b in (0x85, 0xA0) for b in k.encode("utf-8"))))]
    style = rng.below(12) if n else 99
    if style == 0:
        # flow-style values on one line
        lines.append("values: {" + ", ".join("%s: %s" % (k, flow_value(rng, refs, 0)) for k in keys) + "}" + comment(rng))
    elif style == 1:
        # flow-style values over several lines
        lines.append("values: {")
        for i, k in enumerate(keys):
            lines.append("  %s: %s%s" % (k, flow_value(rng, refs, 0), "," if i + 1 < len(keys) or rng.chance(1, 3) else ""))
        lines.append("}" if rng.chance(1, 2) else "  }")
    else:
        if n:
            lines.append("values:")
        for k in keys:
            lines += block_entry_lines(rng, "  " + k + ": ", 2, refs, 0)
            if rng.chance(1, 15):
                lines.append("")
    text = "\n".join(lines)
    if final_nl is None:
        final_nl = rng.chance(1, 2)
    if final_nl:
        text += "\n"
    return text, [k.strip('"') for k in keys if k.isascii()]


# ---------------------------------------------------------------------------------------------------
REGRESSION = [
    # evaluation-time diagnostics whose subject is an EMPTY range (a missing argument), at the end of a line / of the
    # document: printed with the declaration's own writer, then the same declaration is evaluated again (seeded C19-l)
    {"envs": {"m": "values:\n  a:\n    fn::toBase64:"}},
    {"envs": {"m": "values:\n  a:\n    fn::toBase64:\n  b: 1\n"}},
    {"envs": {"m": "values:\n  a:\n    fn::fromJSON:\n  b: {fn::toString: }\n"}, "mode": "eval"},
    {"envs": {"m": "values:\n  a: {fn::join: }\n  é:\n    fn::fromBase64:"}},
    # last line without a final newline
    {"envs": {"m": "values:\n  k: last"}},
    {"envs": {"m": "# c\nvalues:\n  a: 1"}},
    # byte length used as character count
    {"envs": {"m": "values:\n  é: {ü: héllo, z: 1}\n"}},
    # block literal: end outside the text
    {"envs": {"m": "values:\n  some_long_key_name: |\n    a\n"}},
    {"envs": {"m": "values:\n  a: |+\n    x\n\n\n"}},
    # multi-line plain scalar, accessor inside it
    {"envs": {"m": "values:\n  a: hello\n    world\n  b: 1\n"}},
    {"envs": {"m": "values:\n  a: 1\n  b: foo\n    ${a}"}},
    {"envs": {"m": "values:\n  a: 1\n  b: foo         \n    ${a}\n"}},
    # TAB on a non-ASCII line
    {"envs": {"m": "values:\n  é: {a: \"x\ty\", b: c}\n"}},
    {"envs": {"m": "values:\n  a: {é: x,\tb: c}\n"}},
    # TAB inside a plain scalar before an accessor
    {"envs": {"m": "values:\n  a: 1\n  b: x\t${a}\n"}},
    # literal `$` before an interpolation in the same scalar (offset accounting of parseInterpolate)
    {"envs": {"m": "values:\n  price: 5\n  label: costs $5 or ${price}\n"}},
    {"envs": {"m": "values:\n  p: {q: [1]}\n  é: a$ b$ ${p.q[0]} $ ${p[\"q\"]}\n  s:\n    - $x $$ é$ ${p}"}},
    {"envs": {"m": "values:\n  label: é$ $5 ${nobody} and $ ${zz.y}\n  q: \"$5 ${label}\"\n  r: '$ ${label}'"}},
    {"envs": {"m": "imports:\n  - base\nvalues:\n  x: ${label}", "base": "values:\n  label: costs $5 or ${nobody}\n"}},
    # wide characters, emoji, combining sequences before a node / before an interpolation / as keys and accessors
    {"envs": {"m": "values:\n  世: {a: b}\n"}},
    {"envs": {"m": "values:\n  a: 1\n  b: 世界 ${a} 😀 ${a}\n  c: e\u0301 ${a}\n  d: \"👨‍👩‍👧${a}\"\n"}},
    {"envs": {"m": "values:\n  世: {😀: 1}\n  e\u0301: ${世.😀}\n  r: ${世[\"😀\"]} 🇩🇪 ${e\u0301}\n"}},
    {"envs": {"m": "values:\n  m: {ｋ: 한글, x: [❤️, y]}\n  n: [x\u200by, \u2e3a, z]"}},
    # flow-style values, multi-line flow collections
    {"envs": {"m": "values: {a: 1, b: \"${a}\", é: [x, y]}\n"}},
    {"envs": {"m": "values: {\n  a: 1,\n  b: \"x ${a}\",\n  é: [x,\n    y]\n}\n"}},
    {"envs": {"m": "values:\n  a: 1\n  m: {x: 1,\n      y: \"${a}\",\n      é: ü\n    }\n  l: [a,\n      b, c,\n      héllo]\n  z: last"}},
    # anchored / tagged scalars
    {"envs": {"m": "values:\n  f: &x 1\n  g: &y ${f}\n  h: !!str ${f}\n"}},
    # quoted, folded
    {"envs": {"m": "values:\n  a: \"x\\u00e9\"\n  b: 'it''s'\n  c: \"q\n    r\"\n"}},
    {"envs": {"m": "values:\n  a: >\n    folded\n    text\n  b: >-\n    x\n"}},
    # imports, bases
    {"envs": {"m": "imports:\n  - a\nvalues:\n  x: ${y}\n  z: {q: 1}", "a": "values:\n  y: {é: 1}\n  z: {p: ü}"}},
    {"envs": {"m": "imports:\n  - nope\n  - a\nvalues:\n  x: {y: 2}\n", "a": "values:\n  x: {y: 1, z: [1, ü]}"}, "mode": "eval"},
    # erroneous programs
    {"envs": {"m": "values:\n  a: 1\n  b: ${zz} ${a.b}\n  g: ${a[0]}\n  h: ${b"}},
    {"envs": {"m": "values:\n  i: {fn::join: 1}\n  j: ${j}\n  e: {fn::bogus: 1}"}},
    {"envs": {"m": "values:\n  a: &x 1\n  g: *x\n"}},
    {"envs": {"m": "values:\n  1: x\n  é: ${nope}"}},
    {"envs": {"m": "values:\n  c:\n    fn::join: [\",\", [x, b]]\n  d:\n    fn::toJSON: {é: \"${c}\"}\n  e:\n    fn::secret: hunter2\n  f:\n    fn::open::test: {a: b}\n  g: ${f.x}\n  h: ${d[0]}"}},
]


def family(thorough):
    """exhaustive small family: one probe scalar in every place, with every kind of text before it on its line"""
    forms = ["abc", "héllo", "a𐀀", "€", "two words", "${a}", "x ${a} é", "42", '"q"', "'s'", "!!str t", "&an v",
             "$5 ${a}", "a$ $$ ${a}", "é$ $x ${a.y} $ ${a}", "x$$ ${a}",
             "世界", "😀", "e\u0301x", "世 ${a}", "👨‍👩‍👧${a} e\u0301 ${a}"]
    cases = []
    for f in forms:
        for nl in ("\n", ""):
            flow_ok = not ("${" in f or f.startswith("!!") or f.startswith("&"))
            docs = [
                "values:\n  a: 1\n  k: %s" % f,                       # block value, last entry
                "values:\n  k: %s\n  a: 1" % f,                       # block value, first entry
                "values:\n  a: 1\n  é: %s" % f,                       # non-ASCII key before
                "values:\n  a: 1\n  k:\t%s" % f,                      # TAB before (ASCII line)
                "values:\n  a: 1\n  s:\n    - %s\n    - é" % f,       # block sequence element
                "values:\n  a: 1\n  n:\n    é:\n      - k: %s" % f,   # nested
                "values:\n  a: 1\n  k: %s # é" % f,                   # non-ASCII comment after
                "values:\n  a: 1\n  世: %s" % f,                      # wide key before
                "values:\n  a: 1\n  e\u0301: %s" % f,                 # combining sequence before
                "values:\n  a: 1\n  😀:\n    - 🇩🇪: %s" % f,           # emoji / flag before
            ]
            if flow_ok:
                docs += [
                    "values:\n  a: 1\n  m: {x: %s}" % f,
                    "values:\n  a: 1\n  m: {é: ü, x: %s, y: z}" % f,
                    "values:\n  a: 1\n  m: [é, %s, z]" % f,
                    "values:\n  a: 1\n  m: {x: \"\t\", é: %s}" % f,    # TAB and non-ASCII before
                    "values:\n  a: 1\n  m: {世: 界, x: %s, y: z}" % f,  # wide characters before (flow)
                    "values:\n  a: 1\n  m: [😀, e\u0301, %s]" % f,
                    "values:\n  a: 1\n  m: {x: 1,\n    é: %s,\n    y: [z,\n      %s]}" % (f, f),   # multi-line flow
                    "values: {a: 1, é: %s, z: [%s]}" % (f, f),            # flow-style values
                    "values:\n  a: 1\n  m: {%s: v, w: %s}" % (f, f) if f[0] not in "\"'4" else "values:\n  a: 1\n  m: {k: %s}" % f,
                ]
            if f[0] not in "$&!x" and " " not in f and "$" not in f:
                docs.append("values:\n  a: 1\n  %s: v\n  z: {%s: w}" % (f, f))   # as a key
            for d in docs:
                cases.append({"envs": {"m": d + nl}})
    return cases


def big_docs(rng, thorough):
    """documents over 64 KiB and lines over 4 KiB (ASCII and non-ASCII, block and flow), nodes also after / at the end of
    the long line and on the last line"""
    docs = []
    # a plain scalar of 5000 bytes; an interpolation at the end of a 4.5 KiB plain scalar; nodes after it
    docs.append("values:\n  a: 1\n  long: %s\n  after: ${a}\n  z: last" % ("x" * 5000))
    docs.append("values:\n  a: 1\n  long: %s ${a} tail\n  é: %s ${a}\n" % ("word " * 900, "é" * 2100))
    # flow sequences of 400 / 300 elements on one line of 4.8 KiB (ASCII) / 5.4 KiB (non-ASCII, one wide character)
    docs.append("values:\n  a: 1\n  l: [%s]\n  m: {k: [%s], 世: \"${a}\"}\n" % (
        ", ".join(["xxxxxxxxxx"] * 400), ", ".join(["héllo wörld"] * 300)))
    # a long non-ASCII comment line before the nodes, a long key
    docs.append("# %s\nvalues:\n  %s: v\n  é: {k: %s}" % ("é" * 3000, "k" * 900, "y" * 4200))
    # 72 KiB: 720 entries of ~100 bytes (ASCII, non-ASCII, interpolations), no final newline on the last
    ls = ["values:", "  a: 1"]
    for i in range(720):
        f = i % 11
        if f == 3:
            ls.append("  k%04d: héllo wörld %s é" % (i, "y" * 75))
        elif f == 7:
            ls.append("  k%04d: %s ${a} and ${k%04d}" % (i, "z" * 70, i - 1))
        elif f == 9:
            ls.append("  k%04d: {é: [x, %s], q: 世}" % (i, "w" * 75))
        else:
            ls.append("  k%04d: %s %d" % (i, "value text " * 8, i))
    docs.append("\n".join(ls))
    if thorough:
        # 200 KiB in few nodes; 70 KiB on ONE line; a 100 KiB block scalar
        docs.append("values:\n  a: 1\n  b: %s\n  c: ${a}\n" % ("lorem ipsum " * 17000))
        docs.append("values: {a: 1, b: [%s], c: \"${a}\"}" % ", ".join(["element of one hundred and forty characters " + "x" * 97] * 500))
        docs.append("values:\n  a: 1\n  t: |\n%s  c: ${a}\n" % ("    block line é\n" * 6000))
        for j in range(3):
            g = rng.fork("big%d" % j)
            g.safe = True        # (an undefined alias makes yaml.v3 reject the whole document)
            ls = ["values:", "  a: 1"]
            used = set(["a"])
            size = 16
            while size < 70000:
                e = block_entry_lines(g, "  k%d: " % len(ls), 2, ["a"], 1)
                # (one malformed entry makes yaml.v3 reject the whole document: a TAB before a comment after `key:`, a
                #  quoted subscript inside a double-quoted scalar; a load diagnostic leaves no expressions; the small documents
                #  keep those)
                if any("\t#" in x or '["' in x or "['" in x for x in e):
                    continue
                ls += e
                size += sum(len(x.encode("utf-8")) + 1 for x in e)
            docs.append("\n".join(ls) + ("\n" if g.chance(1, 2) else ""))
    return [{"envs": {"m": d}, "main": "m", "mode": "check"} for d in docs]


def gen(rng, tier):
    thorough = tier == "thorough"
    cases = []
    for r in REGRESSION:
        cases.append({"envs": dict(r["envs"]), "main": "m", "mode": r.get("mode", "check")})
    for c in family(thorough):
        cases.append({"envs": c["envs"], "main": "m", "mode": "check"})
    # (the big documents are spread over the case list: the model runner splits the lines into contiguous chunks, one
    #  process each, and every big document costs seconds to minutes)
    big = big_docs(rng.fork("big"), thorough)
    n = 20000 if thorough else 700
    every = max(1, n // (len(big) + 1))
    for i in range(n):
        if i % every == 0 and big:
            cases.append(big.pop())
        g = rng.fork("doc%d" % i)
        envs = {}
        nimp = g.choice([0, 0, 0, 1, 1, 2])
        names = ["imp%d" % j for j in range(nimp)]
        refs = []
        for j, nm in enumerate(names):
            sub = [names[j - 1]] if j > 0 and g.chance(1, 3) else []
            if g.chance(1, 25):
                sub = [nm]          # self import: cyclic
            gi = g.fork(nm)
            gi.safe = not g.chance(1, 30)      # an import that does not load is a crash of its own (C07)
            t, ks = gen_env(gi, sub, refs)
            envs[nm] = t
            refs += ks
        imports = list(names)
        if g.chance(1, 15):
            imports.append("missing-env")
        t, _ = gen_env(g.fork("main"), imports, refs)
        envs["m"] = t
        cases.append({"envs": envs, "main": "m", "mode": "eval" if g.chance(1, 3) else "check"})
    return cases + big


# ---------------------------------------------------------------------------------------------------
def prepare(c):
    return {"envs": {k: v.encode("utf-8").hex() for k, v in c["envs"].items()}, "main": c.get("main", "m"),
            "mode": c.get("mode", "check")}


def crashed(o):
    """the run of this case panicked (recovered by implrun) or killed / hung the process (detected by the driver)"""
    return "crash" in o or "panic" in o or "docs" not in o


def line(c, o):
    # a crash is a failure of the specification with the documents as replay, never a pass (Corr.C19: CCrash)
    if crashed(o):
        return "(crash %s)" % ("panic" if "panic" in o else "crash")
    docs = []
    for d in o["docs"]:
        text = c["envs"][d["name"]].encode("utf-8")
        nodes = " ".join("(n %d %d %d %d x%s x%s %d %s (%s))" % (
            n["line"], n["col"], n["kind"], n["style"], n["tag"], n["value"], n["last"], "t" if n.get("anch") else "f",
            " ".join("%d" % w for w in n.get("pw") or [])) for n in d["nodes"])
        segs = " ".join("(s %s)" % " ".join("%d" % x for x in row) for row in d.get("segs") or [])
        docs.append("(d %s %s (%s) (%s))" % (C.sx(d["name"]), C.sx(text), nodes, segs))
    rs = []
    for r in o["ranges"]:
        b, e = r["b"], r["e"]
        acc = ""
        if "key" in r:
            acc = " (k x%s)" % r["key"]
        elif "index" in r:
            acc = " (i %d)" % r["index"]
        rs.append("(r %s %s %d %d %d %d %d %d %d%s)" % (r["what"], C.sx(r["env"]), r["node"], b[0], b[1], b[2], e[0], e[1], e[2], acc))
    return "(c19 (%s) (%s))" % (" ".join(docs), " ".join(rs))


def shrink(c):
    envs = c["envs"]
    main = c.get("main", "m")
    # drop an imported environment that is not needed
    for k in list(envs):
        if k != main:
            d = dict(c, envs={a: b for a, b in envs.items() if a != k})
            d.pop("id", None)
            yield d
    # cut long lines down (documents with lines of several KiB): halve the longest run of one repeated character / word
    for k in sorted(envs, key=lambda k: -len(envs[k])):
        ls = envs[k].split("\n")
        i = max(range(len(ls)), key=lambda i: len(ls[i]))
        if len(ls[i]) > 300:
            l = ls[i]
            for a, b in ((len(l) // 4, 3 * len(l) // 4), (len(l) // 2, len(l) - 40), (60, len(l) // 2)):
                if 0 < a < b < len(l):
                    t = "\n".join(ls[:i] + [l[:a] + l[b:]] + ls[i + 1:])
                    d = dict(c, envs=dict(envs, **{k: t}))
                    d.pop("id", None)
                    yield d
    # drop blocks of lines (halves, quarters, eighths) of a document with many lines, then single lines (largest
    # documents first)
    for k in sorted(envs, key=lambda k: -len(envs[k])):
        ls = envs[k].split("\n")
        n = len(ls)
        if n > 16:
            for parts in (2, 4, 8, 16):
                for j in range(parts):
                    a, b = max(1, j * n // parts), (j + 1) * n // parts
                    keep = ls[:a] + ls[b:]
                    if any(x in ("values:", "imports:") for x in ls[a:b]) or not "".join(keep).strip():
                        continue
                    d = dict(c, envs=dict(envs, **{k: "\n".join(keep)}))
                    d.pop("id", None)
                    yield d
        if len(envs[k]) > 20000:
            continue        # (every candidate costs a full evaluation: big documents are only cut in blocks)
        for i in range(len(ls)):
            if ls[i] in ("values:", "imports:"):
                continue
            t = "\n".join(ls[:i] + ls[i + 1:])
            if t.strip():
                d = dict(c, envs=dict(envs, **{k: t}))
                d.pop("id", None)
                yield d
    if c.get("mode") == "eval":
        d = dict(c, mode="check")
        d.pop("id", None)
        yield d


def describe(c):
    return {"envs": c["envs"], "mode": c.get("mode", "check")}


STAT_FIELDS = ["ranges:non-zero", "ranges:zero(no-position,not-checked)", "ranges:without-node(compared-by-membership)",
               "ranges:failing", "ranges:failing:model-does-not-reproduce", "ranges:failing:outside-known-classes",
               "ranges:excused:C19-bytes", "ranges:excused:C19-past-eol", "ranges:excused:C19-zero-width",
               "ranges:excused:C19-anchored", "ranges:excused:C19-accessor-multiline", "ranges:excused:C19-accessor-tab",
               "ranges:with-irregular-uniseg-clusters-before-a-position", "ranges:accessor-checked-for-spelling-only"]


def model_stats(lines):
    """the counts Corr.C19.stats computes (per case) — the classes are decided by the Coq predicates, not by Python"""
    exe, _ = C.build_modelrun(ID)
    if exe is None:
        return None
    qs = ["(c19s " + l[len("(c19 "):] for l in lines]
    out = C.run_model_lines(exe, qs)
    res = []
    for v in out:
        if v is None:
            res.append(None)
            continue
        res.append([(v // 10 ** (6 * k)) % 10 ** 6 for k in range(len(STAT_FIELDS))])
    return res


def distribution(cases, r):
    d = {}

    def inc(k, n=1):
        d[k] = d.get(k, 0) + n

    for k in ("crash-or-hang(process)", "panic(recovered)", "root-load-failed-legitimately(loaderr/loaddiag,no-ranges-expected)"):
        d[k] = 0
    for c, o in zip(cases, r["obs"]):
        if crashed(o):
            inc("panic(recovered)" if "panic" in o else "crash-or-hang(process)")
            continue
        st = o.get("status", {}).get(c.get("main", "m"), "?")
        inc("root:" + st)
        if st in ("loaderr", "loaddiag"):
            inc("root-load-failed-legitimately(loaderr/loaddiag,no-ranges-expected)")
        inc("mode:" + c.get("mode", "check"))
        inc("envs:%d" % len(c["envs"]))
        m = c["envs"][c.get("main", "m")]
        inc("final-newline:" + ("yes" if m.endswith("\n") else "no"))
        if any(not t.isascii() for t in c["envs"].values()):
            inc("has-non-ascii")
        if any("\t" in t for t in c["envs"].values()):
            inc("has-tab")
        if any(len(t.encode("utf-8")) > 65536 for t in c["envs"].values()):
            inc("has-document-over-64KiB")
        if any(len(l.encode("utf-8")) > 4096 for t in c["envs"].values() for l in t.split("\n")):
            inc("has-line-over-4KiB")
        if any(not dd.get("yaml_ok", True) for dd in o["docs"]):
            inc("has-document-yaml.v3-rejects(no-node-tree)")
        for g in o["ranges"]:
            inc("range:" + g["what"] + (":resolved" if g["node"] >= 0 else ""))
        # yaml.v3's columns are code points: a plain scalar is found in the text at its (line, column)
        for dd in o["docs"]:
            ls = c["envs"][dd["name"]].split("\n")
            for row in dd.get("segs") or []:
                if any(row[i] != 1 or False for i in range(2, len(row), 2)) or len(ls[row[0]]) != (len(row) - 1) // 2:
                    inc("lines:uniseg-clusters-not-one-width-1-code-point-each")
                else:
                    inc("lines:non-ascii-regular")
            for n in dd["nodes"]:
                if n["kind"] == 8 and n["style"] == 0 and not n.get("anch"):
                    v = bytes.fromhex(n["value"]).decode("utf-8", "replace")
                    l = ls[n["line"] - 1] if 1 <= n["line"] <= len(ls) else ""
                    if v and l[n["col"] - 1:n["col"] - 1 + len(v)] == v:
                        inc("plain-scalar-nodes:text-at-yaml-position-is-the-value")
                    elif v:
                        inc("plain-scalar-nodes:multi-line-or-decorated(slice-not-required)")
    d["cases-with-known-class-failures"] = len(r.get("spec_fail_known", []))
    # per-class counts from the Coq predicates
    idx = sorted(r.get("lines", {}))
    lines = [r["lines"][i] for i in idx if r["lines"][i].startswith("(c19 ")]
    st = model_stats(lines)
    if st is None or any(x is None for x in st):
        d["stats"] = "unavailable"
    else:
        for k, name in enumerate(STAT_FIELDS):
            d[name] = sum(x[k] for x in st)
            d["cases-with:" + name] = sum(1 for x in st if x[k])
    return d


def search(rng, info):
    cases = []
    for r in REGRESSION:
        cases.append({"envs": dict(r["envs"]), "main": "m", "mode": r.get("mode", "check")})
    for c in family(True):
        cases.append({"envs": c["envs"], "main": "m", "mode": "check"})
    for c in info.get("mismatch_cases", [])[:10]:
        for s in list(shrink(c))[:30]:
            cases.append(s)
    return cases


def model_show(c, o):
    return "see verdict bits; ranges=%d" % len(o.get("ranges", []))
