"""C19 — reported source ranges point at the right text."""
from .. import common as C

ID = "C19"
BATCH = 100
COQ_SAMPLE = 40
SRC_FACTS = ["pos_line_lo", "pos_line_hi_inclusive", "pos_ascii_clamp", "pos_column_runes", "end_len_chars",
             "end_tag_len_chars", "scalar_range_runes"]
RULE = ("regression corpus (the documents of every finding); exhaustive family: scalar form x place (block value, "
        "key, block sequence element, flow mapping value, flow sequence element, nested) x text before the node on its "
        "line (none / ASCII / non-ASCII / TAB) x final newline (yes / no) x position (first / last entry); random "
        "environments (block and flow collections, plain / quoted / multi-line / literal / folded / tagged / anchored "
        "scalars, interpolations and symbols (also preceded in the same scalar by literal `$`, `$$`, `$x`, `a$`, non-ASCII "
        "text and combinations of them, plain and quoted), builtins, comments, non-ASCII keys and values of 2-, 3- and 4-byte "
        "width-1 characters, TABs) with 0-2 imported environments, check and eval mode; erroneous programs (unknown "
        "references, bad builtins, aliases, non-string keys, missing and cyclic imports).  Every document is also "
        "evaluated as a root so that imported expressions are walked.  non-trivial = at least one non-zero range; "
        "distinct by case content")
ASSUMPTIONS = [
    "yaml.v3 reports 1-based (line, column) of a node's first character with columns counted in code points; this is "
    "an input of the model (the handler sends yaml.v3's own numbers for the same bytes) and is exercised, not proved",
    "documents are CRLF-free, valid UTF-8; non-ASCII characters are width-1 single-code-point grapheme clusters "
    "(uniseg is modelled on that domain only, plus ASCII control characters having width 0)",
    "ranges reached by walking Environment.Exprs in parallel with the yaml tree are compared with the model's range of "
    "exactly that node; ranges without such a path (Trace.Def, diagnostics, resolved-value and receiver ranges) are "
    "compared by membership in the set of model ranges of the named document (sub-ranges of scalars allowed for "
    "diagnostics)",
]
TRUSTED = ["gopkg.in/yaml.v3 node positions (exercised)", "rivo/uniseg on width-1 text (exercised)"]

# width-1, single code point, 2/3/4-byte
NONASCII_WORDS = ["héllo", "ünï", "ñandú", "Ωmega", "привет", "€uro", "a𐀀b", "žluť", "øre"]
NONASCII_KEYS = ["é", "ключ", "ñ", "€", "kø", "𐀀"]
ASCII_WORDS = ["abc", "hello", "x", "v1.2", "a-b_c", "some-longer-word", "q"]
KEYS = ["a", "b", "c", "d", "e", "k", "name", "cfg", "list", "item", "x1", "y", "z", "long_key_name"]


# ---------------------------------------------------------------------------------------------------
# rendering
class Sc:
    """a scalar as written; block=True for forms that continue on following lines"""

    def __init__(self, text, kind, flow_ok=True, cont=None):
        self.text, self.kind, self.flow_ok, self.cont = text, kind, flow_ok, cont


def scalar(rng, refs, flow=False, depth=0):
    k = rng.below(100)
    if k < 14:
        return Sc(rng.choice(ASCII_WORDS), "plain")
    if k < 24:
        return Sc(rng.choice(NONASCII_WORDS), "plain-na")
    if k < 30:
        return Sc(rng.choice(ASCII_WORDS) + " " + rng.choice(NONASCII_WORDS + ASCII_WORDS), "plain-words")
    if k < 36:
        return Sc(rng.choice(["42", "0", "3.14", "true", "false", "~", "null", "-7"]), "lit")
    if k < 44:
        body = rng.choice(["x", "a b", "é", "tab\\there", "q\\\"q", "\\u00e9x", "a\tb", "ü ö", "${a}", "x ${b} y", ""])
        return Sc('"' + body + '"', "dq")
    if k < 50:
        body = rng.choice(["x", "it''s", "é ü", "a b c", "${a}", ""])
        return Sc("'" + body + "'", "sq")
    if k < 68 and rng.chance(1, 3):
        return dollar_scalar(rng, refs, flow)
    if k < 68:
        r = rng.choice(refs) if refs and not rng.chance(1, 8) else rng.choice(["nope", "zz.y", "a[9]"])
        if rng.chance(1, 4) and refs:
            r = r + rng.choice([".x", "[0]", '["k"]', ".é" if False else ".y"])
        form = rng.below(8)
        if flow:
            return Sc('"${%s}"' % r, "interp-q")
        if form == 0:
            return Sc("${%s}" % r, "sym")
        if form == 1:
            return Sc("pre ${%s} post" % r, "interp")
        if form == 2:
            r2 = rng.choice(refs) if refs else "nope"
            return Sc("${%s} ${%s}" % (r, r2), "interp2")
        if form == 3:
            return Sc("%s ${%s}" % (rng.choice(NONASCII_WORDS), r), "interp-na")
        if form == 4:
            return Sc("x\t${%s}" % r, "interp-tab", flow_ok=False)
        if form == 5 and not getattr(rng, "safe", False):
            return Sc("${%s" % r, "interp-open")
        if form == 6:
            return Sc("$${%s} ${%s}" % (r, r), "interp-esc")
        return Sc("${%s}" % r, "sym")
    if flow:
        return Sc(rng.choice(ASCII_WORDS + NONASCII_WORDS), "plain")
    if k < 74:
        second = rng.choice(["more", "wörld", "${%s}" % (rng.choice(refs) if refs else "nope"), "and so on"])
        return Sc(rng.choice(ASCII_WORDS + NONASCII_WORDS), "multi", flow_ok=False, cont=[second])
    if k < 82:
        head = rng.choice(["|", "|-", "|+", "|2" if False else "|"])
        lines = [rng.choice(["line", "é", "keep", "a b"]) for _ in range(1 + rng.below(3))]
        if head == "|+":
            lines += [""] * rng.below(3)
        return Sc(head, "literal", flow_ok=False, cont=lines)
    if k < 87:
        return Sc(rng.choice([">", ">-"]), "folded", flow_ok=False, cont=[rng.choice(["folded", "téxt"]) for _ in range(1 + rng.below(3))])
    if k < 92:
        return Sc(rng.choice(["!!str 12", "!!str é", "!!int 3", "!!str ${a}", "!custom x"]), "tagged", flow_ok=False)
    if k < 96:
        return Sc("&a%d %s" % (rng.below(90), rng.choice(["1", "val", "${a}", "é"])), "anchored", flow_ok=False)
    if k < 98 and not getattr(rng, "safe", False):
        return Sc("*nope", "alias", flow_ok=False)
    return Sc(rng.choice(["{}", "[]"]), "empty")


DOLLAR_PIECES = ["$", "$$", "$x", "a$", "$5", "é$", "$é", "€$", "$$$", "a$b", "$$x", "x$$", "$ $", "ü"]
ACCESS_TAILS = ["", "", ".y", "[0]", '["k"]', ".y[1]", '["a b"].z', ".caf\u00e9", ".\u043a\u043b\u044e\u0447.x", '["\u00e9"].y', ".\u00fc[0]"]


def dollar_text(rng, refs):
    """literal text with lone `$`, `$$`, `$x`, `a$` ... pieces BEFORE (and between) interpolations of one scalar"""
    def ref():
        r = rng.choice(refs) if refs and not rng.chance(1, 6) else rng.choice(["nobody", "zz"])
        return "${%s%s}" % (r, rng.choice(ACCESS_TAILS))
    parts = [rng.choice(DOLLAR_PIECES) for _ in range(1 + rng.below(3))]
    parts.append(ref())
    if rng.chance(1, 2):
        parts += [rng.choice(DOLLAR_PIECES) for _ in range(rng.below(3))]
        parts.append(ref())
    if rng.chance(1, 4):
        parts.append(rng.choice(DOLLAR_PIECES))
    if parts[0] == "ü" or rng.chance(1, 5):
        parts.insert(0, rng.choice(["costs", "é", "x"]))
    return " ".join(parts)


def dollar_scalar(rng, refs, flow):
    t = dollar_text(rng, refs)
    q = rng.below(6)
    if flow or q == 0:
        return Sc('"' + t.replace('"', "'") + '"', "dollar-dq")
    if q == 1:
        return Sc("'" + t.replace("'", "") + "'", "dollar-sq")
    return Sc(t, "dollar-plain", flow_ok=False)


def key_text(rng, used):
    for _ in range(20):
        k = rng.choice(NONASCII_KEYS) if rng.chance(1, 5) else rng.choice(KEYS)
        if rng.chance(1, 12):
            k = '"%s"' % k
        if k.strip('"') not in used:
            used.add(k.strip('"'))
            return k
    k = "k%d" % len(used)
    used.add(k)
    return k


def flow_value(rng, refs, depth):
    if depth < 2 and rng.chance(1, 4):
        if rng.chance(1, 2):
            used = set()
            items = ["%s: %s" % (key_text(rng, used), flow_value(rng, refs, depth + 1)) for _ in range(rng.below(4))]
            sep = ",\t" if rng.chance(1, 12) else ", "
            return "{" + sep.join(items) + "}"
        return "[" + ", ".join(flow_value(rng, refs, depth + 1) for _ in range(rng.below(4))) + "]"
    for _ in range(10):
        s = scalar(rng, refs, flow=True)
        if s.flow_ok and s.cont is None and s.kind not in ("empty",):
            return s.text
    return "x"


def comment(rng):
    if rng.chance(1, 6):
        return rng.choice([" # c", " # é", "\t# tab", "  # x y"])
    return ""


def block_entry_lines(rng, prefix, indent, refs, depth):
    """lines for `<prefix><value>` where prefix is e.g. '  k: ' or '  - ' (value may continue on following lines)"""
    k = rng.below(100)
    pad = " " * indent
    if depth < 3 and k < 16:
        # nested block mapping on following lines
        n = 1 + rng.below(3)
        used = set()
        lines = [prefix.rstrip() + comment(rng)]
        for _ in range(n):
            lines += block_entry_lines(rng, pad + "  " + key_text(rng, used) + ": ", indent + 2, refs, depth + 1)
        return lines
    if depth < 3 and k < 26:
        n = 1 + rng.below(3)
        lines = [prefix.rstrip()]
        for _ in range(n):
            lines += block_entry_lines(rng, pad + "  - ", indent + 2, refs, depth + 1)
        return lines
    if k < 44:
        return [prefix + flow_value_top(rng, refs) + comment(rng)]
    if depth < 3 and k < 52:
        return builtin_lines(rng, prefix, indent, refs, depth)
    s = scalar(rng, refs)
    if s.cont is None:
        c = comment(rng) if s.kind not in ("interp-open",) else ""
        return [prefix + s.text + c]
    lines = [prefix + s.text]
    for t in s.cont:
        lines.append((pad + "    " + t) if t else "")
    return lines


def flow_value_top(rng, refs):
    if rng.chance(1, 2):
        used = set()
        items = ["%s: %s" % (key_text(rng, used), flow_value(rng, refs, 1)) for _ in range(rng.below(4))]
        sep = ",\t" if rng.chance(1, 10) else ", "
        return "{" + sep.join(items) + "}"
    return "[" + ", ".join(flow_value(rng, refs, 1) for _ in range(rng.below(4))) + "]"


def builtin_lines(rng, prefix, indent, refs, depth):
    pad = " " * indent
    r = rng.choice(refs) if refs else "nope"
    k = rng.below(7 if getattr(rng, "safe", False) else 9)
    if k == 0:
        return [prefix + '{fn::join: [",", ["${%s}", b, é]]}' % r]
    if k == 1:
        return [prefix.rstrip(), pad + "  fn::join:", pad + '    - ","', pad + "    - [x, ${%s}]" % r if False else pad + "    - [x, y]"]
    if k == 2:
        return [prefix.rstrip(), pad + "  fn::toJSON:"] + block_entry_lines(rng, pad + "    " + "q: ", indent + 4, refs, depth + 2)
    if k == 3:
        return [prefix.rstrip(), pad + "  fn::toString: ${%s}" % r]
    if k == 4:
        return [prefix.rstrip(), pad + "  fn::toBase64: " + rng.choice(["abc", "é", "${%s}" % r])]
    if k == 5:
        return [prefix.rstrip(), pad + "  fn::secret: " + rng.choice(["hunter2", "pässword", '"q"'])]
    if k == 6:
        return [prefix.rstrip(), pad + "  fn::open::test:", pad + "    a: ${%s}" % r, pad + "    é: 1"]
    if k == 7:
        return [prefix + "{fn::bogus: 1}"]
    return [prefix + "{fn::join: %s}" % rng.choice(["1", "[a]", '[",", 2]'])]


def gen_env(rng, imports, refs_in, final_nl=None, nvals=None):
    lines = []
    if rng.chance(1, 8):
        lines.append(rng.choice(["# header", "# é header", "---", ""]))
    if imports:
        lines.append("imports:")
        for i in imports:
            if rng.chance(1, 6):
                lines += ["  - %s:" % i, "      merge: %s" % rng.choice(["false", "true"])]
            else:
                lines.append("  - " + i)
    n = nvals if nvals is not None else 1 + rng.below(6)
    used = set()
    keys = [key_text(rng, used) for _ in range(n)]
    # unquoted names may be non-ASCII (bytes 0x85 / 0xA0 end a name in this parser: such keys are not used as references)
    refs = list(refs_in) + [k.strip('"') for k in keys if not k.startswith('"') and (k.isascii() or (
        k.isalpha() and not any(b in (0x85, 0xA0) for b in k.encode("utf-8"))))]
    if n:
        lines.append("values:")
    for k in keys:
        lines += block_entry_lines(rng, "  " + k + ": ", 2, refs, 0)
        if rng.chance(1, 15):
            lines.append("")
    text = "\n".join(lines)
    if final_nl is None:
        final_nl = rng.chance(1, 2)
    if final_nl:
        text += "\n"
    return text, [k.strip('"') for k in keys if k.isascii()]


# ---------------------------------------------------------------------------------------------------
REGRESSION = [
    # last line without a final newline
    {"envs": {"m": "values:\n  k: last"}},
    {"envs": {"m": "# c\nvalues:\n  a: 1"}},
    # byte length used as character count
    {"envs": {"m": "values:\n  é: {ü: héllo, z: 1}\n"}},
    # block literal: end outside the text
    {"envs": {"m": "values:\n  some_long_key_name: |\n    a\n"}},
    {"envs": {"m": "values:\n  a: |+\n    x\n\n\n"}},
    # multi-line plain scalar, accessor inside it
    {"envs": {"m": "values:\n  a: hello\n    world\n  b: 1\n"}},
    {"envs": {"m": "values:\n  a: 1\n  b: foo\n    ${a}"}},
    {"envs": {"m": "values:\n  a: 1\n  b: foo         \n    ${a}\n"}},
    # TAB on a non-ASCII line
    {"envs": {"m": "values:\n  é: {a: \"x\ty\", b: c}\n"}},
    {"envs": {"m": "values:\n  a: {é: x,\tb: c}\n"}},
    # TAB inside a plain scalar before an accessor
    {"envs": {"m": "values:\n  a: 1\n  b: x\t${a}\n"}},
    # literal `$` before an interpolation in the same scalar (offset accounting of parseInterpolate)
    {"envs": {"m": "values:\n  price: 5\n  label: costs $5 or ${price}\n"}},
    {"envs": {"m": "values:\n  p: {q: [1]}\n  é: a$ b$ ${p.q[0]} $ ${p[\"q\"]}\n  s:\n    - $x $$ é$ ${p}"}},
    {"envs": {"m": "values:\n  label: é$ $5 ${nobody} and $ ${zz.y}\n  q: \"$5 ${label}\"\n  r: '$ ${label}'"}},
    {"envs": {"m": "imports:\n  - base\nvalues:\n  x: ${label}", "base": "values:\n  label: costs $5 or ${nobody}\n"}},
    # anchored / tagged scalars
    {"envs": {"m": "values:\n  f: &x 1\n  g: &y ${f}\n  h: !!str ${f}\n"}},
    # quoted, folded
    {"envs": {"m": "values:\n  a: \"x\\u00e9\"\n  b: 'it''s'\n  c: \"q\n    r\"\n"}},
    {"envs": {"m": "values:\n  a: >\n    folded\n    text\n  b: >-\n    x\n"}},
    # imports, bases
    {"envs": {"m": "imports:\n  - a\nvalues:\n  x: ${y}\n  z: {q: 1}", "a": "values:\n  y: {é: 1}\n  z: {p: ü}"}},
    {"envs": {"m": "imports:\n  - nope\n  - a\nvalues:\n  x: {y: 2}\n", "a": "values:\n  x: {y: 1, z: [1, ü]}"}, "mode": "eval"},
    # erroneous programs
    {"envs": {"m": "values:\n  a: 1\n  b: ${zz} ${a.b}\n  g: ${a[0]}\n  h: ${b"}},
    {"envs": {"m": "values:\n  i: {fn::join: 1}\n  j: ${j}\n  e: {fn::bogus: 1}"}},
    {"envs": {"m": "values:\n  a: &x 1\n  g: *x\n"}},
    {"envs": {"m": "values:\n  1: x\n  é: ${nope}"}},
    {"envs": {"m": "values:\n  c:\n    fn::join: [\",\", [x, b]]\n  d:\n    fn::toJSON: {é: \"${c}\"}\n  e:\n    fn::secret: hunter2\n  f:\n    fn::open::test: {a: b}\n  g: ${f.x}\n  h: ${d[0]}"}},
]


def family(thorough):
    """exhaustive small family: one probe scalar in every place, with every kind of text before it on its line"""
    forms = ["abc", "héllo", "a𐀀", "€", "two words", "${a}", "x ${a} é", "42", '"q"', "'s'", "!!str t", "&an v",
             "$5 ${a}", "a$ $$ ${a}", "é$ $x ${a.y} $ ${a}", "x$$ ${a}"]
    cases = []
    for f in forms:
        for nl in ("\n", ""):
            flow_ok = not ("${" in f or f.startswith("!!") or f.startswith("&"))
            docs = [
                "values:\n  a: 1\n  k: %s" % f,                       # block value, last entry
                "values:\n  k: %s\n  a: 1" % f,                       # block value, first entry
                "values:\n  a: 1\n  é: %s" % f,                       # non-ASCII key before
                "values:\n  a: 1\n  k:\t%s" % f,                      # TAB before (ASCII line)
                "values:\n  a: 1\n  s:\n    - %s\n    - é" % f,       # block sequence element
                "values:\n  a: 1\n  n:\n    é:\n      - k: %s" % f,   # nested
                "values:\n  a: 1\n  k: %s # é" % f,                   # non-ASCII comment after
            ]
            if flow_ok:
                docs += [
                    "values:\n  a: 1\n  m: {x: %s}" % f,
                    "values:\n  a: 1\n  m: {é: ü, x: %s, y: z}" % f,
                    "values:\n  a: 1\n  m: [é, %s, z]" % f,
                    "values:\n  a: 1\n  m: {x: \"\t\", é: %s}" % f,    # TAB and non-ASCII before
                    "values:\n  a: 1\n  m: {%s: v, w: %s}" % (f, f) if f[0] not in "\"'4" else "values:\n  a: 1\n  m: {k: %s}" % f,
                ]
            if f[0] not in "$&!x" and " " not in f and "$" not in f:
                docs.append("values:\n  a: 1\n  %s: v\n  z: {%s: w}" % (f, f))   # as a key
            for d in docs:
                cases.append({"envs": {"m": d + nl}})
    return cases


def gen(rng, tier):
    thorough = tier == "thorough"
    cases = []
    for r in REGRESSION:
        cases.append({"envs": dict(r["envs"]), "main": "m", "mode": r.get("mode", "check")})
    for c in family(thorough):
        cases.append({"envs": c["envs"], "main": "m", "mode": "check"})
    n = 20000 if thorough else 700
    for i in range(n):
        g = rng.fork("doc%d" % i)
        envs = {}
        nimp = g.choice([0, 0, 0, 1, 1, 2])
        names = ["imp%d" % j for j in range(nimp)]
        refs = []
        for j, nm in enumerate(names):
            sub = [names[j - 1]] if j > 0 and g.chance(1, 3) else []
            if g.chance(1, 25):
                sub = [nm]          # self import: cyclic
            gi = g.fork(nm)
            gi.safe = not g.chance(1, 30)      # an import that does not load is a crash of its own (C07)
            t, ks = gen_env(gi, sub, refs)
            envs[nm] = t
            refs += ks
        imports = list(names)
        if g.chance(1, 15):
            imports.append("missing-env")
        t, _ = gen_env(g.fork("main"), imports, refs)
        envs["m"] = t
        cases.append({"envs": envs, "main": "m", "mode": "eval" if g.chance(1, 3) else "check"})
    return cases


# ---------------------------------------------------------------------------------------------------
def prepare(c):
    return {"envs": {k: v.encode("utf-8").hex() for k, v in c["envs"].items()}, "main": c.get("main", "m"),
            "mode": c.get("mode", "check")}


def line(c, o):
    if "crash" in o or "panic" in o or "docs" not in o:
        return "(crash)"
    docs = []
    for d in o["docs"]:
        text = c["envs"][d["name"]].encode("utf-8")
        nodes = " ".join("(n %d %d %d %d x%s x%s %d %s)" % (n["line"], n["col"], n["kind"], n["style"], n["tag"], n["value"],
                                                             n["last"], "t" if n.get("anch") else "f") for n in d["nodes"])
        docs.append("(d %s %s (%s))" % (C.sx(d["name"]), C.sx(text), nodes))
    rs = []
    for r in o["ranges"]:
        b, e = r["b"], r["e"]
        acc = ""
        if "key" in r:
            acc = " (k x%s)" % r["key"]
        elif "index" in r:
            acc = " (i %d)" % r["index"]
        rs.append("(r %s %s %d %d %d %d %d %d %d%s)" % (r["what"], C.sx(r["env"]), r["node"], b[0], b[1], b[2], e[0], e[1], e[2], acc))
    return "(c19 (%s) (%s))" % (" ".join(docs), " ".join(rs))


def shrink(c):
    envs = c["envs"]
    main = c.get("main", "m")
    # drop an imported environment that is not needed
    for k in list(envs):
        if k != main:
            d = dict(c, envs={a: b for a, b in envs.items() if a != k})
            d.pop("id", None)
            yield d
    # drop one line of one document (largest documents first)
    for k in sorted(envs, key=lambda k: -len(envs[k])):
        ls = envs[k].split("\n")
        for i in range(len(ls)):
            if ls[i] in ("values:", "imports:"):
                continue
            t = "\n".join(ls[:i] + ls[i + 1:])
            if t.strip():
                d = dict(c, envs=dict(envs, **{k: t}))
                d.pop("id", None)
                yield d
    if c.get("mode") == "eval":
        d = dict(c, mode="check")
        d.pop("id", None)
        yield d


def describe(c):
    return {"envs": c["envs"], "mode": c.get("mode", "check")}


def distribution(cases, r):
    d = {}

    def inc(k, n=1):
        d[k] = d.get(k, 0) + n

    for c, o in zip(cases, r["obs"]):
        if "docs" not in o:
            inc("crash-or-panic")
            continue
        st = o.get("status", {}).get(c.get("main", "m"), "?")
        inc("root:" + st)
        inc("mode:" + c.get("mode", "check"))
        inc("envs:%d" % len(c["envs"]))
        m = c["envs"][c.get("main", "m")]
        inc("final-newline:" + ("yes" if m.endswith("\n") else "no"))
        if any(not t.isascii() for t in c["envs"].values()):
            inc("has-non-ascii")
        if any("\t" in t for t in c["envs"].values()):
            inc("has-tab")
        for g in o["ranges"]:
            inc("range:" + g["what"] + (":resolved" if g["node"] >= 0 else ""))
        # yaml.v3's columns are code points: a plain scalar is found in the text at its (line, column)
        for dd in o["docs"]:
            ls = c["envs"][dd["name"]].split("\n")
            for n in dd["nodes"]:
                if n["kind"] == 8 and n["style"] == 0 and not n.get("anch"):
                    v = bytes.fromhex(n["value"]).decode("utf-8", "replace")
                    l = ls[n["line"] - 1] if 1 <= n["line"] <= len(ls) else ""
                    if v and l[n["col"] - 1:n["col"] - 1 + len(v)] == v:
                        inc("plain-scalar-nodes:text-at-yaml-position-is-the-value")
                    elif v:
                        inc("plain-scalar-nodes:multi-line-or-decorated")
    d["cases-with-known-class-failures"] = len(r.get("spec_fail_known", []))
    return d


def search(rng, info):
    cases = []
    for r in REGRESSION:
        cases.append({"envs": dict(r["envs"]), "main": "m", "mode": r.get("mode", "check")})
    for c in family(True):
        cases.append({"envs": c["envs"], "main": "m", "mode": "check"})
    for c in info.get("mismatch_cases", [])[:10]:
        for s in list(shrink(c))[:30]:
            cases.append(s)
    return cases


def model_show(c, o):
    return "see verdict bits; ranges=%d" % len(o.get("ranges", []))
