"""C14 — read-modify-write commands never lose a concurrent update.

A case: prior history (list of YAML definitions pushed one after the other onto a freshly created environment),
2..3 commands of the real CLI, and a schedule = one interleaving of their requests: a list of slots, each a
command index i or [i, fault]; the k-th slot of command i serves its k-th request whatever it is (slots of a
command that has ended are skipped), fault in lost (commit, answer 500) / drop (commit, close the connection) /
reject (400 with diagnostics, nothing committed) applies if that request is a PATCH.  The implementation side
(harness/cmd/implrun/c14.go) runs the commands concurrently in-process against a gated fake backend that serves
the requests in exactly the scheduled order."""
from .. import common as C

ID = "C14"
SRC_FACTS = ["occ_etag_header", "occ_get_returns_etag", "occ_update_sends_tag",
             "occ_update_with_project_forwards_tag", "occ_set_sites", "occ_rm_sites", "occ_edit_sites",
             "occ_should_retry_exact", "should_retry_table", "default_policy", "client_ops"]
BATCH = 60
IMPL_TIMEOUT = 600
COQ_SAMPLE = 120
RULE = ("exhaustive: every multiset of 2 commands over an alphabet of 12 commands ({set a|b|n.z|a.k, rm a|b|n.x, "
        "edit(editor sets a|c), edit --show-secrets(editor sets c), edit(editor empties the file), edit --file}) x EVERY "
        "interleaving of their GET/PATCH steps (6; 3 with one blind writer) x 3 prior histories (fresh empty environment "
        "at revision 1; one prior revision; three prior revisions with nested values and a comment); the regression corpus "
        "and a 4-command sub-alphabet also against a backend issuing weak validators (W/\"...\").  Fault families, "
        "each: command A = every one of the 12 kinds, other writer B (quick: set b, rm a, edit c, edit --file; thorough: "
        "all 12), A given one spare slot (two for an edit that saves twice) so that EVERY position of B's requests "
        "relative to A's requests - also requests the unchanged code does not make: a second read, a re-sent update - "
        "is scheduled: (lost) A's update is committed-if-accepted and answered 500 [drop: connection closed; quick only "
        "with B = set b]; (reject) A's update is refused with diagnostics, the interactive edits have one ENTER and save "
        "again (plus: no ENTER; both saves refused); (spare) no fault, the interactive kinds and set a / rm a with a "
        "spare slot.  quick: richest history only, plus a seeded sample of 3-command cases (a third of them with one "
        "fault); thorough: 3 histories, ALL interleavings (90; 30 / 12 with blind writers) of every multiset of 3 "
        "commands over the alphabet.  non-trivial = at least two updates reached the backend; distinct by case content")
ASSUMPTIONS = [
    "the fake backend enforces the service's tag contract: an update is applied iff it carries no tag or the ETag "
    "of the current revision, otherwise 409; tags are unique per revision (so a re-sent update is refused; with "
    "content-derived tags it could be accepted and undo another writer's update); GET and PATCH are atomic",
    "scripted faults: an update answered 500 / whose connection is dropped WAS processed (committed iff the tag rule "
    "accepts it); an update refused with diagnostics (400) commits nothing and is refused before the tag is looked at",
    "exit statuses: a command that ends with a plain error after an update whose reply was lost is neither a success "
    "nor a conflict - allowed whether or not the update was committed (it cannot know); the interactive edit that "
    "ends with 'Aborting edit.' (no ENTER left after a refused save) or 'Aborting edit due to empty definition.' "
    "exits 0 without a change - allowed (the person aborted)",
    "definitions are restricted to mappings with string keys and string scalars (path edits in general are C15); "
    "`rm a.b` with a missing intermediate key (an index-out-of-range panic of YAMLSyntax.Delete today, C15) is "
    "modelled as a panic but not generated",
    "a command's exit status is read from the error cobra returns (409 -> conflict)",
    "the scripted editor makes the same change in every round (it is idempotent on the text), so the text saved after "
    "a refused save equals the refused text; the model applies the script once per round all the same",
]
TRUSTED = ["the gated fake ESC backend and the in-process command runner (harness/cmd/implrun/c14.go): request "
           "order = schedule, faults, request log, tag bookkeeping",
           "net/http, cobra, yaml.v3, os/exec of the editor: exercised, not modelled"]

# ------------------------------------------------------------------------------------------------
# trees: None | str | dict


def yaml_of(t, indent=0):
    """block-style YAML of a tree (string scalars are plain words)"""
    if t is None:
        return ""
    out = []
    for k in t:
        v = t[k]
        if isinstance(v, dict):
            if v:
                out.append(" " * indent + k + ":\n" + yaml_of(v, indent + 2))
            else:
                out.append(" " * indent + k + ": {}\n")
        elif v is None:
            out.append(" " * indent + k + ": null\n")
        else:
            out.append(" " * indent + k + ": " + v + "\n")
    return "".join(out)


def sx_tree(t):
    if t is None:
        return "n"
    if isinstance(t, str):
        return "(s %s)" % C.sx(t)
    if isinstance(t, dict):
        items = sorted(t.items(), key=lambda kv: kv[0].encode())
        return "(m" + "".join(" (%s %s)" % (C.sx(k), sx_tree(v)) for k, v in items) + ")"
    return "bad"


# histories: (list of YAML texts pushed in order, tree of the last one)
H0 = {"yamls": [], "tree": None}
H1 = {"yamls": ["values:\n  a: v0\n"], "tree": {"values": {"a": "v0"}}}
H2_TREE = {"values": {"b": "v9", "a": "v0", "n": {"x": "p", "y": "q"}}}
H2 = {"yamls": ["values:\n  a: old\n", "values:\n  a: v0\n  n:\n    x: p\n",
                "# shared settings\n" + yaml_of(H2_TREE)], "tree": H2_TREE}
HISTS = [H0, H1, H2]

FILE_TREE = {"values": {"f": "g"}}
OPS = [
    {"k": "set", "path": "a", "val": "v1"},
    {"k": "set", "path": "b", "val": "v2"},
    {"k": "set", "path": "n.z", "val": "v3"},
    {"k": "rm", "path": "a"},
    {"k": "edit", "key": "a", "val": "w1"},
    {"k": "edit", "key": "c", "val": "w2"},
    {"k": "rm", "path": "n.x"},
    {"k": "file", "yaml": yaml_of(FILE_TREE), "tree": FILE_TREE},
    {"k": "rm", "path": "b"},
    {"k": "abort"},
    {"k": "set", "path": "a.k", "val": "v4"},
    {"k": "edit", "key": "c", "val": "w3", "secrets": True},
]
SMALL = len(OPS)  # alphabet of the exhaustive 3-command family: all of them
FAULT_B = [1, 3, 5, 7]      # the other writer of the fault families in quick: set b, rm a, edit c, edit --file
SPARE_A = [0, 3, 4, 5, 9, 11]  # no-fault family with a spare slot: set a, rm a, edit a, edit c, abort, edit --show-secrets


def steps(op):
    return 1 if op["k"] == "file" else 2


def slot_cmd(x):
    return x[0] if isinstance(x, list) else x


def slot_fault(x):
    return x[1] if isinstance(x, list) else "none"


def with_fault(sched, cmd, nth, fault):
    """put `fault` on the nth (0-based) slot of command cmd"""
    out, seen = [], 0
    for x in sched:
        if slot_cmd(x) == cmd:
            out.append([cmd, fault] if seen == nth else x)
            seen += 1
        else:
            out.append(x)
    return out


def top_key(op):
    if op["k"] in ("set", "rm"):
        return op["path"].split(".")[0]
    if op["k"] == "edit":
        return op["key"]
    return None


def clobbers(op, key):
    """may remove or replace the whole top-level entry `key` of values"""
    if op["k"] == "file":
        return True
    if op["k"] in ("set", "rm"):
        return op["path"] == key
    if op["k"] == "edit":
        return op["key"] == key
    return False


def admissible(hist, ops):
    """keep `rm x.y` away from a missing intermediate key (C15's panic)"""
    for i, o in enumerate(ops):
        if o["k"] == "rm" and "." in o["path"]:
            k = o["path"].split(".")[0]
            vals = (hist["tree"] or {}).get("values")
            if not isinstance(vals, dict) or not isinstance(vals.get(k), dict):
                return False
            if any(clobbers(p, k) for j, p in enumerate(ops) if j != i):
                return False
    return True


def interleavings(counts):
    """all distinct sequences with counts[i] occurrences of i"""
    out = []

    def go(prefix, left):
        if not any(left):
            out.append(list(prefix))
            return
        for i, n in enumerate(left):
            if n:
                left[i] -= 1
                prefix.append(i)
                go(prefix, left)
                prefix.pop()
                left[i] += 1
    go([], list(counts))
    return out


def multisets(n, k, start=0):
    if k == 0:
        yield []
        return
    for i in range(start, n):
        for rest in multisets(n, k - 1, i):
            yield [i] + rest


def mk(hist_i, op_idx, sched, enters=None):
    """cases are self-contained (a replay file is a concrete input): history texts + their tree, commands, schedule;
    enters: {position of an interactive edit: number of ENTER presses the person has}"""
    h = HISTS[hist_i]
    ops = [dict(OPS[i]) for i in op_idx]
    for i, n in (enters or {}).items():
        if ops[i]["k"] == "edit":
            ops[i]["enters"] = n
    return {"hist": list(h["yamls"]), "tree": h["tree"], "ops": ops, "sched": list(sched)}


def fault_families(tier):
    """(hist, [A, B], schedule, enters) of the exhaustive fault families: A = ops[0] is the faulted command"""
    hists = [2] if tier == "quick" else [0, 1, 2]
    for h in hists:
        for a in range(len(OPS)):
            A = OPS[a]
            na = steps(A)
            inter = A["k"] == "edit"
            for b in (FAULT_B if tier == "quick" else range(len(OPS))):
                B = OPS[b]
                if not admissible(HISTS[h], [A, B]):
                    continue
                nb = steps(B)
                # lost / drop: A's update (its last nominal request) is processed and the reply never arrives; one
                # spare slot for a re-sent update
                for s in interleavings([na + 1, nb]):
                    yield h, [a, b], with_fault(s, 0, na - 1, "lost"), None
                    if tier != "quick" or b == 1:
                        yield h, [a, b], with_fault(s, 0, na - 1, "drop"), None
                # reject: A's update is refused with diagnostics
                if inter:
                    # one ENTER: read, save (refused), [spare: a re-read], save
                    for s in interleavings([na + 2, nb]):
                        yield h, [a, b], with_fault(s, 0, na - 1, "reject"), {0: 1}
                    if tier != "quick" or b == 1:
                        for s in interleavings([na + 1, nb]):
                            # no ENTER: "Aborting edit."
                            yield h, [a, b], with_fault(s, 0, na - 1, "reject"), {0: 0}
                            # one ENTER, both saves refused
                            yield h, [a, b], with_fault(with_fault(s, 0, na - 1, "reject"), 0, na, "reject"), {0: 1}
                else:
                    for s in interleavings([na + 1, nb]):
                        yield h, [a, b], with_fault(s, 0, na - 1, "reject"), None
                # spare: no fault, one spare slot between any two requests of A
                if a in SPARE_A or tier != "quick":
                    for s in interleavings([na + 1, nb]):
                        yield h, [a, b], s, ({0: 1} if inter else None)


def hist_of(c):
    return {"yamls": c["hist"], "tree": c["tree"]}


def gen(rng, tier):
    cases = []
    # regression corpus first: the classic lost update shape, a blind writer in between, same-key writers
    for h in range(3):
        cases.append(mk(h, [0, 1], [0, 1, 0, 1]))
        cases.append(mk(h, [3, 4], [0, 1, 1, 0]))
        cases.append(mk(h, [0, 7, 5], [0, 2, 1, 0, 2]))
    # the same shapes against a backend whose tags are weak validators (W/"...")
    for c in list(cases):
        cases.append(dict(c, weak=True))
    for ms in multisets(len(FAULT_B), 2):
        ops = [OPS[FAULT_B[i]] for i in ms]
        if admissible(HISTS[1], ops):
            for s in interleavings([steps(o) for o in ops]):
                cases.append(dict(mk(1, [FAULT_B[i] for i in ms], s), weak=True))
    # exhaustive 2-command family
    for h in range(3):
        for ms in multisets(len(OPS), 2):
            ops = [OPS[i] for i in ms]
            if not admissible(HISTS[h], ops):
                continue
            for s in interleavings([steps(o) for o in ops]):
                cases.append(mk(h, ms, s))
    # exhaustive fault families
    for h, ms, sched, enters in fault_families(tier):
        cases.append(mk(h, ms, sched, enters))
    if tier == "thorough":
        for h in range(3):
            for ms in multisets(SMALL, 3):
                ops = [OPS[i] for i in ms]
                if not admissible(HISTS[h], ops):
                    continue
                for s in interleavings([steps(o) for o in ops]):
                    cases.append(mk(h, ms, s))
        n_rand = 1500
    else:
        n_rand = 300
    # seeded sample of 3-command cases over the whole alphabet (in random command order); every third one with a
    # fault on one command's update and a spare slot for that command
    r = rng.fork("triples")
    while n_rand > 0:
        h = r.below(3)
        ms = [r.below(len(OPS)) for _ in range(3)]
        ops = [OPS[i] for i in ms]
        if not admissible(HISTS[h], ops):
            continue
        counts = [steps(o) for o in ops]
        enters = None
        victim = fault = None
        if n_rand % 3 == 0:
            victim = r.below(3)
            fault = ["lost", "drop", "reject"][r.below(3)]
            counts[victim] += 1
            if fault == "reject" and ops[victim]["k"] == "edit":
                counts[victim] += 1
                enters = {victim: 1}
        sched = r.shuffle([i for i, n in enumerate(counts) for _ in range(n)])
        if victim is not None:
            sched = with_fault(sched, victim, steps(ops[victim]) - 1, fault)
        cases.append(mk(h, ms, sched, enters))
        n_rand -= 1
    return cases


def prepare(c):
    return {"hist": c["hist"], "ops": c["ops"], "sched": c["sched"], "weak": bool(c.get("weak"))}


def sx_op(o):
    k = o["k"]
    if k == "set":
        return "(set (%s) (s %s))" % (" ".join(C.sx(p) for p in o["path"].split(".")), C.sx(o["val"]))
    if k == "rm":
        return "(rm (%s))" % " ".join(C.sx(p) for p in o["path"].split("."))
    if k == "edit":
        return "(edit %s %s %s %d)" % (C.sx(o["key"]), C.sx(o["val"]), "t" if o.get("secrets") else "f",
                                       int(o.get("enters", 0)))
    if k == "abort":
        return "(abort)"
    return "(file %s)" % sx_tree(o.get("tree"))


def sx_tag(t):
    if t == -1:
        return "none"
    if isinstance(t, int) and t >= 0:
        return str(t)
    return "bad"


def line(c, o):
    irev = 1 + len(c["hist"])
    head = "(c14 %s %d (%s) (%s)" % (sx_tree(c["tree"]), irev, " ".join(sx_op(o) for o in c["ops"]),
                                   " ".join("(%d %s)" % (slot_cmd(x), slot_fault(x)) for x in c["sched"]))
    if o.get("res") != "ran":
        # crash / hang / harness refusal: an observation that agrees with nothing
        return head + " () (%s) n 0 f)" % " ".join("other" for _ in c["ops"])
    reqs = []
    for r in o.get("reqs") or []:
        if r.get("kind") == "get":
            reqs.append("(get %d %s %d %s)" % (r["cmd"], sx_tree(r.get("def")), r["tag"], "t" if r.get("dec") else "f"))
        else:
            f = r.get("fault")
            reqs.append("(patch %d %s %s %s %s %d %s %s %d)" % (
                r["cmd"], sx_tag(r["tag"]), "t" if r.get("status") == "ok" else "f",
                f if f in ("none", "lost", "drop", "reject") else "bad", sx_tree(r.get("before")),
                r["brev"], sx_tree(r.get("body")), sx_tree(r.get("after")), r["arev"]))
    outs = [s if s in ("ok", "conflict", "err", "panic") else "other" for s in o.get("out") or []]
    clean = not o.get("extra") and not o.get("stuck")
    return head + " (%s) (%s) %s %d %s)" % (" ".join(reqs), " ".join(outs), sx_tree(o.get("final")),
                                             o.get("frev", 0), "t" if clean else "f")


def shrink(c):
    """drop one command (never below two: a lost update needs two writers), drop a fault, drop a slot, fewer ENTER
    presses, then simplify the history"""
    n = len(c["ops"])
    if n > 2:
        for d in range(n):
            ops = [x for i, x in enumerate(c["ops"]) if i != d]
            sched = []
            for x in c["sched"]:
                i = slot_cmd(x)
                if i == d:
                    continue
                j = i - (1 if i > d else 0)
                sched.append([j, slot_fault(x)] if isinstance(x, list) else j)
            if admissible(hist_of(c), ops):
                yield dict(c, ops=ops, sched=sched)
    for p, x in enumerate(c["sched"]):
        if isinstance(x, list):
            yield dict(c, sched=c["sched"][:p] + [x[0]] + c["sched"][p + 1:])
    # a spare slot (never below the requests the unchanged code makes: GET and PATCH, PATCH for edit --file)
    have = {}
    for x in c["sched"]:
        have[slot_cmd(x)] = have.get(slot_cmd(x), 0) + 1
    for p in range(len(c["sched"]) - 1, -1, -1):
        i = slot_cmd(c["sched"][p])
        if i < n and have.get(i, 0) > steps(c["ops"][i]):
            yield dict(c, sched=c["sched"][:p] + c["sched"][p + 1:])
    for i, o in enumerate(c["ops"]):
        if o.get("enters", 0) > 0:
            ops = [dict(x) for x in c["ops"]]
            ops[i]["enters"] = o["enters"] - 1
            yield dict(c, ops=ops)
    if c["hist"] != H1["yamls"] and admissible(H1, c["ops"]):
        yield dict(c, hist=list(H1["yamls"]), tree=H1["tree"])


def describe(c):
    return {"history": c["hist"], "commands": c["ops"], "schedule": c["sched"], "weak_tags": bool(c.get("weak"))}


def distribution(cases, r):
    d = {}
    for c, o in zip(cases, r["obs"]):
        outs = o.get("out") or ["crash"]
        k = "%dcmd:" % len(c["ops"]) + ",".join(sorted(str(x) for x in outs))
        d[k] = d.get(k, 0) + 1
    d["conflicts_total"] = sum(1 for o in r["obs"] for x in (o.get("out") or []) if x == "conflict")
    for f in ("lost", "drop", "reject"):
        d["cases_with_" + f] = sum(1 for c in cases if any(slot_fault(x) == f for x in c["sched"]))
        d["updates_" + f] = sum(1 for o in r["obs"] for q in (o.get("reqs") or []) if q.get("fault") == f)
    d["updates_committed_reply_lost"] = sum(1 for o in r["obs"] for q in (o.get("reqs") or [])
                                            if q.get("fault") in ("lost", "drop") and q.get("status") == "ok")
    d["cases_with_spare_slot"] = sum(1 for c in cases if len(c["sched"]) > sum(steps(o) for o in c["ops"]))
    return d


def search(rng, info):
    """targeted search when an obligation (e.g. a source fact about the tag) or the correspondence breaks: the
    whole 2-command family plus a sample of 3-command schedules"""
    return gen(rng.fork("search"), "quick")
