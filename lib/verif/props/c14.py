"""C14 — read-modify-write commands never lose a concurrent update.

A case: prior history (list of YAML definitions pushed one after the other onto a freshly created environment),
2..3 commands of the real CLI, and a schedule = one interleaving of their GET/PATCH steps.  The implementation
side (harness/cmd/implrun/c14.go) runs the commands concurrently in-process against a gated fake backend that
serves the requests in exactly the scheduled order."""
from .. import common as C

ID = "C14"
SRC_FACTS = ["occ_etag_header", "occ_get_returns_etag", "occ_update_sends_tag",
             "occ_update_with_project_forwards_tag", "occ_set_sites", "occ_rm_sites", "occ_edit_sites"]
BATCH = 60
IMPL_TIMEOUT = 600
COQ_SAMPLE = 120
RULE = ("exhaustive: every multiset of 2 commands over an alphabet of 11 commands ({set a|b|n.z|a.k, rm a|b|n.x, "
        "edit(editor sets a|c), edit(editor empties the file), edit --file}) x EVERY interleaving of their GET/PATCH "
        "steps (6; 3 with one blind writer) x 3 prior histories (fresh empty environment at revision 1; one prior "
        "revision; three prior revisions with nested values and a comment); quick adds a seeded sample of "
        "3-command cases, thorough ALL interleavings (90; 30 / 12 with blind writers) of every multiset of 3 commands "
        "over the same alphabet x 3 histories.  non-trivial = at least two updates reached the backend; distinct by case content")
ASSUMPTIONS = [
    "the fake backend enforces the service's tag contract: an update is applied iff it carries no tag or the ETag "
    "of the current revision, otherwise 409; tags are unique per revision; GET and PATCH are atomic",
    "definitions are restricted to mappings with string keys and string scalars (path edits in general are C15); "
    "`rm a.b` with a missing intermediate key (an index-out-of-range panic of YAMLSyntax.Delete today, C15) is "
    "modelled as a panic but not generated",
    "a command's exit status is read from the error cobra returns (409 -> conflict)",
]
TRUSTED = ["the gated fake ESC backend and the in-process command runner (harness/cmd/implrun/c14.go): request "
           "order = schedule, request log, tag bookkeeping",
           "net/http, cobra, yaml.v3, os/exec of the editor: exercised, not modelled"]

# ------------------------------------------------------------------------------------------------
# trees: None | str | dict


def yaml_of(t, indent=0):
    """block-style YAML of a tree (string scalars are plain words)"""
    if t is None:
        return ""
    out = []
    for k in t:
        v = t[k]
        if isinstance(v, dict):
            if v:
                out.append(" " * indent + k + ":\n" + yaml_of(v, indent + 2))
            else:
                out.append(" " * indent + k + ": {}\n")
        elif v is None:
            out.append(" " * indent + k + ": null\n")
        else:
            out.append(" " * indent + k + ": " + v + "\n")
    return "".join(out)


def sx_tree(t):
    if t is None:
        return "n"
    if isinstance(t, str):
        return "(s %s)" % C.sx(t)
    if isinstance(t, dict):
        items = sorted(t.items(), key=lambda kv: kv[0].encode())
        return "(m" + "".join(" (%s %s)" % (C.sx(k), sx_tree(v)) for k, v in items) + ")"
    return "bad"


# histories: (list of YAML texts pushed in order, tree of the last one)
H0 = {"yamls": [], "tree": None}
H1 = {"yamls": ["values:\n  a: v0\n"], "tree": {"values": {"a": "v0"}}}
H2_TREE = {"values": {"b": "v9", "a": "v0", "n": {"x": "p", "y": "q"}}}
H2 = {"yamls": ["values:\n  a: old\n", "values:\n  a: v0\n  n:\n    x: p\n",
                "# shared settings\n" + yaml_of(H2_TREE)], "tree": H2_TREE}
HISTS = [H0, H1, H2]

FILE_TREE = {"values": {"f": "g"}}
OPS = [
    {"k": "set", "path": "a", "val": "v1"},
    {"k": "set", "path": "b", "val": "v2"},
    {"k": "set", "path": "n.z", "val": "v3"},
    {"k": "rm", "path": "a"},
    {"k": "edit", "key": "a", "val": "w1"},
    {"k": "edit", "key": "c", "val": "w2"},
    {"k": "rm", "path": "n.x"},
    {"k": "file", "yaml": yaml_of(FILE_TREE), "tree": FILE_TREE},
    {"k": "rm", "path": "b"},
    {"k": "abort"},
    {"k": "set", "path": "a.k", "val": "v4"},
]
SMALL = len(OPS)  # alphabet of the exhaustive 3-command family: all of them


def steps(op):
    return 1 if op["k"] == "file" else 2


def top_key(op):
    if op["k"] in ("set", "rm"):
        return op["path"].split(".")[0]
    if op["k"] == "edit":
        return op["key"]
    return None


def clobbers(op, key):
    """may remove or replace the whole top-level entry `key` of values"""
    if op["k"] == "file":
        return True
    if op["k"] in ("set", "rm"):
        return op["path"] == key
    if op["k"] == "edit":
        return op["key"] == key
    return False


def admissible(hist, ops):
    """keep `rm x.y` away from a missing intermediate key (C15's panic)"""
    for i, o in enumerate(ops):
        if o["k"] == "rm" and "." in o["path"]:
            k = o["path"].split(".")[0]
            vals = (hist["tree"] or {}).get("values")
            if not isinstance(vals, dict) or not isinstance(vals.get(k), dict):
                return False
            if any(clobbers(p, k) for j, p in enumerate(ops) if j != i):
                return False
    return True


def interleavings(counts):
    """all distinct sequences with counts[i] occurrences of i"""
    out = []

    def go(prefix, left):
        if not any(left):
            out.append(list(prefix))
            return
        for i, n in enumerate(left):
            if n:
                left[i] -= 1
                prefix.append(i)
                go(prefix, left)
                prefix.pop()
                left[i] += 1
    go([], list(counts))
    return out


def multisets(n, k, start=0):
    if k == 0:
        yield []
        return
    for i in range(start, n):
        for rest in multisets(n, k - 1, i):
            yield [i] + rest


def mk(hist_i, op_idx, sched):
    """cases are self-contained (a replay file is a concrete input): history texts + their tree, commands, schedule"""
    h = HISTS[hist_i]
    return {"hist": list(h["yamls"]), "tree": h["tree"], "ops": [dict(OPS[i]) for i in op_idx], "sched": list(sched)}


def hist_of(c):
    return {"yamls": c["hist"], "tree": c["tree"]}


def gen(rng, tier):
    cases = []
    # regression corpus first: the classic lost update shape, a blind writer in between, same-key writers
    for h in range(3):
        cases.append(mk(h, [0, 1], [0, 1, 0, 1]))
        cases.append(mk(h, [3, 4], [0, 1, 1, 0]))
        cases.append(mk(h, [0, 7, 5], [0, 2, 1, 0, 2]))
    # exhaustive 2-command family
    for h in range(3):
        for ms in multisets(len(OPS), 2):
            ops = [OPS[i] for i in ms]
            if not admissible(HISTS[h], ops):
                continue
            for s in interleavings([steps(o) for o in ops]):
                cases.append(mk(h, ms, s))
    if tier == "thorough":
        for h in range(3):
            for ms in multisets(SMALL, 3):
                ops = [OPS[i] for i in ms]
                if not admissible(HISTS[h], ops):
                    continue
                for s in interleavings([steps(o) for o in ops]):
                    cases.append(mk(h, ms, s))
        n_rand = 1500
    else:
        n_rand = 400
    # seeded sample of 3-command cases over the whole alphabet (in random command order)
    r = rng.fork("triples")
    while n_rand > 0:
        h = r.below(3)
        ms = [r.below(len(OPS)) for _ in range(3)]
        ops = [OPS[i] for i in ms]
        if not admissible(HISTS[h], ops):
            continue
        sched = r.shuffle([i for i, o in enumerate(ops) for _ in range(steps(o))])
        cases.append(mk(h, ms, sched))
        n_rand -= 1
    return cases


def prepare(c):
    return {"hist": c["hist"], "ops": c["ops"], "sched": c["sched"]}


def sx_op(o):
    k = o["k"]
    if k == "set":
        return "(set (%s) (s %s))" % (" ".join(C.sx(p) for p in o["path"].split(".")), C.sx(o["val"]))
    if k == "rm":
        return "(rm (%s))" % " ".join(C.sx(p) for p in o["path"].split("."))
    if k == "edit":
        return "(edit %s %s)" % (C.sx(o["key"]), C.sx(o["val"]))
    if k == "abort":
        return "(abort)"
    return "(file %s)" % sx_tree(o.get("tree"))


def sx_tag(t):
    if t == -1:
        return "none"
    if isinstance(t, int) and t >= 0:
        return str(t)
    return "bad"


def line(c, o):
    irev = 1 + len(c["hist"])
    head = "(c14 %s %d (%s) (%s)" % (sx_tree(c["tree"]), irev, " ".join(sx_op(o) for o in c["ops"]),
                                   " ".join(str(i) for i in c["sched"]))
    if o.get("res") != "ran":
        # crash / hang / harness refusal: an observation that agrees with nothing
        return head + " () (%s) n 0 f)" % " ".join("other" for _ in c["ops"])
    reqs = []
    for r in o.get("reqs") or []:
        if r.get("kind") == "get":
            reqs.append("(get %d %s %d)" % (r["cmd"], sx_tree(r.get("def")), r["tag"]))
        else:
            reqs.append("(patch %d %s %s %s %d %s %s %d)" % (
                r["cmd"], sx_tag(r["tag"]), "t" if r.get("status") == "ok" else "f", sx_tree(r.get("before")),
                r["brev"], sx_tree(r.get("body")), sx_tree(r.get("after")), r["arev"]))
    outs = [s if s in ("ok", "conflict", "err", "panic") else "other" for s in o.get("out") or []]
    clean = not o.get("extra") and not o.get("stuck")
    return head + " (%s) (%s) %s %d %s)" % (" ".join(reqs), " ".join(outs), sx_tree(o.get("final")),
                                             o.get("frev", 0), "t" if clean else "f")


def shrink(c):
    """drop one command (never below two: a lost update needs two writers), then simplify the history"""
    n = len(c["ops"])
    if n <= 2:
        return
    for d in range(n):
        ops = [x for i, x in enumerate(c["ops"]) if i != d]
        sched = [i - (1 if i > d else 0) for i in c["sched"] if i != d]
        if admissible(hist_of(c), ops):
            yield dict(c, ops=ops, sched=sched)
    if c["hist"] != H1["yamls"] and admissible(H1, c["ops"]):
        yield dict(c, hist=list(H1["yamls"]), tree=H1["tree"])


def describe(c):
    return {"history": c["hist"], "commands": c["ops"], "schedule": c["sched"]}


def distribution(cases, r):
    d = {}
    for c, o in zip(cases, r["obs"]):
        outs = o.get("out") or ["crash"]
        k = "%dcmd:" % len(c["ops"]) + ",".join(sorted(str(x) for x in outs))
        d[k] = d.get(k, 0) + 1
    d["conflicts_total"] = sum(1 for o in r["obs"] for x in (o.get("out") or []) if x == "conflict")
    return d


def search(rng, info):
    """targeted search when an obligation (e.g. a source fact about the tag) or the correspondence breaks: the
    whole 2-command family plus a sample of 3-command schedules"""
    return gen(rng.fork("search"), "quick")
