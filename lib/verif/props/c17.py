"""C17 — shell output reproduces values exactly."""
import os
import re

from .. import common as C

ID = "C17"
SRC_FACTS = ["shell_line_prefix", "shell_line_suffix", "env_pair_sep", "secret_placeholder",
             "unknown_path_placeholder", "unknown_value_text", "shell_escaped_bytes",
             "get_render_pretend", "get_render_show_is_the_flag", "open_render_pretend", "open_render_show",
             "render_shell_options_ok", "render_dotenv_options_ok"]
COQ_SAMPLE = 100
BATCH = 60
# the handler scales its own per-interpreter budgets with a measured no-op (harness/cmd/implrun/c17.go); the driver's
# per-batch limit only has to be out of the way of a loaded machine (a batch that exceeds it would be reported as a hang)
IMPL_TIMEOUT = 3600
RULE = ("render cases (environment -> the eight renderings, each produced TWICE: by the real commands `esc open --format shell`, "
        "`esc env open --format dotenv`, `esc env get --value shell|dotenv` with and without `--show-secrets` driven in process "
        "through cli.New with a fake backend, and by renderValue called directly -> /bin/sh, bash, mvdan.cc/sh; one wire line "
        "`(both (render ..) (cli ..))` per case): regression corpus; EXHAUSTIVE: every single byte 0x00-0xff as a value, every byte "
        "0x01-0xff in first / middle / last position of a value (thorough: also of a temporary file's path), all words of length 2 and 3 (thorough: 3 and 4) over the special "
        "alphabet {\\ \" $ ` ' LF space a 0xff n}; value lengths 0, 1, 127, 128, 4095, 4096, 65535, 65536, 131072 (plain, special "
        "bytes, all bytes; also as a hidden secret); 1, 2, 64, 1000 entries; multi-byte and invalid UTF-8; printf verbs (%s %! %% "
        "trailing %) in values, secrets and temp-file paths; key collisions between environmentVariables and files; names that are "
        "special in dash / bash / mvdan.cc/sh (as variable and as file key); random environments of 1-5 variables and 0-2 files "
        "whose values are built from the property's character classes (spaces, quotes, backslashes, $, backquotes, newlines, "
        "control bytes, non-ASCII, invalid UTF-8, expansion/substitution canaries), kinds string/number/bool/null/array/object, "
        "secret and unknown flags, temp-file prefixes with special characters; malformed stream (invalid names, NUL bytes: rendering "
        "compared only).  sh cases (validation of the Coq shell semantics against the three interpreters): strconv.Quote-style "
        "scripts, random scripts over the fragment's grammar (double-quoted / single-quoted / unquoted segments, escapes, "
        "continuations), one-byte mutations of rendered scripts, and the probe `export NAME=...` for 140 candidate special names "
        "x 3 values (re-measures Model.Shell.*_special).  non-trivial = a render case that at least one interpreter, for which all "
        "its names are ordinary, evaluated (both scripts) and that has a value outside plain printable ASCII, or an sh case whose "
        "script the semantics evaluates to a non-empty list of exports and that an interpreter ran; distinct by case content")
ASSUMPTIONS = [
    "the environment reaches the commands as an esc.Environment value (what the API client deserialises: the fake backend hands "
    "it out as the result of CheckYAMLEnvironment / GetOpenEnvironmentWithProject, secrets in plaintext whatever flag it is "
    "asked with); bytes that YAML/JSON transport cannot carry (invalid UTF-8) are covered as well",
    "variable names are valid ([A-Za-z_][A-Za-z0-9_]*); values contain no NUL byte (an environment variable cannot hold one)",
    "LIMIT OF THE TARGET SHELLS (documented, not a defect of esc; theorems C17_*_partial / C17_*_refuted): a name that the "
    "interpreter itself treats specially cannot be exported faithfully by any quoting.  Measured, per interpreter "
    "(Model.Shell.dash_special / bash_special / mvdan_special, re-measured by the probe family of every run, evidence "
    "distribution.special_names): dash OPTIND; bash read-only UID EUID PPID BASHOPTS SHELLOPTS BASH_VERSINFO, computed "
    "LINENO RANDOM SRANDOM SECONDS EPOCHSECONDS EPOCHREALTIME BASHPID BASH_COMMAND BASH_SUBSHELL HISTCMD _ PIPESTATUS, arrays/no-assign "
    "GROUPS DIRSTACK FUNCNAME BASH_ALIASES BASH_CMDS BASH_LINENO BASH_SOURCE BASH_ARGC BASH_ARGV, validated OPTIND BASH_COMPAT "
    "BASH_XTRACEFD LC_ALL LC_COLLATE LC_CTYPE LC_MESSAGES LC_NUMERIC LC_TIME; mvdan.cc/sh UID EUID GID DIRSTACK.  A case is "
    "judged by every interpreter for which all its names are ordinary (counted: distribution.excused_special_name).  IFS, PATH, "
    "PS1, PS2, PS4, PWD, OLDPWD, SHLVL, HOME, ENV, LANG, TZ, TERM, ... are exported exactly, with nothing else observable, by all "
    "three: they are ordinary names here (that the shell then behaves differently is what exporting them means)",
    "a key that is a scalar entry of both environmentVariables and files: known finding C17-file-shadows-variable",
    "dash and bash are the reference interpreters; mvdan.cc/sh v3.7.0 is a third voice with parser quirks (drops backslash-CR-LF, "
    "keeps the backslash of unquoted escapes, mis-reads an escaped backslash before another escape: its answer is not taken for "
    "such scripts): where both reference interpreters were asked, answered and agree with what is demanded, a deviation of "
    "mvdan.cc/sh alone is counted as an interpreter quirk (distribution.interpreter_quirks), never as a failure; where a "
    "reference interpreter has no verdict (special name, skip), mvdan.cc/sh counts fully",
    "'evaluated' = the whole output is given to the interpreter as one script (a file: `. <(esc open --format shell)`, "
    "sh -c \"$(...)\", eval \"$(...)\"); an unquoted eval $(...) re-splits the text before the shell parses it and is not covered",
    "'no other effect' is observed as: exit status 0, nothing on stdout/stderr, no file appears in the (empty) working "
    "directory, no exported variable other than the environment's changes, no baseline variable disappears; for "
    "mvdan.cc/sh additionally no external command or file open is attempted and no unexported variable is set",
    "'appear nowhere' (hidden secrets) is checked as independence: the hidden renderings of the environment and of the same "
    "environment with every secret replaced by another value (different text, different length, no common 6-byte substring) are "
    "byte-identical, through the commands and through renderValue",
    "the dotenv format keeps strconv.Quote; its rendering is modelled for values whose bytes are all < 0x80 and only "
    "the redaction clause is checked for it on all values",
    "a value of 128 KiB cannot be passed to /usr/bin/env (Linux: 128 KiB per environment string): for scripts above 30 000 "
    "bytes the trailer prints the case's variables with the shell's builtin printf and shortens values of more than 30 000 "
    "characters before env runs (export status and all other variables are still read from env); the total environment stays "
    "below ARG_MAX (a case carries at most three values above 64 KiB)",
]
TRUSTED = [
    "/bin/sh (dash 0.5.12), /bin/bash (5.2.15) and mvdan.cc/sh v3.7.0 as reference POSIX shell interpreters; /usr/bin/env -0 "
    "(and the builtin printf for oversize values) to read the resulting environment; scripts are evaluated from a file",
    "the POSIX `export NAME=word` semantics Model.Shell.sh_eval (hand-written from XCU 2.2; validated in every run: "
    "whenever it answers Exports l on a generated or rendered script without a name special to the interpreter, that "
    "interpreter must have performed exactly l)",
    "the in-memory escFS, login manager, workspace and fake backend client of the hook cmd/esc/cli/export_verif_c17.go and of "
    "harness/cmd/implrun/c17.go (temporary files are named <prefix>esc-<n>)",
]

ALPHA = [b"\\", b'"', b"$", b"`", b"'", b"\n", b" ", b"a", b"\xff", b"n"]

def _coq_list(name):
    """a `Definition <name> : list string := [...]` of Model/Shell.v (the single source of the special-name lists)"""
    txt = open(os.path.join(C.VERIF, "coq", "Model", "Shell.v")).read()
    m = re.search(r"Definition %s : list string :=\s*\[(.*?)\]\." % name, txt, re.S)
    return re.findall(r'"([^"]*)"', m.group(1)) if m else []


SPECIAL = {"dash": _coq_list("dash_special"), "bash": _coq_list("bash_special"), "mvdan": _coq_list("mvdan_special")}
ALL_SPECIAL = sorted(set(sum(SPECIAL.values(), [])))

# names that matter to a shell's own behaviour but are ordinary variables for `export` in all three interpreters
ORDINARY_SUSPECTS = ["IFS", "PATH", "PS1", "PS2", "PS4", "PWD", "OLDPWD", "SHLVL", "HOME", "USER", "ENV", "BASH_ENV", "LANG",
                     "LC_MONETARY", "TZ", "TERM", "MAIL", "MAILPATH", "CDPATH", "TMOUT", "POSIXLY_CORRECT", "HISTFILE", "HISTSIZE",
                     "OPTARG", "OPTERR", "GLOBIGNORE", "REPLY", "SHELL", "TMPDIR", "COLUMNS", "LINES", "CANARY",
                     "PROMPT_COMMAND", "BASH_ARGV0", "COMP_WORDBREAKS", "FUNCNEST", "IGNOREEOF", "INPUTRC", "NLSPATH"]

PROBE_NAMES = sorted(set(ALL_SPECIAL + ORDINARY_SUSPECTS + """MAILCHECK HISTFILESIZE BASH_LOADABLES_PATH EXECIGNORE FIGNORE BASH
BASH_VERSION HOSTNAME HOSTTYPE MACHTYPE OSTYPE BASH_REMATCH BASH_EXECUTION_STRING COMP_LINE COMP_POINT COMP_KEY COMP_TYPE COMP_CWORD
COMP_WORDS COMPREPLY COPROC READLINE_LINE LANGUAGE HISTCONTROL HISTIGNORE HISTTIMEFORMAT HOSTFILE PROMPT_DIRTRIM PS0 PS3 TIMEFORMAT
auto_resume histchars FCEDIT EDITOR VISUAL CHILD_MAX EMACS INSIDE_EMACS MAPFILE LC_TIME LC_PAPER LC_NAME LC_ADDRESS LC_TELEPHONE
LC_MEASUREMENT LC_IDENTIFICATION PLAIN_NAME x X1 __ a_b""".split()))
PROBE_VALUES = [b"v a l", b"7", b""]

CORPUS = [
    b"$HOME", b"a\nb", b"pa$$w0rd", b"`touch pwned`", b"$(touch pwned)", b"${CANARY}", b"$CANARY", b"\x1b[31mred\x1b[0m",
    b"-----BEGIN KEY-----\nMIIB\tVwIBADANBg==\n-----END KEY-----\n", b'{"hello":"world"}', b"esc", b"3.14", b"",
    b"it's", b'say "hi"', b"back\\slash", b"trailing\\", b"\\n not a newline", b"caf\xc3\xa9 \xe6\x97\xa5\xe6\x9c\xac",
    b"\xff\xfe\x80", b"\xc3", b"a\rb\r\n", b"tab\there", b"$", b"$$", b"$1 $? $! $- $@ $*", b'"; touch pwned; echo "',
    b"'; touch pwned; echo '", b"\\$(touch pwned)", b"\\`touch pwned\\`", b"$((1+1))", b"!! !$ #c ~ * ? [a-z] {a,b}",
    b"\x7f\x01\x02", b"\\x41\\u0041\\101", b" leading and trailing ", b"\n", b"\n\n", b"a\\\nb", b"%s %d \\c",
    b"\xe2\x80\xa8line sep", b"\xf0\x9f\x94\x91 key",
]

SEGMENTS = {
    "plain": [b"a", b"abc", b"Z9_", b"value", b"x=y", b"/usr/bin:/bin", b"a,b.c-d+e@f%g"],
    "space": [b" ", b"  ", b"\t", b" a b "],
    "quote": [b'"', b"'", b'""', b"''", b"'\"'", b'"x"', b"it's"],
    "backslash": [b"\\", b"\\\\", b"\\n", b"\\t", b"\\\"", b"\\$", b"\\`", b"\\x41", b"\\u00e9", b"\\'", b"\\ "],
    "dollar": [b"$", b"$$", b"$HOME", b"${CANARY}", b"$CANARY", b"$(touch pwned)", b"$(echo x)", b"$((1+2))", b"$1",
               b"$?", b"${", b"$(", b"$'a'", b'$"a"'],
    "backquote": [b"`", b"``", b"`touch pwned`", b"`echo x`", b"\\`"],
    "newline": [b"\n", b"\n\n", b"\r\n", b"\r", b"\\\n"],
    "control": [b"\x01", b"\x07", b"\x08", b"\x0b", b"\x0c", b"\x1b", b"\x1b[0m", b"\x7f", b"\x1f"],
    "nonascii": [b"\xc3\xa9", b"\xe6\x97\xa5", b"\xf0\x9f\x94\x91", b"\xc2\xa0", b"\xe2\x80\xa8", b"\xc2\x85"],
    "invalid": [b"\xff", b"\xfe", b"\x80", b"\xc3", b"\xe6\x97", b"\xc0\xaf", b"\xed\xa0\x80", b"\x81", b"\x88"],
    "shellmeta": [b";", b"&", b"|", b"<", b">", b"(", b")", b"*", b"?", b"[", b"]", b"~", b"#", b"!", b"{", b"}", b"="],
}
CLASSES = sorted(SEGMENTS)


def H(b):
    return b.hex()


def _shares(a, b, n=6):
    """a and b have a common substring of n bytes"""
    if len(a) < n or len(b) < n:
        return False
    grams = {a[i:i + n] for i in range(len(a) - n + 1)}
    return any(b[i:i + n] in grams for i in range(len(b) - n + 1))


def var(k, v, kind="str", secret=False, unknown=False, alt=None):
    e = {"k": H(k), "kind": kind, "v": H(v), "secret": secret, "unknown": unknown}
    if secret:
        # the OTHER secret value of the independence clause (Corr.C17.redaction_fail): a different text of a different
        # length that shares no 6-byte substring with the value, so that nothing derived from the value can hide
        if kind == "bool":
            alt = b"false" if v == b"true" else b"true"
        elif kind == "num":
            alt = b"777" if v != b"777" else b"12345"
        elif kind != "null":
            if alt is None:
                alt = b"ALT-" + v[::-1] + b"-other"
            if alt == v or len(alt) == len(v) or _shares(v[:4096], alt[:4096]):
                alt = (b"#0ther~" * (len(v) // 7 + 2))[:len(v) + 3]
                if _shares(v[:4096], alt[:4096]):
                    alt = (b"%Alt3rn@tive^" * (len(v) // 13 + 2))[:len(v) + 5]
        e["alt"] = H(alt if alt is not None else b"")
    return e


def render_case(vars_, files=(), prefix=b"/tmp/", tag=""):
    return {"op": "render", "prefix": H(prefix), "vars": list(vars_), "files": list(files), "tag": tag}


def gen_name(rng):
    first = "ABCDEFGHIJKLMNOPQRSTUVWXYZabcdefghijklmnopqrstuvwxyz_"
    rest = first + "0123456789"
    # any valid name: whether an interpreter treats it specially is decided per interpreter by Corr.C17.in_scope
    return (rng.choice(first) + "".join(rng.choice(rest) for _ in range(rng.below(8)))).encode()


def gen_value(rng, maxseg=6):
    out = b""
    focus = [rng.choice(CLASSES) for _ in range(1 + rng.below(3))]
    for _ in range(rng.below(maxseg + 1)):
        cls = rng.choice(focus) if rng.chance(2, 3) else rng.choice(CLASSES)
        out += rng.choice(SEGMENTS[cls])
    return out


def gen_entry(rng, key, allow_flags=True):
    k = rng.below(20)
    secret = allow_flags and rng.chance(3, 10)
    unknown = allow_flags and rng.chance(1, 25)
    if k < 13:
        return var(key, gen_value(rng), "str", secret, unknown, alt=gen_value(rng) + b"~alt")
    if k < 15:
        return var(key, rng.choice([b"3.14", b"42", b"-1", b"1e10", b"0", b"12345678901234567890"]), "num", secret, unknown,
                   alt=b"777")
    if k < 17:
        return var(key, rng.choice([b"true", b"false"]), "bool", secret, unknown, alt=b"false")
    if k < 18:
        return var(key, b"", "null", secret, unknown, alt=b"")
    return var(key, gen_value(rng), rng.choice(["arr", "obj"]), secret, unknown, alt=b"zz")


def gen_prefix(rng):
    if rng.chance(3, 4):
        return rng.choice([b"/tmp/", b"temp/", b"/var/folders/x_/T/"])
    return rng.choice([b"/tmp/my dir/", b"/tmp/$HOME/", b"/tmp/`touch pwned`/", b"/tmp/\"q\"/", b"/tmp/caf\xc3\xa9/", b"C:\\Temp\\",
                       b"/tmp/a'b/", b"/tmp/$(touch pwned)/", b"/tmp/nl\n/"])


def gen_random_render(rng, tag="random"):
    names = []
    while len(names) < 7:
        n = gen_name(rng)
        if n not in names:
            names.append(n)
    nfiles = rng.below(3) if rng.chance(1, 2) else 0
    fnames, vnames = names[:nfiles], names[nfiles:nfiles + 1 + rng.below(5)]
    vs = [gen_entry(rng, n) for n in vnames]
    fs = [gen_entry(rng, n) for n in fnames]
    return render_case(vs, fs, gen_prefix(rng), tag)


BAD_NAMES = [b"", b"1ABC", b"A-B", b"A B", b"A=B", b"A.B", b"caf\xc3\xa9", b"A\nB", b"$(touch pwned)", b"`touch pwned`", b"A;touch pwned;B",
             b"a\"b", b"A$B", b"\xff"]


def go_quote_ascii(v):
    out = '"'
    for b in v:
        c = chr(b)
        if c == '"':
            out += '\\"'
        elif c == "\\":
            out += "\\\\"
        elif c in "\a\b\f\n\r\t\v":
            out += "\\" + "abfnrtv"["\a\b\f\n\r\t\v".index(c)]
        elif 32 <= b <= 126:
            out += c
        else:
            out += "\\x%02x" % b
    return (out + '"').encode()


# scripts on which the interpreters once disagreed among themselves (kept forever)
SH_REGRESSIONS = [
    b'export r="\\\r\n"',            # VERIF_SEED=2 thorough: mvdan.cc/sh drops backslash-CR-LF, dash and bash keep the three bytes
    b'export r="\\\r\n"\n', b"export r='\\\r\n'\n", b'export r="a\\\rb"\n', b'export r="\\\\\r\n"\n', b'export r=\\\r\n',
    b'export A=\\"x\n',               # mvdan.cc/sh keeps the backslash of an unquoted escape
    b'export A="\\\\\\$"\n',          # mvdan.cc/sh: escaped backslash before an escaped dollar
]


def sh_case(script, tag):
    names = sorted(set(re.findall(rb"export ([A-Za-z_][A-Za-z0-9_]*)=", script)))
    return {"op": "sh", "script": H(script), "names": [H(n) for n in names], "tag": tag}


DQ_PIECES = [b"a", b"b c", b"\\$", b"\\\"", b"\\\\", b"\\`", b"\\n", b"\\a", b"\\'", b"\\ ", b"\\\n", b"\n", b"'", b" ", b"\t", b"\xc3\xa9",
             b"\xff", b";", b"&", b"*", b"~", b"#", b"!", b"(", b"{", b"=", b"\x01", b"\x7f", b"\x81", b"\r"]
DQ_RISKY = [b"$", b"`", b"$X", b"`x`"]
SQ_PIECES = [b"a", b" ", b'"', b"$", b"`", b"\\", b"\\n", b"\n", b"\xff", b"\xc3\xa9", b"$(touch pwned)", b";", b"\x01", b"*", b"~"]
UQ_PIECES = [b"a", b"Z", b"0", b"_", b"+", b",", b"-", b".", b"/", b":", b"=", b"@", b"%", b"\\ ", b"\\\"", b"\\$", b"\\\\", b"\\'", b"\\`",
             b"\\\n", b"\\a", b"\\;", b"\\*", b"\\\xff"]
UQ_RISKY = [b" ", b";", b"$", b"*", b"~", b"#", b"&", b"`", b"\t", b"!", b"^", b"{", b"\xff", b"?", b"[", b"|", b"<", b"("]


def gen_word(rng):
    w = b""
    for _ in range(rng.below(5)):
        k = rng.below(3)
        if k == 0:
            body = b"".join(rng.choice(DQ_RISKY) if rng.chance(1, 25) else rng.choice(DQ_PIECES) for _ in range(rng.below(6)))
            w += b'"' + body + b'"'
        elif k == 1:
            w += b"'" + b"".join(rng.choice(SQ_PIECES) for _ in range(rng.below(5))) + b"'"
        else:
            w += b"".join(rng.choice(UQ_RISKY) if rng.chance(1, 25) else rng.choice(UQ_PIECES) for _ in range(1 + rng.below(4)))
    return w


def gen_script(rng):
    lines = []
    for _ in range(1 + rng.below(3)):
        name = gen_name(rng) if rng.chance(19, 20) else rng.choice([b"1A", b"A-B", b""])
        kw = b"export " if rng.chance(24, 25) else rng.choice([b"export  ", b"export\t", b"exprt ", b"", b"readonly ", b" export "])
        lines.append(kw + name + b"=" + gen_word(rng))
    s = b"\n".join(lines)
    if rng.chance(4, 5):
        s += b"\n"
    if rng.chance(1, 30):
        s += rng.choice([b"\n", b"export", b"\"", b"'", b"\\"])
    return s


def model_render(pairs):
    """Python twin of the repaired rendering, used only to SHAPE sh-validation inputs (mutations of rendered scripts)."""
    out = b""
    for k, v in pairs:
        q = b""
        for b in v:
            if b in b'$`"\\':
                q += b"\\"
            q += bytes([b])
        out += b"export " + k + b'="' + q + b'"\n'
    return out


UTF8 = [
    "\u00e9".encode(), "\u65e5\u672c\u8a9e".encode(), "\U0001f511\U0001f1e9\U0001f1ea".encode(), "e\u0301 a\u030a".encode(),
    "\u05e9\u05dc\u05d5\u05dd \u0645\u0631\u062d\u0628\u0627".encode(), "\ufeffbom".encode(), "line\u2028sep\u2029par".encode(),
    "nel\u0085nbsp\u00a0".encode(), "\u202eright-to-left override".encode(), "\U0010ffff\uffff\ufffd".encode(), "\u0000".encode()[:0] + b"\xc2\x80",
    b"\xc0\xaf", b"\xe0\x80\xaf", b"\xf0\x80\x80\xaf", b"\xed\xa0\x80\xed\xb0\x80", b"\xf4\x90\x80\x80", b"\xc3", b"\xe6\x97", b"\xf0\x9f\x94",
    b"\x80", b"\xbf\xbf", b"\xfe", b"\xff", b"\xfe\xff\x00a"[:2], b"ok\xc3\xa9\xffbad\xc3", b"\xc3\x28", b"\xe2\x28\xa1", b"a\xa0b\x85c",
]
PERCENT = [b"%s", b"%!", b"%%", b"100%", b"%", b"%v", b"%d items", b"p%40ss%w0rd", b"%[1]v %[2]v", b"%!s(MISSING)", b"%Y-%m-%d", b"50%% off",
           b"%x%X%o%c%q%U%e%t%p%T", b"% d", b"%-5s|%05d|%+.2f", b"%*d", b"%!(EXTRA string=x)", b"trailing\n%", b"%\n", b'"%"', b"$%`%\\%"]

SIZES = [0, 1, 127, 128, 4095, 4096, 65535, 65536, 131072]
SPECIAL_CYCLE = b'a$`"\\\n\'% \xc3\xa9\xff\t;&|<>(){}*?[]~#!=\r\x01\x7f'


def sized(pattern, n):
    if n == 0:
        return b""
    return (pattern * (n // len(pattern) + 1))[:n]


def gen_sizes(thorough):
    out = []
    allbytes = bytes(range(1, 256))
    for n in SIZES:
        out.append(render_case([var(b"SZ", sized(SPECIAL_CYCLE, n))], tag="size"))
        if thorough or n in (0, 1, 128, 4096, 65536):
            out.append(render_case([var(b"SZ", sized(b"a", n))], tag="size"))
            out.append(render_case([var(b"SZ", sized(allbytes, n))], tag="size"))
        if thorough or n in (127, 4095, 131072):
            # the same length as a hidden secret and as the content of a temporary file, next to a small public value
            out.append(render_case([var(b"SZ_SECRET", sized(b"s3cr3t-" + SPECIAL_CYCLE, n), secret=True, alt=sized(b"0ther-" + SPECIAL_CYCLE, n)),
                                    var(b"PUBLIC", b"p")], [var(b"SZ_FILE", sized(SPECIAL_CYCLE, n))], tag="size"))
    # values whose rendering straddles the sizes (every special byte doubles)
    for n in (64, 2048, 32768, 65536):
        out.append(render_case([var(b"SZ", sized(b'$`"\\', n))], tag="size"))
    # a backslash / quote exactly at the end of a long value
    for tail in (b"\\", b'"', b"$", b"`", b"\n", b"%"):
        out.append(render_case([var(b"SZ", sized(b"x", 4095) + tail)], tag="size"))
    return out


def gen_many(rng, thorough):
    out = []
    for n in (1, 2, 64, 1000):
        for rep in range(2 if (thorough or n < 1000) else 1):
            names = []
            seen = set()
            while len(names) < n + 3:
                k = gen_name(rng) + (b"_%d" % len(names) if n > 64 else b"")
                if k not in seen and k.decode() not in ALL_SPECIAL:
                    seen.add(k)
                    names.append(k)
            nfiles = 0 if rep == 0 else 3
            vs = [gen_entry(rng, k) for k in names[:n]]
            fs = [gen_entry(rng, k, allow_flags=False) for k in names[n:n + nfiles]]
            out.append(render_case(vs, fs, tag="entries%d" % n))
    return out


def gen_collisions():
    out = []
    K = b"SHARED"
    for vkind, fkind in (("str", "str"), ("num", "str"), ("str", "bool"), ("null", "null")):
        out.append(render_case([var(K, b"value of the variable" if vkind == "str" else b"3.14", vkind)],
                               [var(K, b"content of the file" if fkind == "str" else b"true", fkind)], tag="collision"))
    out.append(render_case([var(K, b"hidden value", secret=True, alt=b"other hidden")], [var(K, b"file")], tag="collision"))
    out.append(render_case([var(b"A", b"a $x"), var(K, b"v"), var(b"Z", b"z`")], [var(b"F", b"f"), var(K, b"c")], tag="collision"))
    out.append(render_case([var(b"A", b"a"), var(b"B", b"b"), var(b"C", b"c")], [var(b"B", b"1"), var(b"C", b"2"), var(b"D", b"3")], tag="collision"))
    # no collision of SCALAR entries: the property must hold for every name
    out.append(render_case([var(K, b"v")], [var(K, b"c", "obj")], tag="collision:none"))
    out.append(render_case([var(K, b"v", "arr")], [var(K, b"c")], tag="collision:none"))
    out.append(render_case([var(K, b"v")], [var(K + b"_", b"c")], tag="collision:none"))
    return out


def _gen_all(rng, tier):
    thorough = tier == "thorough"
    cases = []
    # --- regression corpus first --------------------------------------------------------------------------------
    for v in CORPUS:
        cases.append(render_case([var(b"VALUE", v)], tag="corpus"))
    cases.append(render_case([var(b"BOOLEAN", b"true", "bool"), var(b"NULLV", b"", "null"), var(b"NUMBER", b"3.14", "num"),
                              var(b"OBJECT", b'{"hello":"world"}'), var(b"SECRET", b"secretAccessKey", secret=True),
                              var(b"STRING", b"esc"), var(b"ARRAY", b"x", "arr")], [var(b"FILE", b"esc")], b"temp/", "corpus"))
    cases.append(render_case([var(b"TOKEN", b"$(touch pwned)`touch pwned`", secret=True, alt=b"other"), var(b"REGION", b"eu")],
                             [var(b"KUBECONFIG", b"apiVersion: v1\n", secret=True, alt=b"x")], tag="corpus"))
    cases.append(render_case([], [], tag="corpus"))
    # --- exhaustive small families --------------------------------------------------------------------------------
    for b in range(256):
        cases.append(render_case([var(b"B", bytes([b]))], tag="byte"))
    lens = (3, 4) if thorough else (2, 3)
    for n in lens:
        alpha = ALPHA if (n < 4) else ALPHA[:6]
        if not thorough and n == 3:
            alpha = ALPHA[:7]
        for idx in range(len(alpha) ** n):
            w, x = b"", idx
            for _ in range(n):
                w += alpha[x % len(alpha)]
                x //= len(alpha)
            cases.append(render_case([var(b"W", w)], tag="word%d" % n))
    # all words up to length 3 (thorough: 4) over {backslash, CR, LF, double quote, a}: CR next to backslash and newline
    cr_alpha = [b"\\", b"\r", b"\n", b'"', b"a"]
    for n in ((1, 2, 3, 4) if thorough else (1, 2, 3)):
        for idx in range(len(cr_alpha) ** n):
            w, x = b"", idx
            for _ in range(n):
                w += cr_alpha[x % len(cr_alpha)]
                x //= len(cr_alpha)
            cases.append(render_case([var(b"W", w)], tag="crword"))
    # secrets: every single special byte as a hidden secret
    for a in ALPHA:
        cases.append(render_case([var(b"S", b"s3cr3t" + a + b"x", secret=True, alt=b"other" + a)], tag="secret"))
    # every byte 0x01-0xff in first / middle / last position of a value (exhaustive)
    for b in range(1, 256):
        x = bytes([b])
        cases.append(render_case([var(b"P_FIRST", x + b"mid"), var(b"P_MID", b"ab" + x + b"cd"), var(b"P_LAST", b"end" + x)], tag="bytepos"))
    # ... and in the path of a temporary file (the directory of the in-memory file system carries the byte)
    for b in (range(1, 256) if thorough else [9, 10, 32, 34, 36, 37, 39, 92, 96, 127, 128, 255]):
        x = bytes([b])
        cases.append(render_case([var(b"V", b"v")], [var(b"F_FIRST", b"c1"), var(b"F_SECOND", b"c2")], prefix=x + b"tmp" + x + b"dir/" + x, tag="pathbyte"))
    # --- sizes -----------------------------------------------------------------------------------------------------
    cases += gen_sizes(thorough)
    # --- number of entries ------------------------------------------------------------------------------------------
    cases += gen_many(rng.fork("many"), thorough)
    # --- UTF-8 (multi-byte, invalid) and printf verbs -------------------------------------------------------------------
    for v in UTF8:
        cases.append(render_case([var(b"U", v), var(b"U_Q", b'"' + v + b"$" + v + b"\\")], tag="utf8"))
    for v in PERCENT:
        cases.append(render_case([var(b"PCT", v), var(b"PCT_S", b"tok" + v + b"en%", secret=True, alt=b"o%ther" + v)],
                                 [var(b"PCT_F", b"content " + v)], prefix=b"/tmp/100%/" + v.replace(b"/", b"_").replace(b"\n", b"_") + b"/",
                                 tag="percent"))
        cases.append(render_case([var(b"PCT", v)], tag="percent"))
    # --- a key in both environmentVariables and files (known finding C17-file-shadows-variable) ----------------------------
    cases += gen_collisions()
    # --- names an interpreter treats specially, and names that only look special ------------------------------------------
    for n in ALL_SPECIAL + ORDINARY_SUSPECTS:
        k = n.encode()
        for v in (b"v a l", b"7"):
            cases.append(render_case([var(k, v), var(b"OTHER", b"w $x")], tag="name:" + ("special" if n in ALL_SPECIAL else "ordinary")))
        cases.append(render_case([var(b"OTHER", b"w")], [var(k, b"content")], tag="name:" + ("special" if n in ALL_SPECIAL else "ordinary")))
    cases.append(render_case([var(b"IFS", b" \t\n"), var(b"PATH", b"/opt/x y/bin:/usr/bin"), var(b"PS1", b"\\u@\\h \\$ "), var(b"A", b"a b")],
                             tag="name:ordinary"))
    # --- random structured stream --------------------------------------------------------------------------------
    r = rng.fork("render")
    for _ in range(6000 if thorough else 450):
        cases.append(gen_random_render(r))
    # --- malformed stream: invalid names, NUL bytes (rendering compared; outside the property) ----------------------
    m = rng.fork("malformed")
    for bad in BAD_NAMES:
        cases.append(render_case([var(bad, b"v"), var(b"OK", b"w")], tag="badname"))
        cases.append(render_case([var(b"OK", b"w")], [var(bad, b"v")], tag="badname"))
    for _ in range(400 if thorough else 60):
        c = gen_random_render(m, "malformed")
        k = m.below(4)
        if k == 0 and c["vars"]:
            c["vars"][0]["v"] = H(bytes.fromhex(c["vars"][0]["v"]) + b"\x00" + gen_value(m))
        elif k == 1 and c["vars"]:
            c["vars"][0]["k"] = H(m.choice(BAD_NAMES))
        elif k == 2 and c["vars"]:
            c["files"] = [dict(c["vars"][0], v=H(b"content"))]  # a file named like a variable
        else:
            c["prefix"] = H(b"/tmp/\x00/")
        cases.append(c)
    # --- validation of the shell semantics ----------------------------------------------------------------------------
    s = rng.fork("sh")
    for script in SH_REGRESSIONS:
        cases.append(sh_case(script, "regression"))
    for v in CORPUS:
        if all(b < 128 for b in v):
            cases.append(sh_case(b"export K=" + go_quote_ascii(v) + b"\n", "goquote"))
    for b in range(128):
        cases.append(sh_case(b"export K=" + go_quote_ascii(bytes([b])) + b"\n", "goquote"))
    for _ in range(1500 if thorough else 150):
        v = bytes(x for x in gen_value(s) if x < 128)
        cases.append(sh_case(b"export " + gen_name(s) + b"=" + go_quote_ascii(v) + b"\n", "goquote"))
    for _ in range(5000 if thorough else 500):
        cases.append(sh_case(gen_script(s), "grammar"))
    for _ in range(2500 if thorough else 250):
        pairs = [(gen_name(s), gen_value(s, 4)) for _ in range(1 + s.below(2))]
        script = bytearray(model_render(pairs))
        pos = s.below(len(script) + 1)
        ins = s.choice(ALPHA + [b"\\\\", b"\\\"", b"x"])
        k = s.below(3)
        if k == 0:
            script[pos:pos] = ins
        elif k == 1 and pos < len(script):
            del script[pos]
        elif pos < len(script):
            script[pos:pos + 1] = ins
        if b"\x00" in script:
            continue
        cases.append(sh_case(bytes(script), "mutated"))
    # probe: which names does an interpreter treat specially? (re-measures Model.Shell.*_special; see distribution)
    for n in PROBE_NAMES:
        for v in PROBE_VALUES:
            for pre, post in ((b"", b""), (b'export VERIF_BEFORE="1"\n', b'export VERIF_AFTER="2"\n')):
                cases.append(dict(sh_case(pre + b"export " + n.encode() + b'="' + v + b'"\n' + post, "probe"), probe=[n, H(v), bool(pre)]))
    return cases


def _weight(c):
    if c["op"] != "render":
        return len(c["script"]) // 2
    return sum(len(e["v"]) // 2 + 40 for e in c["vars"] + c["files"])


def gen(rng, tier):
    """the cases of _gen_all with the heavy ones (long values, many entries) spread evenly over the list: the runners
    split the list into contiguous chunks, one process each"""
    cases = _gen_all(rng, tier)
    heavy = [c for c in cases if _weight(c) >= 4096]
    light = [c for c in cases if _weight(c) < 4096]
    if not heavy:
        return cases
    heavy.sort(key=_weight, reverse=True)
    # the regression corpus stays first (the driver shrinks the FIRST failing case: a small one shrinks in seconds)
    head = 60
    out, step = light[:head], max(1, len(light[head:]) // len(heavy))
    for i, c in enumerate(light[head:]):
        if i % step == 0 and heavy:
            out.append(heavy.pop(0))
        out.append(c)
    return out + heavy


def prepare(c):
    q = {k: v for k, v in c.items() if k not in ("tag", "probe")}
    return q


def _kind(k):
    return {"arr": "other", "obj": "other"}.get(k, k)


def _entry(e):
    return "(x%s %s x%s %s %s)" % (e["k"], _kind(e["kind"]), e["v"], "t" if e.get("secret") else "f",
                                   "t" if e.get("unknown") else "f")


def _obs(o):
    if not isinstance(o, dict) or "skip" in o or "fin" not in o:
        return "skip"
    return "(%s %s (%s))" % ("t" if o["fin"] else "f", "t" if o["clean"] else "f",
                             " ".join("(x%s x%s)" % (k, v) for k, v in o.get("vars") or []))


def _sh3(o):
    o = o or {}
    return "(%s %s %s)" % (_obs(o.get("dash")), _obs(o.get("bash")), _obs(o.get("mvdan")))


OUTS = ["open_shell", "get_shell_red", "get_shell_red_alt", "get_shell_show", "open_dotenv", "get_dotenv_red", "get_dotenv_red_alt",
        "get_dotenv_show"]
KINDS = [("direct", "render"), ("cli", "cli")]


def _skips(o):
    """reasons why an interpreter gave no verdict, over the interpreter runs of one case ([] = somebody answered)"""
    groups = []
    if "sh" in o:
        groups.append(o.get("sh"))
    for kind, _ in KINDS:
        k = o.get(kind) or {}
        groups += [k.get("open_sh"), k.get("red_sh")]
    reasons = []
    for g in groups:
        for name in ("dash", "bash", "mvdan"):
            x = (g or {}).get(name)
            if not isinstance(x, dict) or "skip" not in x:
                if isinstance(x, dict) and "fin" in x:
                    return []
                reasons.append("missing")
            else:
                reasons.append(x["skip"])
    return reasons


def _render_part(c, k, word):
    return "(%s x%s (%s) (%s) (%s) %s %s)" % (
        word, c["prefix"], " ".join(_entry(e) for e in c["vars"]), " ".join(_entry(e) for e in c["files"]),
        " ".join("x" + k[n] for n in OUTS), _sh3(k.get("open_sh")), _sh3(k.get("red_sh")))


def line(c, o):
    if "panic" in o or "crash" in o or "error" in o:
        return "(crash)"  # no verdict: reported as a broken correspondence by the driver
    reasons = _skips(o)
    if reasons and not any(r == "nul" for r in reasons):
        # no interpreter gave a verdict and the reason is not a NUL byte (outside the property): the case was not
        # judged at all.  It is counted by the driver as skipped and by distribution(); it is never a pass.
        return None
    if c["op"] == "render":
        parts = []
        for kind, word in KINDS:
            k = o.get(kind)
            if not isinstance(k, dict) or any((n + "_err") in k for n in OUTS) or any(n not in k for n in OUTS):
                return "(crash)"
            parts.append(_render_part(c, k, word))
        return "(both %s)" % " ".join(parts)
    if c["op"] == "sh":
        return "(sh x%s %s)" % (c["script"], _sh3(o.get("sh")))
    return None


def shrink(c):
    if c["op"] != "render":
        s = bytes.fromhex(c["script"])
        lines = s.split(b"\n")
        for i in range(len(lines)):
            if len(lines) > 1:
                yield sh_case(b"\n".join(lines[:i] + lines[i + 1:]), c.get("tag", ""))
        for i in range(min(len(s), 50)):
            yield sh_case(s[:i] + s[i + 1:], c.get("tag", ""))
        return
    for key in ("vars", "files"):
        n = len(c[key])
        if n > 16:
            # long lists: drop halves, quarters, eighths (never one entry at a time: every candidate is a full evaluation)
            for parts in (2, 4, 8):
                size = n // parts
                for j in range(parts):
                    d = dict(c)
                    d[key] = c[key][:j * size] + c[key][(j + 1) * size:]
                    yield d
            continue
        for i in range(n):
            d = dict(c)
            d[key] = c[key][:i] + c[key][i + 1:]
            yield d
    if c["prefix"] != H(b"/tmp/"):
        yield dict(c, prefix=H(b"/tmp/"))
    for key in ("vars", "files"):
        if len(c[key]) > 16:
            continue
        for i, e in enumerate(c[key]):
            v = bytes.fromhex(e["v"])
            cands = []
            if len(v) > 1:
                cands += [v[: len(v) // 2], v[len(v) // 2:]]
            if 64 < len(v) <= 16384:
                cands += [v[: len(v) * 3 // 4], v[len(v) // 4:], v[: len(v) * 7 // 8]]
            if len(v) <= 256:
                cands += [v[:j] + v[j + 1:] for j in range(min(len(v), 12))]
            for w in cands:
                d = dict(c)
                d[key] = c[key][:i] + [dict(e, v=H(w))] + c[key][i + 1:]
                yield d
            if e.get("secret") and "alt" in e:
                a = bytes.fromhex(e["alt"])
                for w in ([a[: len(a) // 2], a[len(a) // 2:], a[: len(a) * 3 // 4]] if len(a) > 8 else []):
                    d = dict(c)
                    d[key] = c[key][:i] + [dict(e, alt=H(w))] + c[key][i + 1:]
                    yield d
            if e.get("secret") or e.get("unknown"):
                d = dict(c)
                d[key] = c[key][:i] + [dict(e, secret=False, unknown=False)] + c[key][i + 1:]
                yield d


def describe(c):
    if c["op"] == "sh":
        return {"op": "sh", "tag": c.get("tag"), "script": repr(bytes.fromhex(c["script"]))[2:-1][:200]}
    return {"op": "render", "tag": c.get("tag"), "prefix": repr(bytes.fromhex(c["prefix"]))[2:-1],
            "vars": [[repr(bytes.fromhex(e["k"]))[2:-1], e["kind"], repr(bytes.fromhex(e["v"]))[2:-1][:80],
                      "secret" if e.get("secret") else ""] for e in c["vars"]][:4],
            "files": len(c["files"])}


def _classes_of(v):
    out = set()
    for b in v:
        if b in b" \t":
            out.add("space")
        elif b in b"'\"":
            out.add("quote")
        elif b == 0x5c:
            out.add("backslash")
        elif b == 0x24:
            out.add("dollar")
        elif b == 0x60:
            out.add("backquote")
        elif b in b"\n\r":
            out.add("newline")
        elif b == 0:
            out.add("nul")
        elif b < 32 or b == 127:
            out.add("control")
        elif b >= 128:
            out.add("non-ascii")
    try:
        v.decode("utf-8")
    except UnicodeDecodeError:
        out.add("invalid-utf8")
    return out


_NAME = re.compile(rb"^[A-Za-z_][A-Za-z0-9_]*$")


def _scalar_names(c):
    return [bytes.fromhex(e["k"]) for key in ("vars", "files") for e in c[key] if e["kind"] not in ("arr", "obj")]


def _probe_matrix(cases, obs):
    """what `export NAME="..."` did in each interpreter, for the probe family: per name and interpreter `exact` or the
    deviations seen over the probe values"""
    m = {}
    for c, o in zip(cases, obs):
        if c["op"] != "sh" or c.get("tag") != "probe":
            continue
        name, val = c["probe"][0], bytes.fromhex(c["probe"][1])
        others = {b"VERIF_BEFORE": b"1", b"VERIF_AFTER": b"2"} if c["probe"][2] else {}
        for sh in ("dash", "bash", "mvdan"):
            x = (o.get("sh") or {}).get(sh) or {}
            if "skip" in x:
                what = "skip:" + x["skip"]
            elif not x.get("fin"):
                what = "aborted"
            else:
                got = {bytes.fromhex(a): bytes.fromhex(b) for a, b in x.get("vars") or []}
                want = dict(others)
                want[name.encode()] = val
                if got == want:
                    what = "exact" if x.get("clean") else "exact+diagnostic"
                elif name.encode() not in got:
                    what = "not-exported" if x.get("clean") else "refused+diagnostic"
                else:
                    what = "other-value" if x.get("clean") else "other-value+diagnostic"
            m.setdefault(name, {}).setdefault(sh, set()).add(what)
    return m


def distribution(cases, r):
    d = {"cases_by_family": {}, "values_total": 0, "values_by_class": {}, "interpreter_runs": {}, "sh_cases_semantics_says_exports": 0,
         "render_lines": {"direct(renderValue)": 0, "cli(commands)": 0},
         "value_length_max": 0, "entries_max": 0,
         "render_cases_judged_by_n_interpreters": {"0": 0, "1": 0, "2": 0, "3": 0},
         "no_interpreter_verdict": {}, "not_judged_and_not_counted_as_cases": 0,
         "excused_special_name": {"dash": 0, "bash": 0, "mvdan": 0},
         "outside_property": {"invalid_name": 0, "nul_byte": 0},
         "known_class_file_shadows_variable": 0, "timeout_under_load_skips": 0, "noop_ms_max": {}}
    nontriv = set(r["nontrivial"])
    known = set(r["spec_fail_known"])
    for i, (c, o) in enumerate(zip(cases, r["obs"])):
        fam = c["op"] + ":" + c.get("tag", "")
        d["cases_by_family"][fam] = d["cases_by_family"].get(fam, 0) + 1
        reasons = _skips(o)
        if reasons:
            for x in sorted(set(reasons)):
                d["no_interpreter_verdict"][x] = d["no_interpreter_verdict"].get(x, 0) + 1
            if not any(x == "nul" for x in reasons):
                d["not_judged_and_not_counted_as_cases"] += 1
        for who, us in (o.get("noop_us") or {}).items():
            d["noop_ms_max"][who] = max(d["noop_ms_max"].get(who, 0), round(us / 1000.0, 1))
        if c["op"] == "render":
            d["entries_max"] = max(d["entries_max"], len(c["vars"]) + len(c["files"]))
            for e in c["vars"]:
                if e["kind"] in ("arr", "obj"):
                    continue
                d["values_total"] += 1
                d["value_length_max"] = max(d["value_length_max"], len(e["v"]) // 2)
                for cl in _classes_of(bytes.fromhex(e["v"])):
                    d["values_by_class"][cl] = d["values_by_class"].get(cl, 0) + 1
            groups = []
            for kind, label in (("direct", "direct(renderValue)"), ("cli", "cli(commands)")):
                k = o.get(kind)
                if isinstance(k, dict):
                    d["render_lines"][label] += 1
                    groups += [k.get("open_sh"), k.get("red_sh")]
            names = _scalar_names(c)
            valid = all(_NAME.match(n) for n in names)
            nul = any(b"\x00" in bytes.fromhex(e["v"]) for e in c["vars"] if e["kind"] not in ("arr", "obj")) or b"\x00" in bytes.fromhex(c["prefix"])
            if not valid:
                d["outside_property"]["invalid_name"] += 1
            elif nul:
                d["outside_property"]["nul_byte"] += 1
            else:
                judges = 0
                for sh in ("dash", "bash", "mvdan"):
                    if any(n.decode() in SPECIAL[sh] for n in names):
                        d["excused_special_name"][sh] += 1
                    elif all(isinstance(((o.get(kind) or {}).get(g) or {}).get(sh), dict) and "fin" in o[kind][g][sh]
                             for kind in ("direct", "cli") for g in ("open_sh", "red_sh")):
                        judges += 1
                d["render_cases_judged_by_n_interpreters"][str(judges)] += 1
            if i in known:
                d["known_class_file_shadows_variable"] += 1
        else:
            groups = [o.get("sh")]
            if i in nontriv:
                d["sh_cases_semantics_says_exports"] += 1
        for g in groups:
            for name in ("dash", "bash", "mvdan"):
                x = (g or {}).get(name) or {}
                k = name + (":skipped(" + x["skip"] + ")" if "skip" in x else ":run")
                d["interpreter_runs"][k] = d["interpreter_runs"].get(k, 0) + 1
                if x.get("skip") == "timeout-under-load":
                    d["timeout_under_load_skips"] += 1
    # interpreter quirks: scripts on which mvdan.cc/sh answered differently from dash and bash, which agree (never a failure
    # by itself: Corr.C17.deviates); the first ten are listed so that they can be added to SH_REGRESSIONS
    q = {"mvdan_differs_while_dash_and_bash_agree": 0, "dash_and_bash_differ": 0, "scripts": [], "scripts_dash_bash": []}
    seen = set()
    for c, o in zip(cases, r["obs"]):
        pairs = []
        if c["op"] == "sh":
            pairs.append((c["script"], o.get("sh")))
        else:
            for kind in ("direct", "cli"):
                k = o.get(kind) or {}
                pairs += [(k.get("open_shell"), k.get("open_sh")), (k.get("get_shell_red"), k.get("red_sh"))]
        for script, g in pairs:
            g = g or {}
            dsh, bsh, msh = g.get("dash") or {}, g.get("bash") or {}, g.get("mvdan") or {}
            if script in seen or "fin" not in dsh or "fin" not in bsh:
                continue
            names = set(re.findall(rb"export ([A-Za-z_][A-Za-z0-9_]*)=", bytes.fromhex(script)))
            if any(n.decode() in ALL_SPECIAL for n in names):
                continue
            if not (dsh.get("fin") and dsh.get("clean")) and not (bsh.get("fin") and bsh.get("clean")):
                continue  # both reference interpreters reject the script or report another effect: nothing is claimed for it
            if dsh != bsh:
                seen.add(script)
                q["dash_and_bash_differ"] += 1
                if len(q["scripts_dash_bash"]) < 10:
                    q["scripts_dash_bash"].append(repr(bytes.fromhex(script))[2:-1][:200])
            elif "fin" in msh and msh != dsh:
                seen.add(script)
                q["mvdan_differs_while_dash_and_bash_agree"] += 1
                if len(q["scripts"]) < 10:
                    q["scripts"].append(repr(bytes.fromhex(script))[2:-1][:200])
    d["interpreter_quirks"] = q
    # the probe: what each interpreter did with `export NAME=...`; compared with the lists of Model/Shell.v
    m = _probe_matrix(cases, r["obs"])
    sp = {"measured_special": {}, "listed_but_exact_in_this_run": {}, "not_listed_but_deviating": {}, "behaviour": {}}
    for sh in ("dash", "bash", "mvdan"):
        dev = sorted(n for n in m if m[n].get(sh, set()) - {"exact"} and not all(w.startswith("skip:") for w in m[n][sh]))
        sp["measured_special"][sh] = dev
        sp["listed_but_exact_in_this_run"][sh] = sorted(n for n in SPECIAL[sh] if n in m and n not in dev)
        sp["not_listed_but_deviating"][sh] = sorted(n for n in dev if n not in SPECIAL[sh])
    for n in sorted(m):
        if any(m[n].get(sh, set()) - {"exact"} for sh in m[n]):
            sp["behaviour"][n] = {sh: sorted(m[n][sh]) for sh in sorted(m[n])}
    sp["ordinary_in_all_three"] = sorted(n for n in m if all(m[n].get(sh) == {"exact"} for sh in ("dash", "bash", "mvdan")))
    d["special_names"] = sp
    return d


def search(rng, info):
    """Targeted search when an obligation or the correspondence is broken: the corpus, every single byte, all
    two-letter words over the special alphabet, each also as a hidden secret."""
    cases = [render_case([var(b"VALUE", v)], tag="corpus") for v in CORPUS + PERCENT]
    cases.append(render_case([var(b"TOKEN", b"s3cr3t-hunter2", secret=True, alt=b"0ther-value"), var(b"REGION", b"eu")],
                             [var(b"KUBECONFIG", b"apiVersion: v1\n")], tag="corpus"))
    for b in range(1, 256):
        cases.append(render_case([var(b"B", bytes([b]))], tag="byte"))
    for a in ALPHA:
        for b in ALPHA:
            cases.append(render_case([var(b"W", a + b)], tag="word2"))
            cases.append(render_case([var(b"S", b"s3cr3t" + a + b, secret=True, alt=b"other")], tag="secret"))
    return cases


def model_show(c, o):
    l = line(c, o)
    if c["op"] == "render" and isinstance(o.get("direct"), dict):
        l = _render_part(c, o["direct"], "render")
    hdr = "From Verif Require Import Base.Bytes Base.Wire Corr.C17.\nOpen Scope string_scope.\n"
    term = ('match parse_sexp "%s" with Some x => match Corr.C17.decode x with Some c => Corr.C17.model_show c | None => [] end '
            '| None => [] end' % l)
    rc, out = C.eval_terms(ID, hdr, [("M", term)])
    hexes = re.findall(r'Some\s+"([0-9a-f]*)"|(None)', out)
    shown = []
    for h, none in hexes:
        shown.append(None if none else repr(bytes.fromhex(h))[2:-1])
    names = ["open --format shell", "env get --value shell (hidden)", "open --format dotenv"] if c["op"] == "render" else ["sh_eval"]
    return "; ".join("%s = %s" % (n, "(not modelled / other effect)" if v is None else "'" + v + "'") for n, v in zip(names, shown))
