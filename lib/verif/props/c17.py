"""C17 — shell output reproduces values exactly."""
import re

from .. import common as C

ID = "C17"
SRC_FACTS = ["shell_line_prefix", "shell_line_suffix", "env_pair_sep", "secret_placeholder",
             "unknown_path_placeholder", "unknown_value_text", "shell_escaped_bytes"]
COQ_SAMPLE = 100
BATCH = 120
RULE = ("render cases (environment -> real renderValue -> /bin/sh, bash, mvdan.cc/sh): regression corpus; EXHAUSTIVE: every "
        "single byte 0x00-0xff as a value, all words of length 2 and 3 (thorough: 3 and 4) over the special alphabet "
        "{\\ \" $ ` ' LF space a 0xff n}; random environments of 1-5 variables and 0-2 files whose values are built from "
        "the property's character classes (spaces, quotes, backslashes, $, backquotes, newlines, control bytes, "
        "non-ASCII, invalid UTF-8, expansion/substitution canaries), kinds string/number/bool/null/array/object, "
        "secret and unknown flags, temp-file prefixes with special characters; malformed stream (invalid names, NUL "
        "bytes: rendering compared only).  sh cases (validation of the Coq shell semantics against the three "
        "interpreters): strconv.Quote-style scripts, random scripts over the fragment's grammar (double-quoted / "
        "single-quoted / unquoted segments, escapes, continuations), one-byte mutations of rendered scripts.  "
        "non-trivial = an in-scope render case with a value outside plain printable ASCII, or an sh case whose script "
        "the semantics evaluates to a non-empty list of exports; distinct by case content")
ASSUMPTIONS = [
    "the environment reaches renderValue as an esc.Environment value (what the API client deserialises); the harness "
    "builds it directly, so bytes that YAML/JSON transport cannot carry (invalid UTF-8) are covered as well",
    "variable names are valid ([A-Za-z_][A-Za-z0-9_]*), pairwise distinct across environmentVariables and files, and "
    "not variables the interpreter itself treats specially (Corr.C17.shell_magic_names: OPTIND, LINENO, PPID, UID, "
    "PATH, IFS, LC_*, ...); values contain no NUL byte (an environment variable cannot hold one)",
    "'evaluated' = the whole output is given to the interpreter as one script (sh -c \"$(esc open --format shell)\", "
    "eval \"$(...)\", or sourcing a file); an unquoted eval $(...) re-splits the text before the shell parses it and "
    "is not covered",
    "'no other effect' is observed as: exit status 0, nothing on stdout/stderr, no file appears in the (empty) working "
    "directory, no exported variable other than the environment's changes, no baseline variable disappears; for "
    "mvdan.cc/sh additionally no external command or file open is attempted and no unexported variable is set",
    "the dotenv format keeps strconv.Quote; its rendering is modelled for values whose bytes are all < 0x80 and only "
    "the redaction clause (independence of secret values) is checked for it on all values",
]
TRUSTED = [
    "/bin/sh (dash), /bin/bash and mvdan.cc/sh v3 as reference POSIX shell interpreters; /usr/bin/env -0 to read the "
    "resulting environment",
    "the POSIX `export NAME=word` semantics Model.Shell.sh_eval (hand-written from XCU 2.2; validated in every run: "
    "whenever it answers Exports l on a generated or rendered script, each interpreter must have performed exactly l)",
    "the in-memory escFS of the hook cmd/esc/cli/export_verif_c17.go (names temporary files <prefix>esc-<n>)",
]

ALPHA = [b"\\", b'"', b"$", b"`", b"'", b"\n", b" ", b"a", b"\xff", b"n"]

MAGIC = {"OPTIND", "LINENO", "PPID", "UID", "EUID", "GROUPS", "BASHOPTS", "SHELLOPTS", "BASHPID", "RANDOM", "SECONDS",
         "PWD", "OLDPWD", "SHLVL", "_", "IFS", "PATH", "ENV", "LANG", "TZ", "TERM", "HOME", "USER", "CANARY", "MAIL",
         "TMOUT", "PS1", "PS2", "PS4"}

CORPUS = [
    b"$HOME", b"a\nb", b"pa$$w0rd", b"`touch pwned`", b"$(touch pwned)", b"${CANARY}", b"$CANARY", b"\x1b[31mred\x1b[0m",
    b"-----BEGIN KEY-----\nMIIB\tVwIBADANBg==\n-----END KEY-----\n", b'{"hello":"world"}', b"esc", b"3.14", b"",
    b"it's", b'say "hi"', b"back\\slash", b"trailing\\", b"\\n not a newline", b"caf\xc3\xa9 \xe6\x97\xa5\xe6\x9c\xac",
    b"\xff\xfe\x80", b"\xc3", b"a\rb\r\n", b"tab\there", b"$", b"$$", b"$1 $? $! $- $@ $*", b'"; touch pwned; echo "',
    b"'; touch pwned; echo '", b"\\$(touch pwned)", b"\\`touch pwned\\`", b"$((1+1))", b"!! !$ #c ~ * ? [a-z] {a,b}",
    b"\x7f\x01\x02", b"\\x41\\u0041\\101", b" leading and trailing ", b"\n", b"\n\n", b"a\\\nb", b"%s %d \\c",
    b"\xe2\x80\xa8line sep", b"\xf0\x9f\x94\x91 key",
]

SEGMENTS = {
    "plain": [b"a", b"abc", b"Z9_", b"value", b"x=y", b"/usr/bin:/bin", b"a,b.c-d+e@f%g"],
    "space": [b" ", b"  ", b"\t", b" a b "],
    "quote": [b'"', b"'", b'""', b"''", b"'\"'", b'"x"', b"it's"],
    "backslash": [b"\\", b"\\\\", b"\\n", b"\\t", b"\\\"", b"\\$", b"\\`", b"\\x41", b"\\u00e9", b"\\'", b"\\ "],
    "dollar": [b"$", b"$$", b"$HOME", b"${CANARY}", b"$CANARY", b"$(touch pwned)", b"$(echo x)", b"$((1+2))", b"$1",
               b"$?", b"${", b"$(", b"$'a'", b'$"a"'],
    "backquote": [b"`", b"``", b"`touch pwned`", b"`echo x`", b"\\`"],
    "newline": [b"\n", b"\n\n", b"\r\n", b"\r", b"\\\n"],
    "control": [b"\x01", b"\x07", b"\x08", b"\x0b", b"\x0c", b"\x1b", b"\x1b[0m", b"\x7f", b"\x1f"],
    "nonascii": [b"\xc3\xa9", b"\xe6\x97\xa5", b"\xf0\x9f\x94\x91", b"\xc2\xa0", b"\xe2\x80\xa8", b"\xc2\x85"],
    "invalid": [b"\xff", b"\xfe", b"\x80", b"\xc3", b"\xe6\x97", b"\xc0\xaf", b"\xed\xa0\x80", b"\x81", b"\x88"],
    "shellmeta": [b";", b"&", b"|", b"<", b">", b"(", b")", b"*", b"?", b"[", b"]", b"~", b"#", b"!", b"{", b"}", b"="],
}
CLASSES = sorted(SEGMENTS)


def H(b):
    return b.hex()


def var(k, v, kind="str", secret=False, unknown=False, alt=None):
    e = {"k": H(k), "kind": kind, "v": H(v), "secret": secret, "unknown": unknown}
    if secret:
        e["alt"] = H(alt if alt is not None else (b"ALT-" + v[::-1] + b"-other"))
    return e


def render_case(vars_, files=(), prefix=b"/tmp/", tag=""):
    return {"op": "render", "prefix": H(prefix), "vars": list(vars_), "files": list(files), "tag": tag}


def gen_name(rng):
    first = "ABCDEFGHIJKLMNOPQRSTUVWXYZabcdefghijklmnopqrstuvwxyz_"
    rest = first + "0123456789"
    while True:
        n = rng.choice(first) + "".join(rng.choice(rest) for _ in range(rng.below(8)))
        if n not in MAGIC and not n.startswith(("BASH", "LC_", "COMP", "HIST")):
            return n.encode()


def gen_value(rng, maxseg=6):
    out = b""
    focus = [rng.choice(CLASSES) for _ in range(1 + rng.below(3))]
    for _ in range(rng.below(maxseg + 1)):
        cls = rng.choice(focus) if rng.chance(2, 3) else rng.choice(CLASSES)
        out += rng.choice(SEGMENTS[cls])
    return out


def gen_entry(rng, key, allow_flags=True):
    k = rng.below(20)
    secret = allow_flags and rng.chance(3, 10)
    unknown = allow_flags and rng.chance(1, 25)
    if k < 13:
        return var(key, gen_value(rng), "str", secret, unknown, alt=gen_value(rng) + b"~alt")
    if k < 15:
        return var(key, rng.choice([b"3.14", b"42", b"-1", b"1e10", b"0", b"12345678901234567890"]), "num", secret, unknown,
                   alt=b"777")
    if k < 17:
        return var(key, rng.choice([b"true", b"false"]), "bool", secret, unknown, alt=b"false")
    if k < 18:
        return var(key, b"", "null", secret, unknown, alt=b"")
    return var(key, gen_value(rng), rng.choice(["arr", "obj"]), secret, unknown, alt=b"zz")


def gen_prefix(rng):
    if rng.chance(3, 4):
        return rng.choice([b"/tmp/", b"temp/", b"/var/folders/x_/T/"])
    return rng.choice([b"/tmp/my dir/", b"/tmp/$HOME/", b"/tmp/`touch pwned`/", b"/tmp/\"q\"/", b"/tmp/caf\xc3\xa9/", b"C:\\Temp\\",
                       b"/tmp/a'b/", b"/tmp/$(touch pwned)/", b"/tmp/nl\n/"])


def gen_random_render(rng, tag="random"):
    names = []
    while len(names) < 7:
        n = gen_name(rng)
        if n not in names:
            names.append(n)
    nfiles = rng.below(3) if rng.chance(1, 2) else 0
    fnames, vnames = names[:nfiles], names[nfiles:nfiles + 1 + rng.below(5)]
    vs = [gen_entry(rng, n) for n in vnames]
    fs = [gen_entry(rng, n) for n in fnames]
    return render_case(vs, fs, gen_prefix(rng), tag)


BAD_NAMES = [b"", b"1ABC", b"A-B", b"A B", b"A=B", b"A.B", b"caf\xc3\xa9", b"A\nB", b"$(touch pwned)", b"`touch pwned`", b"A;touch pwned;B",
             b"a\"b", b"A$B", b"\xff"]


def go_quote_ascii(v):
    out = '"'
    for b in v:
        c = chr(b)
        if c == '"':
            out += '\\"'
        elif c == "\\":
            out += "\\\\"
        elif c in "\a\b\f\n\r\t\v":
            out += "\\" + "abfnrtv"["\a\b\f\n\r\t\v".index(c)]
        elif 32 <= b <= 126:
            out += c
        else:
            out += "\\x%02x" % b
    return (out + '"').encode()


def sh_case(script, tag):
    names = sorted(set(re.findall(rb"export ([A-Za-z_][A-Za-z0-9_]*)=", script)))
    return {"op": "sh", "script": H(script), "names": [H(n) for n in names], "tag": tag}


DQ_PIECES = [b"a", b"b c", b"\\$", b"\\\"", b"\\\\", b"\\`", b"\\n", b"\\a", b"\\'", b"\\ ", b"\\\n", b"\n", b"'", b" ", b"\t", b"\xc3\xa9",
             b"\xff", b";", b"&", b"*", b"~", b"#", b"!", b"(", b"{", b"=", b"\x01", b"\x7f", b"\x81", b"\r"]
DQ_RISKY = [b"$", b"`", b"$X", b"`x`"]
SQ_PIECES = [b"a", b" ", b'"', b"$", b"`", b"\\", b"\\n", b"\n", b"\xff", b"\xc3\xa9", b"$(touch pwned)", b";", b"\x01", b"*", b"~"]
UQ_PIECES = [b"a", b"Z", b"0", b"_", b"+", b",", b"-", b".", b"/", b":", b"=", b"@", b"%", b"\\ ", b"\\\"", b"\\$", b"\\\\", b"\\'", b"\\`",
             b"\\\n", b"\\a", b"\\;", b"\\*", b"\\\xff"]
UQ_RISKY = [b" ", b";", b"$", b"*", b"~", b"#", b"&", b"`", b"\t", b"!", b"^", b"{", b"\xff", b"?", b"[", b"|", b"<", b"("]


def gen_word(rng):
    w = b""
    for _ in range(rng.below(5)):
        k = rng.below(3)
        if k == 0:
            body = b"".join(rng.choice(DQ_RISKY) if rng.chance(1, 25) else rng.choice(DQ_PIECES) for _ in range(rng.below(6)))
            w += b'"' + body + b'"'
        elif k == 1:
            w += b"'" + b"".join(rng.choice(SQ_PIECES) for _ in range(rng.below(5))) + b"'"
        else:
            w += b"".join(rng.choice(UQ_RISKY) if rng.chance(1, 25) else rng.choice(UQ_PIECES) for _ in range(1 + rng.below(4)))
    return w


def gen_script(rng):
    lines = []
    for _ in range(1 + rng.below(3)):
        name = gen_name(rng) if rng.chance(19, 20) else rng.choice([b"1A", b"A-B", b""])
        kw = b"export " if rng.chance(24, 25) else rng.choice([b"export  ", b"export\t", b"exprt ", b"", b"readonly ", b" export "])
        lines.append(kw + name + b"=" + gen_word(rng))
    s = b"\n".join(lines)
    if rng.chance(4, 5):
        s += b"\n"
    if rng.chance(1, 30):
        s += rng.choice([b"\n", b"export", b"\"", b"'", b"\\"])
    return s


def model_render(pairs):
    """Python twin of the repaired rendering, used only to SHAPE sh-validation inputs (mutations of rendered scripts)."""
    out = b""
    for k, v in pairs:
        q = b""
        for b in v:
            if b in b'$`"\\':
                q += b"\\"
            q += bytes([b])
        out += b"export " + k + b'="' + q + b'"\n'
    return out


def gen(rng, tier):
    thorough = tier == "thorough"
    cases = []
    # --- regression corpus first --------------------------------------------------------------------------------
    for v in CORPUS:
        cases.append(render_case([var(b"VALUE", v)], tag="corpus"))
    cases.append(render_case([var(b"BOOLEAN", b"true", "bool"), var(b"NULLV", b"", "null"), var(b"NUMBER", b"3.14", "num"),
                              var(b"OBJECT", b'{"hello":"world"}'), var(b"SECRET", b"secretAccessKey", secret=True),
                              var(b"STRING", b"esc"), var(b"ARRAY", b"x", "arr")], [var(b"FILE", b"esc")], b"temp/", "corpus"))
    cases.append(render_case([var(b"TOKEN", b"$(touch pwned)`touch pwned`", secret=True, alt=b"other"), var(b"REGION", b"eu")],
                             [var(b"KUBECONFIG", b"apiVersion: v1\n", secret=True, alt=b"x")], tag="corpus"))
    cases.append(render_case([], [], tag="corpus"))
    # --- exhaustive small families --------------------------------------------------------------------------------
    for b in range(256):
        cases.append(render_case([var(b"B", bytes([b]))], tag="byte"))
    lens = (3, 4) if thorough else (2, 3)
    for n in lens:
        alpha = ALPHA if (n < 4) else ALPHA[:6]
        if not thorough and n == 3:
            alpha = ALPHA[:7]
        for idx in range(len(alpha) ** n):
            w, x = b"", idx
            for _ in range(n):
                w += alpha[x % len(alpha)]
                x //= len(alpha)
            cases.append(render_case([var(b"W", w)], tag="word%d" % n))
    # secrets: every single special byte as a hidden secret
    for a in ALPHA:
        cases.append(render_case([var(b"S", b"s3cr3t" + a + b"x", secret=True, alt=b"other" + a)], tag="secret"))
    # --- random structured stream --------------------------------------------------------------------------------
    r = rng.fork("render")
    for _ in range(6000 if thorough else 450):
        cases.append(gen_random_render(r))
    # --- malformed stream: invalid names, NUL bytes (rendering compared; outside the property) ----------------------
    m = rng.fork("malformed")
    for bad in BAD_NAMES:
        cases.append(render_case([var(bad, b"v"), var(b"OK", b"w")], tag="badname"))
        cases.append(render_case([var(b"OK", b"w")], [var(bad, b"v")], tag="badname"))
    for _ in range(400 if thorough else 60):
        c = gen_random_render(m, "malformed")
        k = m.below(4)
        if k == 0 and c["vars"]:
            c["vars"][0]["v"] = H(bytes.fromhex(c["vars"][0]["v"]) + b"\x00" + gen_value(m))
        elif k == 1 and c["vars"]:
            c["vars"][0]["k"] = H(m.choice(BAD_NAMES))
        elif k == 2 and c["vars"]:
            c["files"] = [dict(c["vars"][0], v=H(b"content"))]  # a file named like a variable
        else:
            c["prefix"] = H(b"/tmp/\x00/")
        cases.append(c)
    # --- validation of the shell semantics ----------------------------------------------------------------------------
    s = rng.fork("sh")
    for v in CORPUS:
        if all(b < 128 for b in v):
            cases.append(sh_case(b"export K=" + go_quote_ascii(v) + b"\n", "goquote"))
    for b in range(128):
        cases.append(sh_case(b"export K=" + go_quote_ascii(bytes([b])) + b"\n", "goquote"))
    for _ in range(1500 if thorough else 150):
        v = bytes(x for x in gen_value(s) if x < 128)
        cases.append(sh_case(b"export " + gen_name(s) + b"=" + go_quote_ascii(v) + b"\n", "goquote"))
    for _ in range(5000 if thorough else 500):
        cases.append(sh_case(gen_script(s), "grammar"))
    for _ in range(2500 if thorough else 250):
        pairs = [(gen_name(s), gen_value(s, 4)) for _ in range(1 + s.below(2))]
        script = bytearray(model_render(pairs))
        pos = s.below(len(script) + 1)
        ins = s.choice(ALPHA + [b"\\\\", b"\\\"", b"x"])
        k = s.below(3)
        if k == 0:
            script[pos:pos] = ins
        elif k == 1 and pos < len(script):
            del script[pos]
        elif pos < len(script):
            script[pos:pos + 1] = ins
        if b"\x00" in script:
            continue
        cases.append(sh_case(bytes(script), "mutated"))
    return cases


def prepare(c):
    q = {k: v for k, v in c.items() if k != "tag"}
    return q


def _kind(k):
    return {"arr": "other", "obj": "other"}.get(k, k)


def _entry(e):
    return "(x%s %s x%s %s %s)" % (e["k"], _kind(e["kind"]), e["v"], "t" if e.get("secret") else "f",
                                   "t" if e.get("unknown") else "f")


def _obs(o):
    if not isinstance(o, dict) or "skip" in o or "fin" not in o:
        return "skip"
    return "(%s %s (%s))" % ("t" if o["fin"] else "f", "t" if o["clean"] else "f",
                             " ".join("(x%s x%s)" % (k, v) for k, v in o.get("vars") or []))


def _sh3(o):
    o = o or {}
    return "(%s %s %s)" % (_obs(o.get("dash")), _obs(o.get("bash")), _obs(o.get("mvdan")))


OUTS = ["open_shell", "get_shell_red", "get_shell_red_alt", "get_shell_show", "open_dotenv", "get_dotenv_red", "get_dotenv_red_alt"]


def line(c, o):
    if "panic" in o or "crash" in o or "error" in o:
        return "(crash)"  # no verdict: reported as a broken correspondence by the driver
    if c["op"] == "render":
        if any((k + "_err") in o for k in OUTS) or any(k not in o for k in OUTS):
            return "(crash)"
        return "(render x%s (%s) (%s) (%s) %s %s)" % (
            c["prefix"], " ".join(_entry(e) for e in c["vars"]), " ".join(_entry(e) for e in c["files"]),
            " ".join("x" + o[k] for k in OUTS), _sh3(o.get("open_sh")), _sh3(o.get("red_sh")))
    if c["op"] == "sh":
        return "(sh x%s %s)" % (c["script"], _sh3(o.get("sh")))
    return None


def shrink(c):
    if c["op"] != "render":
        s = bytes.fromhex(c["script"])
        lines = s.split(b"\n")
        for i in range(len(lines)):
            if len(lines) > 1:
                yield sh_case(b"\n".join(lines[:i] + lines[i + 1:]), c.get("tag", ""))
        for i in range(min(len(s), 50)):
            yield sh_case(s[:i] + s[i + 1:], c.get("tag", ""))
        return
    for key in ("vars", "files"):
        for i in range(len(c[key])):
            d = dict(c)
            d[key] = c[key][:i] + c[key][i + 1:]
            yield d
    if c["prefix"] != H(b"/tmp/"):
        yield dict(c, prefix=H(b"/tmp/"))
    for key in ("vars", "files"):
        for i, e in enumerate(c[key]):
            v = bytes.fromhex(e["v"])
            cands = []
            if len(v) > 1:
                cands += [v[: len(v) // 2], v[len(v) // 2:]]
            cands += [v[:j] + v[j + 1:] for j in range(min(len(v), 12))]
            for w in cands:
                d = dict(c)
                d[key] = c[key][:i] + [dict(e, v=H(w))] + c[key][i + 1:]
                yield d
            if e.get("secret") or e.get("unknown"):
                d = dict(c)
                d[key] = c[key][:i] + [dict(e, secret=False, unknown=False)] + c[key][i + 1:]
                yield d


def describe(c):
    if c["op"] == "sh":
        return {"op": "sh", "tag": c.get("tag"), "script": repr(bytes.fromhex(c["script"]))[2:-1][:200]}
    return {"op": "render", "tag": c.get("tag"), "prefix": repr(bytes.fromhex(c["prefix"]))[2:-1],
            "vars": [[repr(bytes.fromhex(e["k"]))[2:-1], e["kind"], repr(bytes.fromhex(e["v"]))[2:-1][:80],
                      "secret" if e.get("secret") else ""] for e in c["vars"]][:4],
            "files": len(c["files"])}


def _classes_of(v):
    out = set()
    for b in v:
        if b in b" \t":
            out.add("space")
        elif b in b"'\"":
            out.add("quote")
        elif b == 0x5c:
            out.add("backslash")
        elif b == 0x24:
            out.add("dollar")
        elif b == 0x60:
            out.add("backquote")
        elif b in b"\n\r":
            out.add("newline")
        elif b == 0:
            out.add("nul")
        elif b < 32 or b == 127:
            out.add("control")
        elif b >= 128:
            out.add("non-ascii")
    try:
        v.decode("utf-8")
    except UnicodeDecodeError:
        out.add("invalid-utf8")
    return out


def distribution(cases, r):
    d = {"cases_by_family": {}, "values_total": 0, "values_by_class": {}, "interpreter_runs": {}, "sh_cases_semantics_says_exports": 0}
    nontriv = set(r["nontrivial"])
    for i, (c, o) in enumerate(zip(cases, r["obs"])):
        fam = c["op"] + ":" + c.get("tag", "")
        d["cases_by_family"][fam] = d["cases_by_family"].get(fam, 0) + 1
        if c["op"] == "render":
            for e in c["vars"]:
                if e["kind"] in ("arr", "obj"):
                    continue
                d["values_total"] += 1
                for cl in _classes_of(bytes.fromhex(e["v"])):
                    d["values_by_class"][cl] = d["values_by_class"].get(cl, 0) + 1
            groups = [o.get("open_sh"), o.get("red_sh")]
        else:
            groups = [o.get("sh")]
            if i in nontriv:
                d["sh_cases_semantics_says_exports"] += 1
        for g in groups:
            for name in ("dash", "bash", "mvdan"):
                x = (g or {}).get(name) or {}
                k = name + (":skipped(" + x["skip"] + ")" if "skip" in x else ":run")
                d["interpreter_runs"][k] = d["interpreter_runs"].get(k, 0) + 1
    return d


def search(rng, info):
    """Targeted search when an obligation or the correspondence is broken: the corpus, every single byte, all
    two-letter words over the special alphabet, each also as a hidden secret."""
    cases = [render_case([var(b"VALUE", v)], tag="corpus") for v in CORPUS]
    for b in range(1, 256):
        cases.append(render_case([var(b"B", bytes([b]))], tag="byte"))
    for a in ALPHA:
        for b in ALPHA:
            cases.append(render_case([var(b"W", a + b)], tag="word2"))
            cases.append(render_case([var(b"S", b"s3cr3t" + a + b, secret=True, alt=b"other")], tag="secret"))
    return cases


def model_show(c, o):
    l = line(c, o)
    hdr = "From Verif Require Import Base.Bytes Base.Wire Corr.C17.\nOpen Scope string_scope.\n"
    term = ('match parse_sexp "%s" with Some x => match Corr.C17.decode x with Some c => Corr.C17.model_show c | None => [] end '
            '| None => [] end' % l)
    rc, out = C.eval_terms(ID, hdr, [("M", term)])
    hexes = re.findall(r'Some\s+"([0-9a-f]*)"|(None)', out)
    shown = []
    for h, none in hexes:
        shown.append(None if none else repr(bytes.fromhex(h))[2:-1])
    names = ["open --format shell", "env get --value shell (hidden)", "open --format dotenv"] if c["op"] == "render" else ["sh_eval"]
    return "; ".join("%s = %s" % (n, "(not modelled / other effect)" if v is None else "'" + v + "'") for n, v in zip(names, shown))
