"""C06 — checking has no effects and soundly approximates opening."""
from .. import common as C
from .. import evalgen as G

ID = "C06"
impl_prop = "EV"
SRC_FACTS = []
COQ_SAMPLE = 30
RULE = ("worlds mixing static data, plaintext and ciphertext secrets, references, built-ins and providers (constant outputs "
        "with closed record/tuple/scalar schemas, echo, failing), each evaluated three times: check, check with showSecrets, "
        "open; all three compared with the model in the same mode; oracle on the implementation: no Open in check, no Decrypt "
        "unless showSecrets, and approx(check, open).  non-trivial = the open run calls a provider or the decrypter")
ASSUMPTIONS = ["'objects keep at least the properties check reports' is checked as key inclusion; whether an extra key of the "
               "opened value sits above an unknown base is not visible in the exported value and is not decided",
               "the schema clause (check's Environment.Schema accepts the opened value) is exercised for the closed "
               "record/tuple/scalar outputs of the generator through the model's schema functions"]
TRUSTED = []


def merged_over_unknown(rng):
    """an object merged over a provider output / ciphertext of an import, read by aggregate built-ins"""
    r = rng
    src = r.choice([("open", "p", ("obj", [])), ("obj", [("t", ("cipher", G.envelope_repr(b"ct-one")))])])
    sink = r.choice(["tojson", "tostring", "join", "interp", "sym"])
    ref = ("sym", [("name", "cfg")])
    e = {"tojson": ("tojson", ref), "tostring": ("tostring", ref), "join": ("join", ("str", ","), ("arr", [("tojson", ref)])),
         "interp": G.norm_interp([("v=", [("name", "cfg")]), ("", None)]), "sym": ref}[sink]
    envs = {"base": {"imports": [], "values": [("cfg", src)]},
            "root": {"imports": [("base", True)], "values": [("cfg", ("obj", [("a", ("num", "1"))])), ("js", e)]}}
    c = G.case_from_graph(envs, "root")
    c["provs"] = {"p": {"in": "always", "out": "always", "beh": "const", "const": G.xspec({"b": ("num", "2")})}}
    c["sites"] = []
    return c


def unknown_member_stringified(rng):
    """an object with a member check cannot know (provider output, undisclosed ciphertext), sorted BEFORE or AFTER statically
    known siblings, rendered to a string by interpolation / fn::toString / fn::join / nested arrays"""
    r = rng
    unk = r.choice([("open", "p", ("obj", [])), ("cipher", G.envelope_repr(b"ct-one"))])
    ukey = r.choice(["apiToken", "zzToken", "mid"])
    members = [(ukey, unk), ("zone", ("str", "z1")), ("aaa", ("num", "1"))][: 2 + r.below(2)]
    obj = ("obj", r.shuffle(members))
    holder = r.choice([obj, ("arr", [obj, ("str", "x")]), ("obj", [("inner", obj)])])
    ref = [("name", "cloud")]
    sinks = [("s0", G.norm_interp([("cloud: ", ref), ("", None)])), ("s1", ("tostring", ("sym", ref))),
             ("s2", ("join", ("str", ","), ("arr", [("tostring", ("sym", ref)), ("str", "t")]))),
             ("s3", ("tob64", ("tostring", ("sym", ref))))]
    vals = [("cloud", holder)] + r.shuffle(sinks)[: 1 + r.below(4)]
    c = G.case_from_graph({"root": {"imports": [], "values": vals}}, "root")
    c["provs"] = {"p": {"in": "always", "out": "always", "beh": "const", "const": G.xspec("token-from-provider")}}
    c["sites"] = []
    return c


def gen(rng, tier):
    n = 4000 if tier == "thorough" else 350
    cases = [merged_over_unknown(rng.fork("m%d" % i)) for i in range(40 if tier == "thorough" else 16)]
    cases += [unknown_member_stringified(rng.fork("u%d" % i)) for i in range(120 if tier == "thorough" else 40)]
    cases += G.flag_matrix_worlds()
    for i in range(n):
        clean = rng.chance(3, 4)
        g = G.RichGen(rng.fork("w%d" % i), bad_refs=not clean, nonobject_inputs=False, faulty=not clean)
        cases.append(g.world(depth=2))
    return cases


def prepare(c):
    return G.request(c, multi=[{"check": True, "show": False}, {"check": True, "show": True}, {"check": False, "show": False}])


def line(c, o):
    m = o.get("multi") or [{"crash": "missing"}] * 3
    if "crash" in o or "panic" in o:
        m = [o, o, o]
    return "(c06 %s %s %s %s %s %s)" % (G.sx(c["name"]), G.w_envdef(c["def"]), G.w_world(c), G.w_obs(m[0]), G.w_obs(m[1]), G.w_obs(m[2]))


def describe(c):
    return {"root": G.render_env(c["def"]), "imports": {n: G.render_env(e["def"]) for n, e in c["envs"].items()},
            "providers": {k: {"out": v["out"], "beh": v["beh"]} for k, v in c["provs"].items()}}


def shrink(c):
    d = c["def"]
    for i in range(len(d["values"])):
        yield dict(c, **{"def": {"imports": d["imports"], "values": d["values"][:i] + d["values"][i + 1:]}})
    for i in range(len(d["imports"])):
        yield dict(c, **{"def": {"imports": d["imports"][:i] + d["imports"][i + 1:], "values": d["values"]}})


def distribution(cases, r):
    d = {"open_runs_with_provider_call": 0, "open_runs_with_decrypt": 0, "open_runs_with_errors": 0, "crash_or_panic": 0}
    for c, o in zip(cases, r["obs"]):
        m = o.get("multi") or []
        if len(m) == 3:
            lg = m[2].get("log") or []
            d["open_runs_with_provider_call"] += 1 if any(e[0] == "open" for e in lg) else 0
            d["open_runs_with_decrypt"] += 1 if any(e[0] == "decrypt" for e in lg) else 0
            d["open_runs_with_errors"] += 1 if m[2].get("errors") else 0
        if "crash" in o or "panic" in o:
            d["crash_or_panic"] += 1
    return d
