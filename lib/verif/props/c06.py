"""C06 — checking has no effects and soundly approximates opening."""
from .. import common as C
from .. import evalgen as G
from . import c06_schema_cases as SC     # the schema clause: generators, conformance of providers, wire of the schema part

ID = "C06"
impl_prop = "C06S"        # harness/cmd/implrun/c06schema.go: the EV three-run answer + Environment.Schema + opened JSON
SRC_FACTS = []
COQ_SAMPLE = 30
RULE = ("worlds mixing static data, plaintext and ciphertext secrets, references, built-ins and providers (constant outputs "
        "with closed record/tuple/scalar schemas, echo, failing), each evaluated three times: check, check with showSecrets, "
        "open; all three compared with the model in the same mode (value, diagnostics flag, call log, and the schema of the "
        "root value); oracle on the implementation: no Open in check, no Decrypt "
        "unless showSecrets, and approx(check, open).  Schema clause (Corr/C06Schema.v, implementation alone): in every case "
        "whose open run has no diagnostics and no unknowns and whose called providers returned values their declared output "
        "schemas accept (computed per case), vspec (JSON Schema 2020-12) must not reject the opened value against the "
        "Environment.Schema of either check run; extra families: one provider output consumed through access / interpolation / "
        "join / toJSON / toString / toBase64 / arrays / nested objects / merged under and over literals of imports / inputs of a "
        "second provider, with exact, loose (partial records, open tuples, bare types) and `always` declared schemas; "
        "literal-only import graphs; providers declaring anyOf / oneOf of records (schema oracle only); unopened closed / "
        "map-like / nested provider records merged under and over literals with references before and after their targets "
        "(model-vs-implementation schema comparison at the border of Corr/C06Schema.hist_class, and the schema clause's "
        "oracle like everywhere else); regression corpus: the minimal programs of the seven recorded schema findings "
        "(merge-required is fixed) with their neighbours that must be accepted, among them references through a non-object "
        "layer of an import (merge-through-cut), literals over a member the provider may not return (merge-optional-member) "
        "and readers of a member covered by a surviving additionalProperties (merge-open-base).  A schema failure counts as "
        "a recorded finding only where the evaluator model predicts the schemas the implementation reported (outside "
        "hist_class) and, for merge-through-cut, only below the paths where the model has a hidden cut.  "
        "non-trivial = the open run calls a provider or the decrypter, or the case is inside the schema clause's hypothesis "
        "and decided")
ASSUMPTIONS = ["'objects keep at least the properties check reports' is checked as key inclusion; whether an extra key of the "
               "opened value sits above an unknown base is not visible in the exported value and is not decided",
               "schema clause: decided by vspec on esc's schema JSON minus annotations (title, description, default, "
               "deprecated, examples, secret) and minus `\"type\": \"\"` (esc's spelling of an absent type); schemas or values "
               "outside Model/Schema.v's vocabulary ($ref/$defs, non-integral numerals, unknown keywords) are counted as "
               "outside (distribution.schema_clause), never guessed",
               "schema clause, known classes (Corr/C06Schema.known): seven decidable classes, each a precondition on the input "
               "plus the relaxation of the reported schema that neutralises exactly that symptom; class merge-through-cut is "
               "decided on the evaluator model (Corr/C06Schema.cut_paths: paths whose chain has an object / non-object / "
               "object pattern of layer schemas that the schema-level merge does not see), every class counts only where the "
               "model predicts the schemas the implementation reported (negb sch_mismatch); counts per class and family in "
               "distribution.schema_clause",
               "schema clause: `providers conform` is computed in Python (props/c06_schema_cases.conforms) from the constant "
               "and the declared output schema of every provider the open run called; echo providers declare `always`",
               "model vs implementation on schemas: Environment.Schema of all three runs is compared with the evaluator model's "
               "schema of the root value (top_sch of the root chain, merged once more with the base's as eval.go:123-130 does) "
               "after projecting esc's schema onto the model's vocabulary (type / prefixItems+items / properties+"
               "additionalProperties / oneOf / true / false; const, required and annotations projected away); a difference is a "
               "`mismatch` OUTSIDE Corr/C06Schema.hist_class (the model memoises a value merged over a base whose non-nil "
               "additionalProperties it absorbs: Go's schema then depends on how often the value has been merged - copies made "
               "by references, in-place re-merges by the parent, evaluation order - which the model's recomputed chain schema "
               "does not follow; inside the class the comparison is a measurement: disagree_inside_history_class / "
               "agree_inside_history_class); implementation schemas outside that vocabulary (anyOf of providers) are skipped "
               "and counted (coverage.schema_model_vs_impl)"]
TRUSTED = []


def merged_over_unknown(rng):
    """an object merged over a provider output / ciphertext of an import, read by aggregate built-ins"""
    r = rng
    src = r.choice([("open", "p", ("obj", [])), ("obj", [("t", ("cipher", G.envelope_repr(b"ct-one")))])])
    sink = r.choice(["tojson", "tostring", "join", "interp", "sym"])
    ref = ("sym", [("name", "cfg")])
    e = {"tojson": ("tojson", ref), "tostring": ("tostring", ref), "join": ("join", ("str", ","), ("arr", [("tojson", ref)])),
         "interp": G.norm_interp([("v=", [("name", "cfg")]), ("", None)]), "sym": ref}[sink]
    envs = {"base": {"imports": [], "values": [("cfg", src)]},
            "root": {"imports": [("base", True)], "values": [("cfg", ("obj", [("a", ("num", "1"))])), ("js", e)]}}
    c = G.case_from_graph(envs, "root")
    c["provs"] = {"p": {"in": "always", "out": "always", "beh": "const", "const": G.xspec({"b": ("num", "2")})}}
    c["sites"] = []
    return c


def unknown_member_stringified(rng):
    """an object with a member check cannot know (provider output, undisclosed ciphertext), sorted BEFORE or AFTER statically
    known siblings, rendered to a string by interpolation / fn::toString / fn::join / nested arrays"""
    r = rng
    unk = r.choice([("open", "p", ("obj", [])), ("cipher", G.envelope_repr(b"ct-one"))])
    ukey = r.choice(["apiToken", "zzToken", "mid"])
    members = [(ukey, unk), ("zone", ("str", "z1")), ("aaa", ("num", "1"))][: 2 + r.below(2)]
    obj = ("obj", r.shuffle(members))
    holder = r.choice([obj, ("arr", [obj, ("str", "x")]), ("obj", [("inner", obj)])])
    ref = [("name", "cloud")]
    sinks = [("s0", G.norm_interp([("cloud: ", ref), ("", None)])), ("s1", ("tostring", ("sym", ref))),
             ("s2", ("join", ("str", ","), ("arr", [("tostring", ("sym", ref)), ("str", "t")]))),
             ("s3", ("tob64", ("tostring", ("sym", ref))))]
    vals = [("cloud", holder)] + r.shuffle(sinks)[: 1 + r.below(4)]
    c = G.case_from_graph({"root": {"imports": [], "values": vals}}, "root")
    c["provs"] = {"p": {"in": "always", "out": "always", "beh": "const", "const": G.xspec("token-from-provider")}}
    c["sites"] = []
    return c


def gen(rng, tier):
    thorough = tier == "thorough"
    n = 4000 if thorough else 350
    cases = [merged_over_unknown(rng.fork("m%d" % i)) for i in range(40 if thorough else 16)]
    cases += [unknown_member_stringified(rng.fork("u%d" % i)) for i in range(120 if thorough else 40)]
    cases += G.flag_matrix_worlds() + G.provider_layer_worlds(thorough)
    for i in range(n):
        clean = rng.chance(3, 4)
        g = G.RichGen(rng.fork("w%d" % i), bad_refs=not clean, nonobject_inputs=False, faulty=not clean)
        # the loose / bare output schemas RichGen picks blindly are re-declared so that most of them conform (schema clause)
        cases.append(SC.fix_world(rng.fork("fx%d" % i), g.world(depth=2)))
    # ---- the schema clause's own families ----
    cases += SC.regression_worlds()
    cases += [SC.consumer_world(rng.fork("sc%d" % i)) for i in range(3000 if thorough else 260)]
    cases += [SC.literal_world(rng.fork("sl%d" % i)) for i in range(600 if thorough else 60)]
    cases += [SC.union_world(rng.fork("su%d" % i)) for i in range(600 if thorough else 60)]
    # ---- schemas that depend on the merge history: the border of Corr/C06Schema.hist_class ----
    cases += SC.history_regressions()
    cases += [SC.history_world(rng.fork("sh%d" % i)) for i in range(2500 if thorough else 250)]
    return cases


def prepare(c):
    extra = {"json_provs": True} if c.get("schema_only") else {}
    return G.request(c, multi=[{"check": True, "show": False}, {"check": True, "show": True}, {"check": False, "show": False}],
                     **extra)


def multi_of(o):
    m = o.get("multi") or [{"crash": "missing"}] * 3
    if "crash" in o or "panic" in o:
        m = [o, o, o]
    return m


def line(c, o):
    m = multi_of(o)
    if SC.schema_part(c, m) is None:
        # some run crashed or panicked: the plain line (whose observations decode to ICrash / IPanic) fails the case
        return "(c06 %s %s %s %s %s %s)" % (G.sx(c["name"]), G.w_envdef(c["def"]), G.w_world(dict(c, provs={}) if c.get("schema_only") else c),
                                            G.w_obs(m[0]), G.w_obs(m[1]), G.w_obs(m[2]))
    if c.get("schema_only"):
        # providers declaring unions: outside the evaluator model's vocabulary; the schema oracle alone
        return "(c06s %s %s)" % (G.w_envdef(c["def"]), SC.schema_part(c, m))
    if c.get("schema_cmp_only"):
        # history family: the model's schema against the implementation's (outside Corr/C06Schema.hist_class), nothing else
        return "(c06h %s %s %s %s)" % (G.sx(c["name"]), G.w_envdef(c["def"]), G.w_world(c), SC.schema_part(c, m))
    return "(c06 %s %s %s %s %s %s %s)" % (G.sx(c["name"]), G.w_envdef(c["def"]), G.w_world(c), G.w_obs(m[0]), G.w_obs(m[1]),
                                          G.w_obs(m[2]), SC.schema_part(c, m))


def describe(c):
    return {"root": G.render_env(c["def"]), "imports": {n: G.render_env(e["def"]) for n, e in c["envs"].items() if e["kind"] == "def"},
            "providers": {k: dict({"out": v["out"], "beh": v["beh"]}, **({"returns": SC.plain(v["const"])} if v["beh"] == "const" else {}))
                          for k, v in c["provs"].items()}}


def shrink(c):
    d = c["def"]
    for i in range(len(d["values"])):
        yield dict(c, **{"def": {"imports": d["imports"], "values": d["values"][:i] + d["values"][i + 1:]}})
    for i in range(len(d["imports"])):
        yield dict(c, **{"def": {"imports": d["imports"][:i] + d["imports"][i + 1:], "values": d["values"]}})


def distribution(cases, r):
    d = {"open_runs_with_provider_call": 0, "open_runs_with_decrypt": 0, "open_runs_with_errors": 0, "crash_or_panic": 0}
    d["schema_clause"] = SC.measure(ID, cases, r)
    for c, o in zip(cases, r["obs"]):
        m = o.get("multi") or []
        if len(m) == 3:
            lg = m[2].get("log") or []
            d["open_runs_with_provider_call"] += 1 if any(e[0] == "open" for e in lg) else 0
            d["open_runs_with_decrypt"] += 1 if any(e[0] == "decrypt" for e in lg) else 0
            d["open_runs_with_errors"] += 1 if m[2].get("errors") else 0
        if "crash" in o or "panic" in o:
            d["crash_or_panic"] += 1
    return d


def extra_evidence():
    return dict(SC.EXTRA)
