"""C11 — secret envelopes round-trip and reject corruption."""
import base64
import struct
import zlib

from .. import common as C

ID = "C11"
SRC_FACTS = ["envelope_magic", "envelope_version", "envelope_min_len"]
RULE = ("round: exhaustive ciphertexts of length 0..8 over {00,ff,'a'} (quick: 0..5) and lengths 0..64 of a filler, "
        "random beyond; mask: all 1- and 2-bit flips of envelopes <= 24 bytes (quick: sampled 2-bit), sampled 3-bit, "
        "all byte-aligned 4-byte windows with random content, random <=32-bit bursts incl. boundary-straddling; "
        "trunc: every truncation; forge: magic/version edits with a valid CRC; dec: malformed base64 / random "
        "strings.  Every text is also taken through eval.DecryptSecrets (document) and the evaluator's fn::secret "
        "with a recording decrypter - it must receive exactly the decoder's payload, and nothing for a rejected "
        "text - and the decoder's result is re-read after two unrelated decodes (the caller owns it).  "
        "non-trivial = mask non-zero / non-empty input; distinct by case content")
ASSUMPTIONS = ["corruptions are applied to the binary envelope (before base64); bursts are measured in CRC "
               "transmission order (bit j of byte i is position 8i+j); any change confined to 4 consecutive bytes "
               "is such a burst",
               "the decrypter sees exactly what decodeCiphertext returns: proved of the model's evaluator "
               "(Properties/C11_decrypt.v) and observed per case on both public entry points (texts with bytes outside "
               "printable ASCII are not embedded in a document: flag 'skip')"]
TRUSTED = ["base64/CRC of the Python generator only shape inputs; the expected corrupted representation is "
           "recomputed inside Coq and compared"]

MAGIC = b"escx"


def envelope(ct, magic=MAGIC, version=1):
    body = magic + struct.pack(">I", version) + ct
    return body + struct.pack(">I", zlib.crc32(body) & 0xFFFFFFFF)


def b64(b):
    return base64.b64encode(b)


def xor(a, m):
    return bytes(x ^ y for x, y in zip(a, m))


def mask_of(n, positions):
    m = bytearray(n)
    for p in positions:
        m[p // 8] |= 1 << (p % 8)
    return bytes(m)


def gen(rng, tier):
    cases = []
    thorough = tier == "thorough"

    def add(**k):
        cases.append(k)

    # --- round trips ---------------------------------------------------------------------------
    alpha = [0x00, 0xFF, 0x61]
    maxlen = 8 if thorough else 5
    for n in range(0, maxlen + 1):
        for k in range(3 ** n):
            ct, kk = [], k
            for _ in range(n):
                ct.append(alpha[kk % 3])
                kk //= 3
            add(op="round", ct=bytes(ct).hex())
    for n in range(0, 65):
        add(op="round", ct=(b"\x5a" * n).hex())
    for _ in range(2000 if thorough else 200):
        add(op="round", ct=rng.bytes(rng.below(200 if rng.chance(1, 10) else 40)).hex())

    # --- masks -----------------------------------------------------------------------------------
    cts = [b"", b"a", b"\x00\xff", b"abc", rng.bytes(4), rng.bytes(7), rng.bytes(12)]
    for ct in cts:
        env = envelope(ct)
        nb = len(env) * 8
        for p in range(nb):
            add(op="mask", ct=ct.hex(), mask=mask_of(len(env), [p]).hex())
        pairs = [(p, q) for p in range(nb) for q in range(p + 1, nb)]
        if not thorough:
            pairs = [rng.choice(pairs) for _ in range(150)]
        for p, q in pairs:
            add(op="mask", ct=ct.hex(), mask=mask_of(len(env), [p, q]).hex())
        for _ in range(2000 if thorough else 100):
            ps = sorted(set(rng.below(nb) for _ in range(3)))
            add(op="mask", ct=ct.hex(), mask=mask_of(len(env), ps).hex())
        # byte-aligned 4-byte windows with random content
        for off in range(0, len(env) - 3):
            for _ in range(8 if thorough else 2):
                m = bytearray(len(env))
                m[off:off + 4] = rng.bytes(4)
                if any(m):
                    add(op="mask", ct=ct.hex(), mask=bytes(m).hex())
        # random bursts of span <= 32 at every start
        for start in range(nb):
            for _ in range(6 if thorough else 1):
                w = 1 + rng.below(32)
                ps = {start} | {start + rng.below(w) for _ in range(rng.below(8))}
                ps = sorted(p for p in ps if p < nb)
                add(op="mask", ct=ct.hex(), mask=mask_of(len(env), ps).hex())
        # heavier random masks (not guaranteed classes: correspondence only)
        for _ in range(200 if thorough else 20):
            add(op="mask", ct=ct.hex(), mask=rng.bytes(len(env)).hex())
        # truncations
        for n in range(len(env)):
            add(op="trunc", ct=ct.hex(), n=n)
    # longer envelopes, random low-weight masks and bursts
    for _ in range(3000 if thorough else 150):
        ct = rng.bytes(13 + rng.below(120))
        env = envelope(ct)
        nb = len(env) * 8
        if rng.chance(1, 2):
            ps = sorted(set(rng.below(nb) for _ in range(1 + rng.below(3))))
        else:
            start = rng.below(nb)
            ps = sorted(p for p in ({start} | {start + rng.below(32) for _ in range(rng.below(10))}) if p < nb)
        add(op="mask", ct=ct.hex(), mask=mask_of(len(env), ps).hex())

    # --- forged headers (valid CRC) ---------------------------------------------------------------
    for ct in [b"", b"xyz", rng.bytes(9)]:
        for magic in [b"escx", b"escy", b"ESCX", b"xcse", b"\x00\x00\x00\x00", b"esc", b"escxx"]:
            for version in [1, 0, 2, 256, 1 << 24, 0xFFFFFFFF]:
                add(op="forge", magic=magic.hex(), version=version, ct=ct.hex())

    # --- malformed stream ---------------------------------------------------------------------------
    for _ in range(3000 if thorough else 300):
        k = rng.below(6)
        if k == 0:
            r = rng.bytes(rng.below(40))
        elif k == 1:
            r = b64(rng.bytes(rng.below(40)))
        elif k == 2:
            r = bytearray(b64(envelope(rng.bytes(rng.below(10)))))
            if r:
                r[rng.below(len(r))] = rng.choice(list(b"=\n\r -_Az09+/!"))
            r = bytes(r)
        elif k == 3:
            r = b64(envelope(rng.bytes(rng.below(10))))
            cut = rng.below(len(r) + 1)
            r = r[:cut]
        elif k == 4:
            r = b64(envelope(rng.bytes(rng.below(10))))
            pos = rng.below(len(r) + 1)
            r = r[:pos] + rng.choice([b"\n", b"\r\n", b"=", b"==", b" "]) + r[pos:]
        else:
            r = b64(b"escx" + rng.bytes(rng.below(12)))
        add(op="dec", repr=bytes(r).hex())
    return cases


def impl_case(c):
    return c


def _dec(o):
    if "panic" in o or "crash" in o:
        return "panic"
    r = o.get("res")
    if r == "ok":
        return "(ok %s)" % C.sx(bytes.fromhex(o.get("ct", "")))
    return r if r in ("base64", "short", "header", "checksum", "version") else "panic"


def prepare(c):
    """Turn a generator case into the request sent to the implementation."""
    op = c["op"]
    if op == "round":
        return {"op": "round", "ct": c["ct"]}
    if op == "dec":
        return {"op": "dec", "repr": c["repr"]}
    ct = bytes.fromhex(c["ct"])
    if op == "mask":
        r = b64(xor(envelope(ct), bytes.fromhex(c["mask"])))
    elif op == "trunc":
        r = b64(envelope(ct)[:c["n"]])
    elif op == "forge":
        r = b64(envelope(ct, bytes.fromhex(c["magic"]), c["version"]))
    c["repr"] = r.hex()
    return {"op": "dec", "repr": c["repr"]}


def _flag(v):
    return v if v in ("same", "skip") else "differs"


def line(c, o):
    core = core_line(c, o)
    if core is None:
        return None
    d = o["dec"] if "dec" in o else o
    if "panic" in d or "crash" in d:
        return "(c11 %s same skip skip)" % core
    retained = "same" if d.get("res") != "ok" or d.get("first") == d.get("ct") else "differs"
    return "(c11 %s %s %s %s)" % (core, retained, _flag(d.get("doc")), _flag(d.get("eval")))


def core_line(c, o):
    op = c["op"]
    X = lambda h: "x" + h
    if op == "round":
        return "(round %s %s %s)" % (X(c["ct"]), X(o.get("repr", "")), _dec(o["dec"] if "dec" in o else o))
    d = _dec(o)
    if op == "dec":
        return "(dec %s %s)" % (X(c["repr"]), d)
    if op == "mask":
        return "(mask %s %s %s %s)" % (X(c["ct"]), X(c["mask"]), X(c["repr"]), d)
    if op == "trunc":
        return "(trunc %s %d %s %s)" % (X(c["ct"]), c["n"], X(c["repr"]), d)
    if op == "forge":
        return "(forge %s %d %s %s %s)" % (X(c["magic"]), c["version"], X(c["ct"]), X(c["repr"]), d)
    return None


def shrink(c):
    op = c["op"]
    if op in ("round", "mask", "trunc", "forge") and c.get("ct"):
        ct = bytes.fromhex(c["ct"])
        if op != "mask":
            for cand in (ct[1:], ct[:-1], ct[: len(ct) // 2]):
                d = dict(c, ct=cand.hex())
                d.pop("repr", None)
                yield d
    if op == "mask":
        m = bytearray(bytes.fromhex(c["mask"]))
        for i in range(len(m)):
            for j in range(8):
                if m[i] & (1 << j):
                    mm = bytearray(m)
                    mm[i] &= ~(1 << j)
                    if any(mm):
                        d = dict(c, mask=bytes(mm).hex())
                        d.pop("repr", None)
                        yield d


def distribution(cases, r):
    d = {}
    for c, o in zip(cases, r["obs"]):
        k = c["op"] + ":" + str(o.get("res", "round" if "repr" in o else "crash"))
        d[k] = d.get(k, 0) + 1
    return d


def search(rng, info):
    """Targeted search when an obligation or the correspondence is broken: short payloads (length floor),
    all header edits, every truncation, low-weight masks."""
    cases = []
    for n in range(0, 24):
        cases.append({"op": "round", "ct": (b"\x00" * n).hex()})
        cases.append({"op": "round", "ct": rng.bytes(n).hex()})
    for ct in [b"", b"q", rng.bytes(5)]:
        env = envelope(ct)
        for n in range(len(env)):
            cases.append({"op": "trunc", "ct": ct.hex(), "n": n})
        for p in range(len(env) * 8):
            cases.append({"op": "mask", "ct": ct.hex(), "mask": mask_of(len(env), [p]).hex()})
        for magic in [b"escy", b"\x00esc", b"ESCX"]:
            cases.append({"op": "forge", "magic": magic.hex(), "version": 1, "ct": ct.hex()})
        for v in [0, 2, 257, 1 << 31]:
            cases.append({"op": "forge", "magic": MAGIC.hex(), "version": v, "ct": ct.hex()})
    return cases
