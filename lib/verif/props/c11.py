"""C11 — secret envelopes round-trip and reject corruption."""
import base64
import struct
import zlib

from .. import common as C

ID = "C11"
SRC_FACTS = ["envelope_magic", "envelope_version", "envelope_min_len"]
RULE = ("round: exhaustive ciphertexts of length 0..8 over {00,ff,'a'} (quick: 0..5) and lengths 0..64 of a filler, "
        "random beyond, and the lengths 2^k-1, 2^k, 2^k+1 for k = 1..17; wrap: the same lengths and a random sample "
        "through the PUBLIC wrap side (eval.EncryptSecrets with a chosen-output encrypter; the text is read back from the "
        "rewritten document, which is also taken through DecryptSecrets); mask: all 1- and 2-bit flips of envelopes <= 24 bytes (quick: sampled 2-bit), sampled 3-bit, "
        "all byte-aligned 4-byte windows with random content, random <=32-bit bursts incl. boundary-straddling; "
        "trunc: every truncation; forge: magic/version edits with a valid CRC; dec: malformed base64 / random "
        "strings; text: corruption of the base64 TEXT - all 1-bit flips of the texts of 8 envelopes (lengths = 0,1,2 mod 3), "
        "every position x every alphabet character / '=' / CR / LF on two of them, sampled 2- and 3-bit flips, the two "
        "witnesses of C11-text-flips.  Every text is also taken through eval.DecryptSecrets (a document carrying it "
        "three times, and one under an escaped key) and the evaluator's fn::secret with a recording decrypter: a "
        "rejected text MUST produce the error wrapping 'invalid ciphertext: <decoder error>' / exactly one diagnostic "
        "per occurrence and never reach the decrypter; an accepted one must reach it once per occurrence with exactly "
        "the decoder's payload (judged in Corr/C11.v); control bytes are embedded with YAML escapes; the decoder's "
        "result is re-read after two unrelated decodes (the caller owns it).  "
        "non-trivial = mask non-zero / non-empty input; distinct by case content")
ASSUMPTIONS = ["ops mask/trunc/forge: corruptions are applied to the BINARY envelope (before base64); bursts are measured "
               "in CRC transmission order (bit j of byte i is position 8i+j); any change confined to 4 consecutive bytes "
               "is such a burst.  op text: corruptions are applied to the base64 TEXT; guaranteed there: exactly one "
               "character replaced, neither the old nor the new one being '=' (theorems C11_text_one_char_replaced, "
               "C11_text_char_outside_alphabet); up to three flipped text bits outside that class are the known finding "
               "C11-text-flips",
               "the decrypter sees exactly what decodeCiphertext returns: proved of the model's evaluator "
               "(Properties/C11_decrypt.v) and observed per case on both public entry points; a text that is not valid "
               "UTF-8 cannot be the value of a YAML scalar and is not embedded (counted: paths_skipped_not_utf8)"]
TRUSTED = ["base64/CRC of the Python generator only shape inputs; the expected corrupted representation is "
           "recomputed inside Coq and compared"]

MAGIC = b"escx"


def envelope(ct, magic=MAGIC, version=1):
    body = magic + struct.pack(">I", version) + ct
    return body + struct.pack(">I", zlib.crc32(body) & 0xFFFFFFFF)


def b64(b):
    return base64.b64encode(b)


def xor(a, m):
    return bytes(x ^ y for x, y in zip(a, m))


def mask_of(n, positions):
    m = bytearray(n)
    for p in positions:
        m[p // 8] |= 1 << (p % 8)
    return bytes(m)


def gen(rng, tier):
    cases = []
    thorough = tier == "thorough"

    def add(**k):
        cases.append(k)

    # --- round trips ---------------------------------------------------------------------------
    alpha = [0x00, 0xFF, 0x61]
    maxlen = 8 if thorough else 5
    for n in range(0, maxlen + 1):
        for k in range(3 ** n):
            ct, kk = [], k
            for _ in range(n):
                ct.append(alpha[kk % 3])
                kk //= 3
            add(op="round", ct=bytes(ct).hex())
    for n in range(0, 65):
        add(op="round", ct=(b"\x5a" * n).hex())
    for _ in range(2000 if thorough else 200):
        add(op="round", ct=rng.bytes(rng.below(200 if rng.chance(1, 10) else 40)).hex())
    # sizes around every power of two up to 128 KiB (buffer / chunk boundaries of the encoder and of base64)
    sizes = sorted(set(n for k in range(1, 18) for n in (2 ** k - 1, 2 ** k, 2 ** k + 1)))
    for n in sizes:
        add(op="round", ct=rng.bytes(n).hex())
    # --- the wrap side through the public API (EncryptSecrets -> envelope) ---------------------------------
    for n in list(range(0, 14)) + sizes:
        add(op="wrap", ct=rng.bytes(n).hex())
    for _ in range(600 if thorough else 60):
        add(op="wrap", ct=rng.bytes(rng.below(300)).hex())
    for ct in (b"", b"\x00", b"\xff\xff\xff", b"\n", b"plain-text", b"fn::secret", b"\xa5" * 6):
        add(op="wrap", ct=ct.hex())

    # --- masks -----------------------------------------------------------------------------------
    cts = [b"", b"a", b"\x00\xff", b"abc", rng.bytes(4), rng.bytes(7), rng.bytes(12)]
    for ct in cts:
        env = envelope(ct)
        nb = len(env) * 8
        for p in range(nb):
            add(op="mask", ct=ct.hex(), mask=mask_of(len(env), [p]).hex())
        pairs = [(p, q) for p in range(nb) for q in range(p + 1, nb)]
        if not thorough:
            pairs = [rng.choice(pairs) for _ in range(150)]
        for p, q in pairs:
            add(op="mask", ct=ct.hex(), mask=mask_of(len(env), [p, q]).hex())
        for _ in range(2000 if thorough else 100):
            ps = sorted(set(rng.below(nb) for _ in range(3)))
            add(op="mask", ct=ct.hex(), mask=mask_of(len(env), ps).hex())
        # byte-aligned 4-byte windows with random content
        for off in range(0, len(env) - 3):
            for _ in range(8 if thorough else 2):
                m = bytearray(len(env))
                m[off:off + 4] = rng.bytes(4)
                if any(m):
                    add(op="mask", ct=ct.hex(), mask=bytes(m).hex())
        # windows whose CONTENT is special: the error pattern equals the bytes it hits (the field becomes all zero), their
        # complement (all ones), or the field's own value shifted by one byte - for every 4-byte field of the envelope
        # (magic, version, every payload window, trailer) and every 1..4-byte window
        for width in (1, 2, 3, 4):
            for off in range(0, len(env) - width + 1):
                for kind in range(3):
                    m = bytearray(len(env))
                    seg = env[off:off + width]
                    m[off:off + width] = seg if kind == 0 else bytes(b ^ 0xFF for b in seg) if kind == 1 else bytes(seg[1:] + seg[:1])
                    if any(m):
                        add(op="mask", ct=ct.hex(), mask=bytes(m).hex())
        # random bursts of span <= 32 at every start
        for start in range(nb):
            for _ in range(6 if thorough else 1):
                w = 1 + rng.below(32)
                ps = {start} | {start + rng.below(w) for _ in range(rng.below(8))}
                ps = sorted(p for p in ps if p < nb)
                add(op="mask", ct=ct.hex(), mask=mask_of(len(env), ps).hex())
        # heavier random masks (not guaranteed classes: correspondence only)
        for _ in range(200 if thorough else 20):
            add(op="mask", ct=ct.hex(), mask=rng.bytes(len(env)).hex())
        # truncations
        for n in range(len(env)):
            add(op="trunc", ct=ct.hex(), n=n)
    # longer envelopes, random low-weight masks and bursts
    for _ in range(3000 if thorough else 150):
        ct = rng.bytes(13 + rng.below(120))
        env = envelope(ct)
        nb = len(env) * 8
        if rng.chance(1, 2):
            ps = sorted(set(rng.below(nb) for _ in range(1 + rng.below(3))))
        else:
            start = rng.below(nb)
            ps = sorted(p for p in ({start} | {start + rng.below(32) for _ in range(rng.below(10))}) if p < nb)
        add(op="mask", ct=ct.hex(), mask=mask_of(len(env), ps).hex())

    # --- corruption of the base64 TEXT ---------------------------------------------------------------------
    for w in TEXT_WITNESSES:
        add(op="text", ct=w["ct"], tmask=w["tmask"])
    tcts = [b"", b"a", b"ab", b"abc", rng.bytes(5), rng.bytes(9), rng.bytes(16), rng.bytes(31)]
    specials = ALPHA + b"=\n\r" + bytes([0, 0x20, 0x2d, 0x5f, 0x7f])
    for idx, ct in enumerate(tcts):
        t = b64(envelope(ct))
        L = len(t)
        for p in range(8 * L):
            add(op="text", ct=ct.hex(), tmask=mask_of(L, [p]).hex())
        if idx in (1, 3) or thorough:
            # every position x every replacement character (alphabet, padding, CR/LF, other bytes)
            for k in range(L):
                for ch in specials:
                    if ch != t[k]:
                        m = bytearray(L)
                        m[k] = ch ^ t[k]
                        add(op="text", ct=ct.hex(), tmask=bytes(m).hex())
        for _ in range(1500 if thorough else 120):
            ps = sorted(set(rng.below(8 * L) for _ in range(2 + rng.below(2))))
            add(op="text", ct=ct.hex(), tmask=mask_of(L, ps).hex())
        # flips among the last characters (padding, trailer)
        for _ in range(300 if thorough else 40):
            ps = sorted(set(8 * (L - 1 - rng.below(6)) + rng.below(8) for _ in range(1 + rng.below(3))))
            add(op="text", ct=ct.hex(), tmask=mask_of(L, ps).hex())
    for _ in range(2000 if thorough else 100):
        ct = rng.bytes(rng.below(150))
        L = len(b64(envelope(ct)))
        ps = sorted(set(rng.below(8 * L) for _ in range(1 + rng.below(3))))
        add(op="text", ct=ct.hex(), tmask=mask_of(L, ps).hex())

    # --- forged headers (valid CRC) ---------------------------------------------------------------
    for ct in [b"", b"xyz", rng.bytes(9)]:
        for magic in [b"escx", b"escy", b"ESCX", b"xcse", b"\x00\x00\x00\x00", b"esc", b"escxx"]:
            for version in [1, 0, 2, 256, 1 << 24, 0xFFFFFFFF]:
                add(op="forge", magic=magic.hex(), version=version, ct=ct.hex())

    # --- malformed stream ---------------------------------------------------------------------------
    for _ in range(3000 if thorough else 300):
        k = rng.below(6)
        if k == 0:
            r = rng.bytes(rng.below(40))
        elif k == 1:
            r = b64(rng.bytes(rng.below(40)))
        elif k == 2:
            r = bytearray(b64(envelope(rng.bytes(rng.below(10)))))
            if r:
                r[rng.below(len(r))] = rng.choice(list(b"=\n\r -_Az09+/!"))
            r = bytes(r)
        elif k == 3:
            r = b64(envelope(rng.bytes(rng.below(10))))
            cut = rng.below(len(r) + 1)
            r = r[:cut]
        elif k == 4:
            r = b64(envelope(rng.bytes(rng.below(10))))
            pos = rng.below(len(r) + 1)
            r = r[:pos] + rng.choice([b"\n", b"\r\n", b"=", b"==", b" "]) + r[pos:]
        else:
            r = b64(b"escx" + rng.bytes(rng.below(12)))
        add(op="dec", repr=bytes(r).hex())
    return cases


ALPHA = b"ABCDEFGHIJKLMNOPQRSTUVWXYZabcdefghijklmnopqrstuvwxyz0123456789+/"


def _text_witnesses():
    """the two witnesses of the known finding C11-text-flips (selftest/witness/C11-text-flips.json)"""
    import json
    import os
    p = os.path.join(C.VERIF, "selftest", "witness", "C11-text-flips.json")
    try:
        return json.load(open(p))
    except (OSError, ValueError):
        return []


TEXT_WITNESSES = _text_witnesses()


def impl_case(c):
    return c


def _dec(o):
    if "panic" in o or "crash" in o:
        return "panic"
    r = o.get("res")
    if r == "ok":
        return "(ok %s)" % C.sx(bytes.fromhex(o.get("ct", "")))
    return r if r in ("base64", "short", "header", "checksum", "version") else "panic"


def prepare(c):
    """Turn a generator case into the request sent to the implementation."""
    op = c["op"]
    if op == "round":
        return {"op": "round", "ct": c["ct"]}
    if op == "dec":
        return {"op": "dec", "repr": c["repr"]}
    if op == "wrap":
        return {"op": "wrap", "ct": c["ct"]}
    ct = bytes.fromhex(c["ct"])
    if op == "mask":
        r = b64(xor(envelope(ct), bytes.fromhex(c["mask"])))
    elif op == "trunc":
        r = b64(envelope(ct)[:c["n"]])
    elif op == "forge":
        r = b64(envelope(ct, bytes.fromhex(c["magic"]), c["version"]))
    elif op == "text":
        r = xor(b64(envelope(ct)), bytes.fromhex(c["tmask"]))
    c["repr"] = r.hex()
    return {"op": "dec", "repr": c["repr"]}


def _flag(v):
    return v if v in ("same", "skip") else "differs"


def _err(e):
    if e == "none":
        return "none"
    if isinstance(e, str) and e.startswith("ic:"):
        k = e[3:]
        return "(ic %s)" % (k if k in ("base64", "short", "header", "checksum", "version") else "panic")
    return "other"


def _pobs(o):
    if not isinstance(o, dict) or "skip" in o:
        return "skip"
    # the evaluator route is also run while only checking (with and without showSecrets): the expected number of error
    # diagnostics is the same on all three, so the count that is judged is the evaluation's unless a check-mode count deviates
    nd = o.get("diags", 0)
    for k in ("check_diags", "check_show_diags"):
        if k in o and o[k] != o.get("diags", 0):
            nd = o[k]
    return "(obs %s %d %d %s)" % (_err(o.get("err", "none")), nd, o.get("n", 0), _flag(o.get("same")))


def line(c, o):
    core = core_line(c, o)
    if core is None:
        return None
    d = o["dec"] if "dec" in o else o
    back = _flag(o.get("back", "same"))
    if "panic" in d or "crash" in d or "paths" not in d:
        return "(c11 %s same 0 skip skip skip %s)" % (core, back)
    retained = "same" if d.get("res") != "ok" or d.get("first") == d.get("ct") else "differs"
    p = d["paths"]
    if "skip" in p:
        return "(c11 %s %s 0 skip skip skip %s)" % (core, retained, back)
    return "(c11 %s %s %d %s %s %s %s)" % (core, retained, p.get("occ", 0), _pobs(p.get("doc")), _pobs(p.get("doc2")),
                                           _pobs(p.get("eval")), back)


def core_line(c, o):
    op = c["op"]
    X = lambda h: "x" + h
    if op == "round":
        return "(round %s %s %s)" % (X(c["ct"]), X(o.get("repr", "")), _dec(o["dec"] if "dec" in o else o))
    if op == "wrap":
        if "dec" not in o:
            return "(wrap %s x panic)" % X(c["ct"])
        return "(wrap %s %s %s)" % (X(c["ct"]), X(o.get("repr", "")), _dec(o["dec"]))
    d = _dec(o)
    if op == "dec":
        return "(dec %s %s)" % (X(c["repr"]), d)
    if op == "mask":
        return "(mask %s %s %s %s)" % (X(c["ct"]), X(c["mask"]), X(c["repr"]), d)
    if op == "text":
        return "(text %s %s %s %s)" % (X(c["ct"]), X(c["tmask"]), X(c["repr"]), d)
    if op == "trunc":
        return "(trunc %s %d %s %s)" % (X(c["ct"]), c["n"], X(c["repr"]), d)
    if op == "forge":
        return "(forge %s %d %s %s %s)" % (X(c["magic"]), c["version"], X(c["ct"]), X(c["repr"]), d)
    return None


def shrink(c):
    op = c["op"]
    if op == "text":
        m = bytearray(bytes.fromhex(c["tmask"]))
        for i in range(len(m)):
            for j in range(8):
                if m[i] & (1 << j):
                    mm = bytearray(m)
                    mm[i] &= ~(1 << j)
                    if any(mm):
                        d = dict(c, tmask=bytes(mm).hex())
                        d.pop("repr", None)
                        yield d
    if op in ("round", "wrap", "mask", "trunc", "forge") and c.get("ct"):
        ct = bytes.fromhex(c["ct"])
        if op != "mask":
            for cand in (ct[1:], ct[:-1], ct[: len(ct) // 2]):
                d = dict(c, ct=cand.hex())
                d.pop("repr", None)
                yield d
    if op == "mask":
        m = bytearray(bytes.fromhex(c["mask"]))
        for i in range(len(m)):
            for j in range(8):
                if m[i] & (1 << j):
                    mm = bytearray(m)
                    mm[i] &= ~(1 << j)
                    if any(mm):
                        d = dict(c, mask=bytes(mm).hex())
                        d.pop("repr", None)
                        yield d


def distribution(cases, r):
    d = {}
    skip_utf8 = skip_load = judged = 0
    text_known = text_guaranteed = 0
    for c, o in zip(cases, r["obs"]):
        k = c["op"] + ":" + str(o.get("res", "round" if "repr" in o else "crash"))
        d[k] = d.get(k, 0) + 1
        dd = o["dec"] if "dec" in o else o
        p = dd.get("paths") if isinstance(dd, dict) else None
        if isinstance(p, dict):
            if "skip" in p:
                skip_utf8 += 1
            else:
                judged += 1
                if isinstance(p.get("eval"), dict) and "skip" in p["eval"]:
                    skip_load += 1
        if c["op"] == "text":
            m = bytes.fromhex(c["tmask"])
            nz = [i for i, b in enumerate(m) if b]
            w = sum(bin(b).count("1") for b in m)
            t = b64(envelope(bytes.fromhex(c["ct"])))
            one = len(nz) == 1 and t[nz[0]] != 0x3d and (t[nz[0]] ^ m[nz[0]]) != 0x3d
            if one:
                text_guaranteed += 1
            elif w <= 3:
                text_known += 1
    # escape hatches, counted
    d["paths_judged"] = judged
    d["paths_skipped_not_utf8"] = skip_utf8
    d["eval_path_skipped_document_not_loadable"] = skip_load
    d["text_cases_in_guaranteed_class"] = text_guaranteed
    d["text_cases_in_known_class_C11-text-flips"] = text_known
    return d


def search(rng, info):
    """Targeted search when an obligation or the correspondence is broken: short payloads (length floor),
    all header edits, every truncation, low-weight masks."""
    cases = []
    for n in range(0, 24):
        cases.append({"op": "round", "ct": (b"\x00" * n).hex()})
        cases.append({"op": "round", "ct": rng.bytes(n).hex()})
    for ct in [b"", b"q", rng.bytes(5)]:
        env = envelope(ct)
        for n in range(len(env)):
            cases.append({"op": "trunc", "ct": ct.hex(), "n": n})
        for p in range(len(env) * 8):
            cases.append({"op": "mask", "ct": ct.hex(), "mask": mask_of(len(env), [p]).hex()})
        for magic in [b"escy", b"\x00esc", b"ESCX"]:
            cases.append({"op": "forge", "magic": magic.hex(), "version": 1, "ct": ct.hex()})
        for v in [0, 2, 257, 1 << 31]:
            cases.append({"op": "forge", "magic": MAGIC.hex(), "version": v, "ct": ct.hex()})
    return cases
