"""C16 — temporary secret files never outlive the command (`esc run`)."""
from .. import common as C

ID = "C16"
SRC_FACTS = ["src_temp_dir", "src_temp_pattern", "src_remove_on_write_fail", "src_close_checked", "src_rollback",
             "src_unknown_path", "src_defer_cleanup", "src_prepare_no_late_error"]
RULE = ("exhaustive: environments with 0..4 file entries (secret/plain patterns) x {no fault, every single fault: "
        "CreateTemp #0..n, Write #0..n, Close #0..n, Remove #0..n, Run #0 (= cannot start)} x child {exit 0, exit 1} x "
        "{keeps, unlinks its files}; LookPath failure / open error / diagnostics for every n; all pairs of faults for "
        "n <= 2 (thorough: n <= 4); PrepareEnvironment directly with every single fault and pretend on/off; "
        "overlap family: 1..3 files x every non-empty set of keys ALSO defined under environmentVariables (secret/plain "
        "on both sides, scalar and non-scalar variable) x {no fault, Write #last, Remove #0, Run #0} x exit 0/1, and the "
        "same through PrepareEnvironment; odd-shape family: empty key, key equal to a base-environment name, keys with "
        "spaces / non-ASCII / 300 bytes, non-scalar members between scalar ones, NUL and newline in values, 8 entries; random "
        "stream (scalar kinds, binary and empty contents, 1-4 faults, extra pre-existing files, base environment). "
        "non-trivial = at least one file is materialised; distinct by case content")
ASSUMPTIONS = [
    "the file system gives every temporary file a name that no existing file has (os.CreateTemp: O_EXCL); the "
    "harness' file system names them temp/esc-temp-N",
    "fault semantics of the harness' file system: a failing CreateTemp creates nothing; a failing Write stores the "
    "first half of the bytes; a failing Close is a failed write-back that keeps the first half of the bytes "
    "(close(2): 'failing to check the return value may lead to silent loss of data'); a failing Remove leaves the "
    "file; Run fault = the child cannot be started",
    "esc is not killed: SIGINT/SIGTERM/SIGKILL of the esc process itself skip the deferred clean-up (no signal "
    "handler exists) and are outside the model",
    "Quote = false (what `esc run` uses); `esc open --format shell|dotenv` keeps its files by design and is not "
    "part of this property",
]
TRUSTED = ["the in-memory file system / process runner of harness/cmd/implrun/c16.go (they define what a fault is)",
           "cobra argument handling and the stub login/workspace/client used to reach RunE"]
COQ_SAMPLE = 100
BATCH = 200

KINDS = ["create", "write", "close", "remove", "run"]


def h(s):
    if isinstance(s, str):
        s = s.encode("utf-8")
    return s.hex()


def E(k, v, t="s", s=False):
    return {"k": h(k), "t": t, "v": h(v), "s": bool(s)}


KEYS = ["CERT", "KEY", "ca_bundle", "A", "Z_TOKEN"]
VALS = [b"-----BEGIN CERT-----\nabc\n", b"hunter2", b"", b"x", b"\x00\xff binary \x80"]


def env_files(n, pattern=0):
    # pattern 0: alternate secret/plain starting with secret; 1: starting with plain; 2: all secret
    out = []
    for i in range(n):
        secret = (i % 2 == 0) if pattern == 0 else ((i % 2 == 1) if pattern == 1 else True)
        out.append(E(KEYS[i], VALS[i] if pattern != 1 else VALS[(i + 1) % 5] + b"!", "s", secret))
    return out


def base_case(n, pattern=0, **kw):
    c = {"op": "run", "files": env_files(n, pattern), "vars": [E("PLAIN", "v"), E("TOKEN", "s3cr3t", "s", True)],
         "base": [h("PATH=/usr/bin"), h("HOME=/home/u")], "faults": [], "lookpath": True, "open": "ok", "exit": True,
         "unlink": False, "pretend": False, "pre": []}
    c.update(kw)
    return c


def single_faults(n):
    fs = [[]]
    for k in ("create", "write", "close", "remove"):
        for i in range(n + 1):
            fs.append([[k, i]])
    fs.append([["run", 0]])
    return fs


def overlap_family():
    out = []
    for n in range(1, 4):
        for mask in range(1, 1 << n):
            over = [KEYS[i] for i in range(n) if mask >> i & 1]
            for pattern in (0, 2):
                for vsecret in (False, True):
                    for vt in ("s", "o"):
                        if vt == "o" and (pattern == 2 or vsecret):
                            continue
                        vs = [E("PLAIN", "v")] + [E(k, "from-vars-" + k, vt, vsecret) for k in over]
                        plans = [[], [["write", n - 1]], [["remove", 0]], [["run", 0]]]
                        for faults in plans:
                            for exit_ok in ((True, False) if not faults else (True,)):
                                out.append(base_case(n, pattern, vars=vs, faults=faults, exit=exit_ok))
                        if vt == "s":
                            for pretend in (False, True):
                                out.append(base_case(n, pattern, op="prepare", vars=vs, pretend=pretend))
    # every key overlaps, nothing else is defined
    out.append(base_case(2, 2, vars=[E(KEYS[0], "a", "s", True), E(KEYS[1], "b")], base=[]))
    return out


def odd_family():
    out = []
    long_key = "K" * 300
    shapes = [
        [E("", "empty-key", "s", True)],
        [E("", "empty-key"), E("A", "a", "s", True)],
        [E("PATH", "shadows-base", "s", True)],
        [E("HOME", "x"), E("PATH", "y", "s", True)],
        [E("with space", "v", "s", True), E("tab\tkey", "w")],
        [E("sch\u00fcssel", "v", "s", True), E("\u9375", "w", "s", True)],
        [E(long_key, "v", "s", True)],
        [E("A", "a", "s", True), E("B", "inner", "o", True), E("C", "c")],
        [E("A", "inner", "a"), E("B", "b", "s", True), E("C", "inner", "o")],
        [E("A", "inner", "o", True)],
        [E("A", b"nul\x00inside", "s", True), E("B", b"line1\nline2\n"), E("C", b"\xff\xfe", "s", True)],
        [E("A", "true", "b", True), E("B", "12.50", "n", True), E("C", "", "z", True)],
        [E("K%d" % i, "value-%d" % i, "s", i % 3 == 0) for i in range(8)],
    ]
    for files in shapes:
        n = len(files)
        for vs in ([], [E("PLAIN", "v"), E("TOKEN", "s3cr3t", "s", True)], [E(bytes.fromhex(files[0]["k"]), "dup", "s", True)]):
            for faults in ([], [["write", n - 1]], [["remove", 0]], [["run", 0]], [["close", 0]]):
                for exit_ok in ((True, False) if not faults else (True,)):
                    c = base_case(0, 0, vars=vs, faults=faults, exit=exit_ok)
                    c["files"] = files
                    out.append(c)
        c = base_case(0, 0, op="prepare")
        c["files"] = files
        out.append(c)
    return out


def gen(rng, tier):
    thorough = tier == "thorough"
    cases = []
    # regression corpus first
    cases.append(base_case(1, faults=[["close", 0]]))                    # C16-close witness
    cases.append(base_case(2, faults=[["create", 1], ["remove", 0]]))    # allowed leak (own Remove failed)
    cases.append(base_case(2, faults=[["write", 1]]))
    cases.append(base_case(2, 0, vars=[E("PLAIN", "v"), E(KEYS[1], "also-a-variable", "s", True)]))   # C16-d shape
    # exhaustive single faults
    for n in range(0, 5):
        for pattern in (0, 1):
            for faults in single_faults(n):
                for exit_ok in (True, False):
                    for unlink in (False, True):
                        if pattern == 1 and unlink:
                            continue
                        cases.append(base_case(n, pattern, faults=faults, exit=exit_ok, unlink=unlink))
        for faults in single_faults(n):
            cases.append(base_case(n, 2, faults=faults, lookpath=False))
            cases.append(base_case(n, 2, faults=faults, open="err"))
            cases.append(base_case(n, 2, faults=faults, open="diags"))
            for pretend in (False, True):
                cases.append(base_case(n, 0, op="prepare", faults=faults, pretend=pretend))
    # keys defined under BOTH environmentVariables and files (no fault is needed for these to matter), and other
    # shapes a late validation could object to after the files exist
    for c in overlap_family() + odd_family():
        cases.append(c)
    # pairs of faults
    for n in range(0, 5 if thorough else 3):
        singles = [f[0] for f in single_faults(n) if f]
        for i in range(len(singles)):
            for j in range(i + 1, len(singles)):
                cases.append(base_case(n, 0, faults=[singles[i], singles[j]], exit=(i + j) % 2 == 0))
    if thorough:
        for n in (2, 3):
            singles = [f[0] for f in single_faults(n) if f]
            for i in range(len(singles)):
                for j in range(i + 1, len(singles)):
                    for k in range(j + 1, len(singles)):
                        cases.append(base_case(n, 0, faults=[singles[i], singles[j], singles[k]]))
    # random stream
    keys = ["a", "B", "_x", "a1", "aa", "Ab", "b", "C_9", "zz", "Z", "k\xc3\xa9", "0k"]
    for _ in range(20000 if thorough else 500):
        n = rng.below(7)
        ks = rng.shuffle(keys)[:n]
        files = []
        for k in ks:
            t = rng.choice(["s", "s", "s", "s", "b", "n", "z", "o", "a"])
            if t == "b":
                v = rng.choice([b"true", b"false"])
            elif t == "n":
                v = rng.choice([b"0", b"42", b"-1.5", b"1e3", b"3.14159"])
            elif t == "z":
                v = b""
            else:
                v = rng.bytes(rng.below(12)) if rng.chance(1, 2) else rng.choice(VALS)
            files.append(E(k, v, t, rng.chance(1, 2)))
        nv = rng.below(4)
        vs = []
        vkeys = rng.shuffle(["V1", "v2", "PATHX", "creds"])[:nv]
        if ks and rng.chance(1, 3):
            vkeys = vkeys + rng.shuffle(ks)[:1 + rng.below(len(ks))]
        for k in vkeys:
            val = rng.choice([b"1", b"a=b", b"home/.pulumi/.esc/credentials.json", b"", b"temp/esc-temp-0", b"work/data"])
            vs.append(E(k, val, rng.choice(["s", "s", "n", "o"]) if val == b"1" else "s", rng.chance(1, 3)))
        faults = []
        for _ in range(rng.below(5) if rng.chance(3, 4) else 0):
            faults.append([rng.choice(KINDS), rng.below(n + 2)])
        pre = []
        if rng.chance(1, 3):
            pre.append([h("work/data"), h(rng.bytes(rng.below(6)))])
        if rng.chance(1, 5):
            pre.append([h("temp/keep.txt"), h("keep")])
        c = {"op": "prepare" if rng.chance(1, 5) else "run", "files": files, "vars": vs,
             "base": [h("PATH=/bin")] if rng.chance(1, 2) else [], "faults": faults,
             "lookpath": not rng.chance(1, 15), "open": rng.choice(["ok"] * 10 + ["err", "diags"]),
             "exit": rng.chance(2, 3), "unlink": rng.chance(1, 4), "pretend": rng.chance(1, 6), "pre": pre}
        cases.append(c)
    return cases


# ---- wire ----------------------------------------------------------------------------------------------
def _b(x):
    return "t" if x else "f"


def _entries(l):
    return "(" + " ".join("(x%s %s x%s %s)" % (e["k"], e["t"], e["v"], _b(e["s"])) for e in l) + ")"


def _pairs(l):
    return "(" + " ".join("(x%s x%s)" % (p, c) for p, c in l) + ")"


def _strs(l):
    return "(" + " ".join("x" + s for s in l) + ")"


def _atom(s):
    s = str(s)
    ok = s and all(ch.isalnum() for ch in s)
    return s if ok else "bad"


def line(c, o):
    broken = "panic" in o or "crash" in o or "trace" not in o
    err = "panic" if broken else _atom(o.get("err", "bad"))
    trace = []
    for ev in ([] if broken else o["trace"]):
        kind, path, flag = ev
        if isinstance(flag, bool):
            flag = _b(flag)
        trace.append("(%s x%s %s)" % (_atom(kind), path, _atom(flag)))
    child = o.get("child")
    if broken or not child:
        ch = "none"
    else:
        ch = "(%s %s)" % (_strs(child["env"]), _pairs(child["files"]))
    cfg = "(%s %s %s %s %s %s %s)" % (_b(c["lookpath"]), c["open"], _b(c["exit"]), _b(c["unlink"]),
                                      _strs(c["base"]), _entries(c["files"]), _entries(c["vars"]))
    faults = "(" + " ".join("(%s %d)" % (k, i) for k, i in c["faults"]) + ")"
    init = o.get("initial")
    if init is None:
        init = []
    return "(%s %s %s %s %s %s (%s) %s %s %s %s %s)" % (
        "run" if c["op"] == "run" else "prep", _b(c["pretend"]), cfg, faults, _pairs(init), err, " ".join(trace),
        _pairs([] if broken else o["final"]), ch, _strs(o.get("paths") or []), _strs(o.get("environ") or []),
        _strs(o.get("secrets") or []))


def shrink(c):
    for key in ("files", "vars", "faults", "base", "pre"):
        l = c.get(key) or []
        for i in range(len(l)):
            yield dict(c, **{key: l[:i] + l[i + 1:]})
    if c.get("unlink"):
        yield dict(c, unlink=False)
    if not c.get("exit"):
        yield dict(c, exit=True)
    for i, e in enumerate(c.get("files") or []):
        v = bytes.fromhex(e["v"])
        if len(v) > 2:
            l = list(c["files"])
            l[i] = dict(e, v=v[:2].hex())
            yield dict(c, files=l)


def describe(c):
    d = {"op": c["op"], "files": len(c["files"]), "faults": c["faults"], "exit": c["exit"], "unlink": c["unlink"],
         "lookpath": c["lookpath"], "open": c["open"]}
    if c["op"] == "prepare":
        d["pretend"] = c["pretend"]
    return d


def distribution(cases, r):
    d = {}
    for c, o in zip(cases, r["obs"]):
        ks = "+".join(sorted(set(k for k, _ in c["faults"]))) or "nofault"
        k = "%s:%s:%s" % (c["op"], ks, o.get("err", "crash" if "crash" in o else "panic"))
        d[k] = d.get(k, 0) + 1
    d["_files_per_case"] = {}
    for c in cases:
        n = str(len(c["files"]))
        d["_files_per_case"][n] = d["_files_per_case"].get(n, 0) + 1
    return d


def search(rng, info):
    """Targeted search when an obligation or the correspondence is broken: the exhaustive single- and double-fault
    family on 0..3 files, both child exits, with and without unlink."""
    cases = []
    for n in range(0, 4):
        singles = [f[0] for f in single_faults(n) if f]
        plans = [[]] + [[f] for f in singles] + [[a, b] for i, a in enumerate(singles) for b in singles[i + 1:]]
        for faults in plans:
            for exit_ok in (True, False):
                cases.append(base_case(n, 0, faults=faults, exit=exit_ok))
            cases.append(base_case(n, 0, op="prepare", faults=faults))
    return cases
