"""C02, parser cases: YAML text -> decoded syntax tree -> ast.EnvironmentDecl (Model/Parse.v vs ast.ParseEnvironment).

Not a property of its own: props/c02.py calls gen_parse_cases / prepare / line (and describe / shrink / distribution)
for the cases whose "kind" is "parse".  One case = one YAML document:
  {"kind": "parse", "text": <hex of the document>, "want": <envdef it was rendered from> | None, "fam": <family>}
The Go handler PARSE reports the syntax tree the implementation's own decoder produced (the model's input), the AST
the parser built, the number of diagnostics and what LoadYAMLBytes did; Corr/C02Parse.v compares.
"""
import json

from .. import common as C
from .. import evalgen as G

KIND = "parse"
# srcfacts names (coq/Src/SrcParse.v) the parser model is tied to: props/c02.py adds them to its SRC_FACTS
SRC_FACTS = ["parse_builtin_table", "parse_short_open_prefix", "parse_short_open_fn", "parse_short_open_trim",
             "parse_reserved_prefix", "parse_reserved_lowercased", "parse_open_keys", "parse_join_arity", "parse_secret_key",
             "parse_env_fields", "parse_import_meta_fields", "parse_env_unknown_field_warning",
             "parse_import_unknown_field_warning"]

# ---------------------------------------------------------------------------------------------------------
# canonical rendering = Coq render_expr / render_env (Model/Parse.v).  It is evalgen's to_jsonable / render_env, plus
# `$` -> `$$` in the keys of object literals and in ciphertexts (evalgen's generators never put a `$` there).
esc = G.esc_dollar


def to_jsonable(e):
    k = e[0]
    if k == "null":
        return None
    if k == "bool":
        return e[1]
    if k == "num":
        return G.RawNum(e[1])
    if k == "str":
        return esc(e[1])
    if k == "interp":
        return "".join(esc(t) + (G.render_path(p) if p is not None else "") for t, p in e[1])
    if k == "sym":
        return G.render_path(e[1])
    if k == "arr":
        return [to_jsonable(x) for x in e[1]]
    if k == "obj":
        return G.OrderedObj([(esc(kk), to_jsonable(v)) for kk, v in e[1]])
    if k == "join":
        return G.OrderedObj([("fn::join", [to_jsonable(e[1]), to_jsonable(e[2])])])
    if k in ("tojson", "fromjson", "tostring", "tob64", "fromb64"):
        name = {"tojson": "fn::toJSON", "fromjson": "fn::fromJSON", "tostring": "fn::toString", "tob64": "fn::toBase64",
                "fromb64": "fn::fromBase64"}[k]
        return G.OrderedObj([(name, to_jsonable(e[1]))])
    if k == "secret":
        return G.OrderedObj([("fn::secret", e[1])])                     # literal text
    if k == "cipher":
        return G.OrderedObj([("fn::secret", G.OrderedObj([("ciphertext", esc(e[1]))]))])
    if k == "open":
        return G.OrderedObj([("fn::open::" + e[1], to_jsonable(e[2]))])
    raise ValueError(k)


def render_env(envdef):
    parts = []
    if envdef.get("imports"):
        items = []
        for n, m in envdef["imports"]:
            items.append(json.dumps(n) if m else "{%s: {merge: false}}" % json.dumps(n))
        parts.append("imports: [" + ", ".join(items) + "]")
    if envdef.get("values") is not None and (envdef["values"] or not envdef.get("imports")):
        parts.append("values: " + G.dumps(G.OrderedObj([(k, to_jsonable(v)) for k, v in envdef["values"]])))
    return "\n".join(parts) + "\n"


def mk(text, want=None, fam="raw"):
    if isinstance(text, str):
        text = text.encode("utf-8")
    return {"kind": KIND, "text": text.hex(), "want": want, "fam": fam}


def of_def(d, fam):
    d = {"imports": [list(x) for x in d.get("imports", [])], "values": list(d.get("values", []))}
    return mk(render_env(d), want=d, fam=fam)


# ---------------------------------------------------------------------------------------------------------
# (a) canonical ASTs
HOSTILE = ["", "x", "a b", "do$lar", "$", "$$", "${", "$${x}", "a${b}c", "${a.b}", "$ {", "fn::join", "Fn::x", "é", "ſ",
           "q\"uote", "back\\slash", "tab\there", "nl\nline", "'", ": ", "#c", "{", "[", "]", "}", "&a", "*a", "!t", "|", ">",
           "%", "@", "`", "null", "true", "~", "1", "0x1F", "-", "?", "- a", " ", "k.dot", "provider", "inputs",
           "ciphertext", "merge", "values", "<<", "=", "a: b", "a, b", "  lead", "trail  ", "ü$ü"]
NAMES = ["a", "b", "x1", "k-9", "_u", "é", "imports", "context", "$d", "q\"", "ba\\ck"]
KEYS = ["k.dot", "k q", "q\"uote", "a]b", "$", "${", "é", "x\\y", "}", "[0]", "a\\\"b", "\n"]
NUMS = ["0", "1", "42", "-7", "3.5", "1e+21", "-0.25", "9007199254740993", "18446744073709551615"]


def no_open(s):
    i = 0
    while i < len(s):
        if s[i] == "$" and i + 1 < len(s):
            if s[i + 1] == "$":
                i += 2
                continue
            if s[i + 1] == "{":
                return False
        i += 1
    return True


def fn_reserved(k):
    return len(k) >= 4 and k[0] in "fF" and k[1] in "nN" and k[2:4] == "::"


def gen_path(rng):
    if rng.chance(1, 12):
        return [("name", "")]                           # `${}`: accepted without a diagnostic
    p = [("name", rng.choice(NAMES)) if rng.chance(1, 2) else ("key", rng.choice(KEYS))]
    for _ in range(rng.below(4)):
        j = rng.below(3)
        p.append(("name", rng.choice(NAMES)) if j == 0 else ("key", rng.choice(KEYS)) if j == 1 else
                 ("idx", rng.choice([0, 1, 7, 42, 9223372036854775807, -3, -9223372036854775808])))
    return p


def gen_canonical(rng, depth):
    """an expression of the class `canonical` (Proofs/ParseProofs.v) over hostile strings"""
    k = rng.below(20)
    if depth <= 0 or k < 5:
        j = rng.below(5)
        return [("null",), ("bool", rng.chance(1, 2)), ("num", rng.choice(NUMS)), ("str", rng.choice(HOSTILE)),
                ("str", rng.choice(HOSTILE) + rng.choice(HOSTILE))][j]
    if k == 5:
        return ("sym", gen_path(rng))
    if k == 6:
        parts = [(rng.choice(HOSTILE), gen_path(rng) if rng.chance(3, 4) else None) for _ in range(1 + rng.below(3))]
        return G.norm_interp(parts)
    if k in (7, 8):
        return ("arr", [gen_canonical(rng, depth - 1) for _ in range(rng.below(4))])
    if k in (9, 10, 11):
        n = rng.below(4)
        keys = [rng.choice(HOSTILE + ["fn::toJSON", "fn::open::p"]) for _ in range(n)]        # repeats allowed
        if n == 1 and fn_reserved(keys[0]):
            keys[0] = "$" + keys[0]
        return ("obj", [(kk, gen_canonical(rng, depth - 1)) for kk in keys])
    if k == 12:
        return ("join", gen_canonical(rng, depth - 1), gen_canonical(rng, depth - 1))
    if k in (13, 14):
        return (rng.choice(["tojson", "fromjson", "tostring", "tob64", "fromb64"]), gen_canonical(rng, depth - 1))
    if k in (15, 16):
        while True:
            s = rng.choice(HOSTILE) + rng.choice(["", "$$", "$", "$${y}", " "]) + rng.choice(HOSTILE)
            if no_open(s):
                return ("secret", s)
    if k == 17:
        return ("cipher", rng.choice(["ZXNjeAAAAAEQbF1s", "", "a$b", "${x}", "not base64!", G.envelope_repr(b"ct")]))
    return ("open", rng.choice(["p", "", "aws-login", "a::b", "$p", "${x}", "é", "fn::open::"]), gen_canonical(rng, depth - 1))


def gen_canonical_env(rng):
    imports = [(rng.choice(["base", "a", "org/proj/env", "${x}", "a$$b", "é", "", "a b", "merge"]), not rng.chance(1, 3))
               for _ in range(rng.below(4))]
    values = [(rng.choice(HOSTILE + ["v%d" % i, "fn::toJSON", "imports"]), gen_canonical(rng, 3)) for i in range(rng.below(5))]
    return {"imports": imports, "values": values}


def gen_canonical_cases(rng, tier):
    thorough = tier == "thorough"
    out = []
    # evalgen's rich worlds: every definition of the world is a document
    r = rng.fork("rich")
    for _ in range(400 if thorough else 30):
        w = G.RichGen(r.fork("w%d" % len(out))).world()
        out.append(of_def(w["def"], "rich"))
        for e in w["envs"].values():
            if e["kind"] == "def":
                out.append(of_def(e["def"], "rich"))
    # C02's programs (both key orders) and their imports
    from . import c02 as _c02        # late import: c02 imports this module
    r = rng.fork("prog")
    for i in range(400 if thorough else 30):
        c = _c02.gen_program(r.fork("p%d" % i), thorough)
        out.append(of_def(c["def"], "prog"))
        out.append(of_def(c["def2"], "prog"))
        for e in c["envs"].values():
            out.append(of_def(e["def"], "prog"))
    # literals over hostile scalars
    r = rng.fork("lit")
    for i in range(300 if thorough else 30):
        rr = r.fork("l%d" % i)
        out.append(of_def({"imports": [], "values": [(k, G.gen_literal(rr, 3, ["a", "b", "c"], HOSTILE))
                                                     for k in rr.shuffle(["a", "b", "c", "d"])[: 1 + rr.below(4)]]}, "lit"))
    # every constructor over hostile strings
    r = rng.fork("hostile")
    for i in range(1500 if thorough else 110):
        out.append(of_def(gen_canonical_env(r.fork("h%d" % i)), "canonical"))
    # one value per hostile string in every string position
    for s in HOSTILE:
        vals = [("k", ("str", s)), (s, ("obj", [(s, ("null",)), (s, ("str", s))])), ("o", ("open", s, ("obj", []))),
                ("c", ("cipher", s))]
        if no_open(s):
            vals.append(("s", ("secret", s)))
        if s and not s.endswith("\\"):
            vals.append(("r", ("sym", [("key", s), ("idx", 0)])))
            vals.append(("i", G.norm_interp([(s, [("key", s)]), (s, None)])))
        if not fn_reserved(s):
            vals.append(("one", ("obj", [(s, ("null",))])))
        out.append(of_def({"imports": [(s, True), (s, False)], "values": vals}, "strings"))
    return out


# ---------------------------------------------------------------------------------------------------------
# (b) malformed shapes
FNS = ["fn::fromJSON", "fn::fromBase64", "fn::join", "fn::open", "fn::secret", "fn::toBase64", "fn::toJSON", "fn::toString",
       "fn::open::p", "fn::open::", "fn::unknown", "FN::JOIN", "Fn::toJSON", "fn::", "fn:", "fn::Join", "fn::open:p", "ciphertext"]
ARGS = ["null", "5", "true", '"s"', '"a$$b"', '"${x}"', '"a${"', '"pre ${x.y[0]} post"', "[]", "[1]", '[",", [a, b]]', "[1, 2, 3]",
        '["${d}", "${v}"]', "{}", "{a: 1}", "{provider: p}", "{provider: p, inputs: {}}", "{inputs: {x: 1}, provider: 5}",
        '{provider: "${p}", inputs: 1}', "{provider: p, inputs: 1, provider: q}", '{provider: p, inputs: {}, "${k}": 2}',
        "{ciphertext: abc}", "{ciphertext: 5}", '{ciphertext: "${x}"}', '{ciphertext: "a$$b"}', "{ciphertext: a, x: 1}",
        "{Ciphertext: abc}", '{"${k}": 1}', '{"$$k": 1}', "{fn::toJSON: 1}", "{fn::join: 5}", "[{fn::secret: [1]}]",
        "{fn::open: {provider: p, inputs: {fn::open: hello}}}", '{"ciphertext": {fn::toString: x}}']

TOP = [
    "5\n", "[1, 2]\n", "hello\n", "null\n", "~\n", "true\n", "{}\n", "---\n", "", "\n", "# only a comment\n",
    "values: 5\n", "values: [1, 2]\n", "values: null\n", "values: hello\n", "values: {}\n", "values: {a: 1}\nvalues: {b: 2}\n",
    "values: {a: 1, a: 2}\n", "VALUES: {a: 1}\n", "Values: {a: 1}\nvalues: 5\n", "valueſ: {a: 1}\n", "VALUEſ: {a: ${x}\n",
    "value: {a: 1}\n", "valuess: {a: 1}\n", " values: {a: 1}\n", "\"values\": {\"a\": 1}\n", "values : {a: 1}\n",
    "imports: 5\n", "imports: a\n", "imports: {a: {merge: false}}\n", "imports: null\n", "imports: []\n", "IMPORTS: [a]\n",
    "importſ: [a, {b: {merge: false}}]\n", "imports: [a]\nimports: [b]\n", "imports: [a]\nimports: 5\n",
    "imports: [a, a, \"\", \"${x}\", \"a$$b\", 'q\"']\n", "imports: [5]\n", "imports: [null]\n", "imports: [true]\n", "imports: [[a]]\n",
    "imports: [{}]\n", "imports: [{a: {merge: false}}]\n", "imports: [{a: {merge: true}}]\n", "imports: [{a: {merge: 5}}]\n",
    "imports: [{a: {merge: \"false\"}}]\n", "imports: [{a: {merge: null}}]\n", "imports: [{a: {merge: [false]}}]\n",
    "imports: [{a: {merge: {fn::toJSON: 1}}}]\n", "imports: [{a: {merge: \"${x\"}}]\n",
    "imports: [{a: {MERGE: false}}]\n", "imports: [{a: {Merge: false}}]\n", "imports: [{a: {merge: false, merge: true}}]\n",
    "imports: [{a: {merge: true, MERGE: false}}]\n", "imports: [{a: {merge: 5, merge: false}}]\n",
    "imports: [{a: {merg: false}}]\n", "imports: [{a: {merge: false, other: 1}}]\n", "imports: [{a: {other: {fn::join: 5}}}]\n",
    "imports: [{a: 5}]\n", "imports: [{a: null}]\n", "imports: [{a: {}}]\n", "imports: [{a: [merge]}]\n", "imports: [{a: hello}]\n",
    "imports: [{a: {merge: false}, b: {merge: true}}]\n", "imports: [{a: {merge: false}}, 5, {b: 1}, c, {d: {}, e: {}}]\n",
    "imports: [{\"${x}\": {merge: false}}, {\"a$$b\": {merge: false}}, {fn::toJSON: {merge: false}}]\n",
    "description: hello\n", "description: 5\n", "description: null\n", "description: [a]\n", "description: {a: 1}\n",
    "description: \"${x}\"\n", "description: \"a${\"\n", "description: \"a$$b\"\n", "description: {fn::toJSON: 1}\n",
    "description: {fn::join: 5}\n", "Description: a\ndescription: 5\n", "DESCRIPTION: a\nvalues: {a: 1}\nimports: [b]\n",
    "deſcription: a\n", "descrıption: a\n", "unknown: 1\nvalues: {a: 1}\n", "unknown: {fn::join: 5}\n", "source: x\nsyntax: y\n",
    "values: {a: 1}\nimports: [x]\ndescription: d\n", "imports: [x]\nvalues: {a: {fn::open: hello}}\nvalues: {}\n",
    "values: {a: {\"${k}\": 1}}\nvalues: {b: 2}\n", "values: {b: 2}\nvalues: {a: {\"${k}\": 1}}\n",
    "values: {\"${k}\": 1, \"a$$b\": 2, fn::toJSON: 3, FN::x: 4}\n", "values: {a: {b: {c: {\"${k}\": {fn::open: 1}}}}}\n",
    "values:\n  a: 1.0\n  b: 0x1F\n  c: 1e3\n  d: ~\n  e: yes\n  f: 012\n  g: 0o17\n  h: +5\n  i: 1_000\n  j: .5\n  k: -0\n  l: 1e400\n",
    "values:\n  a: !!str 5\n  b: !!int \"7\"\n  c: !!float 1\n  d: !!null x\n  e: !!bool \"true\"\n  f: 2001-12-14\n  g: !!binary aGk=\n",
    "values:\n  a: |\n    block ${x}\n  b: >\n    folded $$\n  c: 'single ${y}'\n  d: \"dq \\x41 ${z}\"\n",
    "values: {1: a}\n", "values: {true: b}\n", "values: {null: c}\n", "values: {[a]: b}\n", "values: {a: &x 1, b: *x}\n",
    "values:\n  <<: {a: 1}\n  b: 2\n", "values: {a: 1", "\tvalues: 1\n", "values: .inf\n", "values: {a: .nan}\n",
]

FUZZ_KEYS = FNS + ["provider", "inputs", "ciphertext", "a", "b", "${x}", "$$k", "a${", "merge", "values", "imports", "description"]
FUZZ_SCALARS = ["null", "true", "5", "1.5", '"s"', '""', '"${a.b}"', '"x${"', '"$$"', '"${}"', '"a ${b} c ${d[0]}"', '"${a[\\"k\\"]}"',
                '"${a.}"', '"${a[}"', '"${[0]}"', '"$"', '"${ a}"', "é"]


def gen_fuzz_tree(rng, depth):
    k = rng.below(10)
    if depth <= 0 or k < 3:
        return rng.choice(FUZZ_SCALARS)
    if k < 5:
        return "[" + ", ".join(gen_fuzz_tree(rng, depth - 1) for _ in range(rng.below(4))) + "]"
    n = rng.choice([0, 1, 1, 1, 2, 2, 3])
    return "{" + ", ".join("%s: %s" % (json.dumps(rng.choice(FUZZ_KEYS)), gen_fuzz_tree(rng, depth - 1)) for _ in range(n)) + "}"


def src_builtin_names():
    """the key literals of tryParseFunction's switch as srcfacts read them from today's source (coq/Src/SrcParse.v, written
    before generation), plus the short-open prefix: a builtin added to or renamed in the source is exercised at once"""
    import os
    import re
    names = []
    try:
        txt = open(os.path.join(C.COQ, "Src", "SrcParse.v")).read()
        m = re.search(r"Definition parse_builtin_table .*?:= \[(.*?)\]\.", txt, re.S)
        if m:
            for a, _b in re.findall(r'\(\(hx "([0-9a-f]*)"\), \(hx "([0-9a-f]*)"\)\)', m.group(1)):
                names.append(bytes.fromhex(a).decode("utf-8", "replace"))
        m = re.search(r'Definition parse_short_open_prefix : string := \(hx "([0-9a-f]*)"\)', txt)
        if m:
            names.append(bytes.fromhex(m.group(1)).decode("utf-8", "replace") + "p")
    except OSError:
        pass
    return names


def gen_malformed_cases(rng, tier):
    thorough = tier == "thorough"
    out = []
    fns = FNS + [n for n in src_builtin_names() if n not in FNS]
    from . import c07 as _c07
    for s in _c07.SHAPES:
        out.append(mk(s.encode("latin-1"), fam="c07-shapes"))
    for s in TOP:
        out.append(mk(s, fam="top"))
    # every builtin (and near-miss key) x every argument shape, as a value and nested
    for fn in fns:
        for a in ARGS:
            out.append(mk("values: {a: {%s: %s}}\n" % (json.dumps(fn), a), fam="fn-x-arg"))
    r = rng.fork("nest")
    for i in range(3000 if thorough else 120):
        rr = r.fork("n%d" % i)
        inner = "{%s: %s}" % (json.dumps(rr.choice(fns)), rr.choice(ARGS))
        wrap = rr.choice(['[1, %s]', '{k: %s, j: 2}', '{%s: %%s}' % json.dumps(rr.choice(FNS)), '{"fn::join": [",", [%s]]}',
                          '{"fn::open::p": {in: %s}}', '{fn::open: {provider: p, inputs: %s}}', '{fn::secret: %s}',
                          '{"${k}": %s}'])
        out.append(mk("values: {a: %s}\n" % (wrap % inner), fam="fn-nested"))
    r = rng.fork("fuzz")
    for i in range(6000 if thorough else 200):
        rr = r.fork("f%d" % i)
        top = []
        for _ in range(1 + rr.below(3)):
            key = rr.choice(["values", "values", "values", "imports", "description", "Values", "other", "IMPORTS"])
            top.append("%s: %s" % (key, gen_fuzz_tree(rr, 4)))
        out.append(mk("\n".join(top) + "\n", fam="fuzz"))
    return out


def gen_parse_cases(rng, tier):
    """(a) canonical ASTs rendered to YAML (round-trip direction + model), (b) malformed shapes (model only)"""
    return gen_canonical_cases(rng.fork("canonical"), tier) + gen_malformed_cases(rng.fork("malformed"), tier)


# ---------------------------------------------------------------------------------------------------------
def prepare(c):
    return {"_h": "PARSE", "text": c["text"]}


def _tf(b):
    return "t" if b else "f"


def line(c, o):
    want = "none" if c.get("want") is None else G.w_envdef(c["want"])
    if "panic" in o or "crash" in o or "decode_errors" not in o:
        return "(parse crash %s)" % want
    if o["decode_errors"]:
        return "(parse (derr %s) %s)" % (_tf(o.get("load_nil")), want)
    same = "none" if "load_same" not in o else _tf(o["load_same"])
    return "(parse (ok %s %s %d %s %s %d %s) %s)" % (
        o["syn"], o["ast"], o["ndiags"], _tf(o["outside"]), _tf(o["load_nil"]),
        max(0, o["load_ndiags"] - o.get("decode_ndiags", 0)), same, want)


def describe(c):
    d = {"yaml": bytes.fromhex(c["text"]).decode("utf-8", "replace"), "family": c.get("fam")}
    if c.get("want") is not None:
        d["rendered_from"] = G.w_envdef(c["want"])
    return d


def shrink(c):
    if c.get("want") is not None:
        d = c["want"]
        for i in range(len(d["values"])):
            yield of_def({"imports": d["imports"], "values": d["values"][:i] + d["values"][i + 1:]}, c.get("fam"))
        for i in range(len(d["imports"])):
            yield of_def({"imports": d["imports"][:i] + d["imports"][i + 1:], "values": d["values"]}, c.get("fam"))
        for i, (k, v) in enumerate(d["values"]):
            if v[0] in ("arr", "obj") and len(v[1]) > 0:
                for j in range(len(v[1])):
                    vv = (v[0], list(v[1][:j]) + list(v[1][j + 1:]))
                    yield of_def({"imports": d["imports"], "values": d["values"][:i] + [(k, vv)] + d["values"][i + 1:]}, c.get("fam"))
            elif v[0] in ("tojson", "fromjson", "tostring", "tob64", "fromb64"):
                yield of_def({"imports": d["imports"], "values": d["values"][:i] + [(k, v[1])] + d["values"][i + 1:]}, c.get("fam"))
            elif v[0] == "open":
                yield of_def({"imports": d["imports"], "values": d["values"][:i] + [(k, v[2])] + d["values"][i + 1:]}, c.get("fam"))
            elif v[0] == "join":
                for x in (v[1], v[2]):
                    yield of_def({"imports": d["imports"], "values": d["values"][:i] + [(k, x)] + d["values"][i + 1:]}, c.get("fam"))
        return
    b = bytes.fromhex(c["text"])
    lines = b.split(b"\n")
    for i in range(len(lines)):
        yield mk(b"\n".join(lines[:i] + lines[i + 1:]), fam=c.get("fam"))
    step = max(1, len(b) // 24)
    for i in range(0, len(b), step):
        yield mk(b[:i] + b[i + step:], fam=c.get("fam"))


def distribution(cases, obs):
    d = {"documents": 0, "canonical_roundtrip": 0, "decode_errors": 0, "with_diagnostics": 0, "without_diagnostics": 0,
         "outside_evaluator_syntax": 0, "crash_or_panic": 0, "families": {}}
    for c, o in zip(cases, obs):
        if c.get("kind") != KIND:
            continue
        d["documents"] += 1
        d["families"][c.get("fam")] = d["families"].get(c.get("fam"), 0) + 1
        if c.get("want") is not None:
            d["canonical_roundtrip"] += 1
        if "panic" in o or "crash" in o or "decode_errors" not in o:
            d["crash_or_panic"] += 1
        elif o["decode_errors"]:
            d["decode_errors"] += 1
        else:
            d["with_diagnostics" if o["ndiags"] else "without_diagnostics"] += 1
            if o.get("outside"):
                d["outside_evaluator_syntax"] += 1
    return d
