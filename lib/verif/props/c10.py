"""C10 — an imported environment means the same everywhere."""
from .. import common as C
from .. import evalgen as G

ID = "C10"
impl_prop = "EV"
SRC_FACTS = []
COQ_SAMPLE = 40
RULE = ("import graphs (2..5 environments quick, ..8 thorough; diamonds, repeated imports, merge flags) whose environments "
        "hold literals, references to their own keys and to keys inherited from their own imports, secrets and provider "
        "outputs, while importers and siblings define the same keys differently; the root reads every imported X through "
        "${imports.X} after all merges; X is also evaluated on its own.  non-trivial = at least one ${imports.X} compared")
ASSUMPTIONS = ["environments do not read context.rootEnvironment (their value legitimately depends on the root); they may read "
               "context.currentEnvironment (their own name)",
               "mutable aliasing of *value (the reason for the defensive copies) is runtime behaviour: visible to the "
               "correspondence and to the oracle, not to the theorems (the model's values are immutable)"]
TRUSTED = []

KEYS = ["a", "b", "c", "d"]


def gen_env(rng, name, lower, sites, provs):
    imports = []
    for m in lower:
        if rng.chance(1, 2):
            imports.append((m, not rng.chance(1, 5)))
    if lower and rng.chance(1, 5):
        imports.append((rng.choice(lower), True))
    vals = []
    have = []
    for k in rng.shuffle(KEYS)[: 1 + rng.below(4)]:
        j = rng.below(10)
        if j < 4:
            e = G.gen_literal(rng, 2, ["a", "b"], G.RSTRS)
        elif j == 4 and have:
            e = ("sym", [("name", rng.choice(have))])
        elif j == 5 and rng.chance(1, 3):
            # an environment's OWN name is the same wherever it is imported (only the root's name legitimately differs)
            e = ("sym", [("name", "context"), ("name", "currentEnvironment"), ("name", "name")])
        elif j == 5:
            e = ("sym", [("name", rng.choice(KEYS))])          # own key, inherited key, or dangling
        elif j == 6:
            # plaintext or ciphertext: every environment has its own decrypter, an import is decrypted with ITS key
            e = ("secret", rng.choice(["hunter2", "pw"])) if rng.chance(1, 2) else \
                ("cipher", G.envelope_repr(rng.choice([b"ct-one", b"zz", b"!undecryptable"])))
        elif j == 7:
            pn = "p%s%d" % (name, len(sites))
            sites.append(pn)
            provs[pn] = {"in": "always", "out": "always", "beh": "const", "const": G.gen_const_output(rng)}
            e = ("open", pn, ("obj", [("k", ("str", "v"))]))
        elif j == 8 and have:
            e = G.norm_interp([("<", [("name", rng.choice(have))]), (">", None)])
        else:
            e = ("obj", [(kk, ("sym", [("name", rng.choice(KEYS))]) if rng.chance(1, 3) else G.gen_literal(rng, 1, ["a"], G.RSTRS))
                         for kk in rng.shuffle(["a", "b", "c"])[: 1 + rng.below(2)]])
        vals.append((k, e))
        have.append(k)
    return {"imports": imports, "values": vals}


def alias_family():
    """an import L aliases one of its own objects (k: ${obj}); an EARLIER sibling import defines k with an overlapping
    nested object: merging k must not write through the alias into obj (and the other way round)"""
    out = []
    nested = ("obj", [("inner", ("obj", [("x", ("num", "1"))])), ("z", ("num", "2"))])
    aliases = [("k", ("sym", [("name", "obj")]), lambda o: o),
               ("k", ("sym", [("name", "obj"), ("name", "inner")]), lambda o: o[1][0][1]),
               ("k", ("obj", [("w", ("sym", [("name", "obj")]))]), lambda o: ("obj", [("w", o)])),
               ("k", ("arr", [("sym", [("name", "obj")])]), None)]
    over = ("obj", [("inner", ("obj", [("y", ("num", "2"))])), ("x", ("num", "7")), ("y", ("num", "8"))])
    for key, alias, wrap in aliases:
        for bshape in range(3):
            bval = over if bshape == 0 else ("obj", [("w", over)]) if bshape == 1 else ("obj", [("inner", ("str", "cut"))])
            for order in (["base", "L"], ["L", "base"], ["base", "L", "base2"], ["base", "L", "L"]):
                for own in (False, True):
                    for objfirst in (True, False):
                        lv = [("obj", nested), (key, alias)] if objfirst else [(key, alias), ("obj", nested)]
                        envs = {"L": {"imports": [], "values": lv},
                                "base": {"imports": [], "values": [(key, bval)]},
                                "base2": {"imports": [], "values": [("obj", ("obj", [("inner", ("obj", [("q", ("num", "3"))]))]))]}}
                        rv = [("k", ("obj", [("inner", ("obj", [("r", ("num", "4"))]))]))] if own else []
                        seen = []
                        for m in sorted(set(order)):
                            rv.append(("seen_" + m, ("sym", [("name", "imports"), ("name", m)])))
                            seen.append(("seen_" + m, m))
                        envs["root"] = {"imports": [(m, True) for m in order], "values": rv}
                        c = G.case_from_graph(envs, "root")
                        c["provs"] = {}
                        c["seen"] = seen
                        out.append(c)
    return out


def multi_ref_family():
    """the same imported subtree referenced several times in one importer, one of the references on a key that has a
    base from a sibling import (so it is merged in place): the other references and ${imports.b} must not change"""
    out = []
    bobj = ("obj", [("nested", ("obj", [("own", ("num", "1"))])), ("empty", ("obj", [])), ("l", ("arr", [("obj", [])]))])
    for sib in range(3):
        sv = [("obj", [("nested", ("obj", [("extra", ("num", "2"))])), ("empty", ("obj", [("debug", ("bool", True))]))]),
              ("obj", [("own", ("num", "5")), ("more", ("num", "6"))]),
              ("obj", [("obj", ("obj", [("nested", ("obj", [("extra", ("num", "3"))]))]))])][sib]
        for order in (["x", "b"], ["b", "x"], ["x", "b", "d"]):
            for first in range(3):
                refs = [("q", ("sym", [("name", "imports"), ("name", "b"), ("name", "obj")])),
                        ("r", ("sym", [("name", "imports"), ("name", "b"), ("name", "obj"), ("name", "nested")])),
                        ("w", ("sym", [("name", "imports"), ("name", "b")]))]
                refs = refs[first:] + refs[:first]
                envs = {"b": {"imports": [], "values": [("obj", bobj), ("opts", ("obj", []))]},
                        "x": {"imports": [], "values": [("q", sv), ("r", sv), ("w", sv), ("opts", ("obj", [("debug", ("bool", True))]))]},
                        "d": {"imports": [("b", True)], "values": []}}
                rv = list(refs) + [("q2", ("sym", [("name", "imports"), ("name", "b"), ("name", "obj")]))]
                seen = []
                for m in sorted(set(order)):
                    rv.append(("seen_" + m, ("sym", [("name", "imports"), ("name", m)])))
                    seen.append(("seen_" + m, m))
                envs["root"] = {"imports": [(m, True) for m in order], "values": rv}
                c = G.case_from_graph(envs, "root")
                c["provs"] = {}
                c["seen"] = seen
                out.append(c)
    return out


def sparse_nesting_family():
    """an import c with an import d of its own, merged after (or before) a sibling b: nested objects two and three levels
    down where the MIDDLE layer (d, or c, or b) lacks the inner key, so that the inner object of the layer above reaches
    the layer below only through the re-merge at import time (learnt from seeded change C10-k: a property whose base was
    already set was not re-merged when a sibling arrived underneath)"""
    out = []

    def obj(path, leaf):
        v = ("obj", [leaf])
        for k in path[::-1]:
            v = ("obj", [(k, v)])
        return v
    for depth in (1, 2, 3):
        path = ["obj", "inner", "deep"][:depth]
        for lacking in ("d", "c", "b", None):
            for order in (["b", "c"], ["c", "b"], ["b", "c", "b"]):
                def val(nm):
                    if nm == lacking:
                        return ("obj", [("other_" + nm, ("num", "1"))]) if depth == 1 else obj(path[:-1], ("other_" + nm, ("num", "1")))
                    return obj(path, ("from_" + nm, ("num", "1")))
                envs = {"d": {"imports": [], "values": [(path[0], val("d"))] if True else []},
                        "c": {"imports": [("d", True)], "values": [(path[0], val("c"))]},
                        "b": {"imports": [], "values": [(path[0], val("b"))]}}
                for own in (False, True):
                    rv = [(path[0], obj(path, ("from_root", ("num", "1"))))] if own else []
                    seen = []
                    for m in sorted(set(order)):
                        rv.append(("seen_" + m, ("sym", [("name", "imports"), ("name", m)])))
                        seen.append(("seen_" + m, m))
                    e = dict(envs)
                    e["root"] = {"imports": [(m, True) for m in order], "values": rv}
                    c = G.case_from_graph(e, "root")
                    c["provs"] = {}
                    c["seen"] = seen
                    out.append(c)
    return out


def builtin_then_merge_family():
    """a diamond in which the FIRST path to an import `a` hands part of it to a built-in (fn::toJSON / fn::toString /
    fn::join / an interpolation of ${imports.a...}) and the SECOND path merges `a` over a sibling `z` that adds keys one or
    two levels below the referenced value: what the built-in left on the shared values of `a` must not show in the second
    copy (learnt from seeded change C10-l: memoised key sets carried into copies)"""
    out = []
    aobj = ("obj", [("inner", ("obj", [("k", ("num", "1")), ("deep", ("obj", [("dk", ("num", "1"))]))])), ("s", ("str", "v"))])
    zobj = ("obj", [("inner", ("obj", [("zk", ("num", "2")), ("deep", ("obj", [("dz", ("num", "2"))]))])), ("zs", ("str", "w"))])
    ref = lambda *names: ("sym", [("name", "imports"), ("name", "a")] + [("name", n) for n in names])
    uses = [("tojson", ref("obj")), ("tojson", ref()), ("tostring", ref("obj", "inner")),
            ("join", ("str", ","), ("arr", [("tojson", ref("obj", "inner")), ref("obj", "s")])),
            G.norm_interp([("<", [("name", "imports"), ("name", "a"), ("name", "obj"), ("name", "s")]), (">", None)]),
            ("obj", [("w", ("tojson", ref("obj", "inner", "deep")))]), ref("obj")]
    for ui, use in enumerate(uses):
        for corder in (["z", "a"], ["a", "z"]):
            for rorder in (["b", "c"], ["c", "b"], ["b", "c", "a"]):
                envs = {"a": {"imports": [], "values": [("obj", aobj)]},
                        "z": {"imports": [], "values": [("obj", zobj)]},
                        "b": {"imports": [("a", True)], "values": [("j", use)]},
                        "c": {"imports": [(m, True) for m in corder], "values": []}}
                rv, seen = [], []
                for m in sorted(set(rorder)):
                    rv.append(("seen_" + m, ("sym", [("name", "imports"), ("name", m)])))
                    seen.append(("seen_" + m, m))
                envs["root"] = {"imports": [(m, True) for m in rorder], "values": rv}
                c = G.case_from_graph(envs, "root")
                c["provs"] = {}
                c["seen"] = seen
                out.append(c)
    return out


def failing_inside_shared_family():
    """an environment S that is reached by two paths and has an import of its OWN that fails (loader error, missing, does
    not parse): S is still the same value on every path (learnt from seeded change C10-m: the "failed" mark was recorded
    under the importer's name, so the second path to S dropped it)"""
    out = []
    for bad in ({"kind": "fail"}, None, {"kind": "noparse", "text": "values: [1, 2\n"}):
        for simports in ([("bad", True)], [("bad", True), ("G", True)], [("G", True), ("bad", False)]):
            for rorder in (["S", "M"], ["M", "S"], ["M", "S", "M2"]):
                envs = {"G": {"imports": [], "values": [("fromG", ("str", "g"))]},
                        "S": {"imports": simports, "values": [("fromShared", ("str", "s")), ("o", ("obj", [("k", ("num", "1"))]))]},
                        "M": {"imports": [("S", True)], "values": [("fromMid", ("str", "m"))]},
                        "M2": {"imports": [("M", True), ("S", True)], "values": [("o", ("obj", [("k2", ("num", "2"))]))]}}
                rv, seen = [], []
                for m in sorted(set(rorder)):
                    rv.append(("seen_" + m, ("sym", [("name", "imports"), ("name", m)])))
                    seen.append(("seen_" + m, m))
                envs["root"] = {"imports": [(m, True) for m in rorder], "values": rv}
                c = G.case_from_graph(envs, "root")
                if bad is not None:
                    c["envs"]["bad"] = bad
                c["provs"] = {}
                c["seen"] = seen
                out.append(c)
    return out


def gen(rng, tier):
    cases = alias_family() + multi_ref_family() + sparse_nesting_family() + builtin_then_merge_family()
    cases += failing_inside_shared_family()
    n = 2500 if tier == "thorough" else 300
    for i in range(n):
        r = rng.fork("g%d" % i)
        nenv = 2 + r.below(7 if tier == "thorough" else 4)
        sites, provs, envs, names = [], {}, {}, []
        for j in range(nenv - 1):
            nm = "e%d" % j
            envs[nm] = gen_env(r, nm, names, sites, provs)
            names.append(nm)
        root = gen_env(r, "root", [], sites, provs)
        root["imports"] = [(m, not r.chance(1, 3)) for m in r.shuffle(names) if r.chance(3, 4)] or [(names[0], True)]
        seen = []
        for m in sorted(set(m for m, _ in root["imports"])):
            root["values"].append(("seen_" + m, ("sym", [("name", "imports"), ("name", m)])))
            seen.append(("seen_" + m, m))
        # a mid-level importer reads ITS imports too: the root sees them through imports.<mid>.seen_<m>
        for mid in sorted(set(m for m, _ in root["imports"])):
            for m2 in sorted(set(x for x, _ in envs[mid]["imports"])):
                key = "seen_" + m2
                if all(k != key for k, _ in envs[mid]["values"]):
                    envs[mid]["values"].append((key, ("sym", [("name", "imports"), ("name", m2)])))
                    seen.append(("seen_" + mid + "/" + key, m2))
        envs["root"] = root
        c = G.case_from_graph(envs, "root")
        c["provs"] = provs
        c["seen"] = seen
        # the same statement while CHECKING (both sides in the same mode), with and without showSecrets
        c["check"] = r.chance(1, 3)
        c["show"] = r.chance(1, 2)
        cases.append(c)
    return cases


def prepare(c):
    return G.request(c, also=[m for _, m in c["seen"]])


def line(c, o):
    ss = []
    for k, m in c["seen"]:
        ob = (o.get("also") or {}).get(m) or {"crash": "missing"}
        ss.append("(%s %s %s)" % (G.sx(k), G.sx(m), G.w_obs(ob)))
    return "(c10 %s (%s))" % (G.w_case(c, o), " ".join(ss))


def describe(c):
    return {"root": G.render_env(c["def"]), "imports": {n: (G.render_env(e["def"]) if e.get("kind") == "def" else e.get("text", e.get("kind"))) for n, e in c["envs"].items()}}


def shrink(c):
    d = c["def"]
    for i in range(len(d["values"])):
        if not d["values"][i][0].startswith("seen_"):
            yield dict(c, **{"def": {"imports": d["imports"], "values": d["values"][:i] + d["values"][i + 1:]}})
    for n, e in c["envs"].items():
        if e.get("kind") != "def":
            continue
        dd = e["def"]
        for i in range(len(dd["values"])):
            envs = dict(c["envs"])
            envs[n] = {"kind": "def", "def": {"imports": dd["imports"], "values": dd["values"][:i] + dd["values"][i + 1:]}}
            yield dict(c, envs=envs)
        for i in range(len(dd["imports"])):
            envs = dict(c["envs"])
            envs[n] = {"kind": "def", "def": {"imports": dd["imports"][:i] + dd["imports"][i + 1:], "values": dd["values"]}}
            yield dict(c, envs=envs)


def distribution(cases, r):
    d = {"seen_compared": 0, "with_errors": 0, "crash_or_panic": 0, "max_envs": 0}
    for c, o in zip(cases, r["obs"]):
        d["seen_compared"] += len(c["seen"])
        d["with_errors"] += 1 if o.get("errors") else 0
        d["crash_or_panic"] += 1 if ("crash" in o or "panic" in o) else 0
        d["max_envs"] = max(d["max_envs"], len(c["envs"]) + 1)
    return d
