"""C12 — secret rewriting preserves the rest of the document."""
import itertools

from .. import common as C
from . import cryptgen as G

ID = "C12"
SRC_FACTS = ["crypt_fn_secret", "crypt_key_ciphertext", "crypt_new_key", "marshal_null_words", "marshal_quote_words",
             "marshal_block_prefixes", "envelope_magic", "envelope_version", "envelope_min_len"]
COQ_SAMPLE = 60
BATCH = 200
RULE = ("regression corpus; line-break family (non-secret literal / folded block scalars and secrets in block / flow "
        "position whose text contains LF and starts with LF, U+2028, U+2029, tab; controls U+0085, U+FEFF); spelling family (every YAML spelling of the keys fn::secret / ciphertext and of the text "
        "scalar: plain, quoted, \\x / \\u escapes, !!str tag, block / flow, one secret per document); whitespace family (all texts over {LF, space, tab, x, U+2028, -} up to length 3, thorough 4, "
        "decrypted into a block slot / encrypted from a quoted scalar); exhaustive small family: every secret text (48: empty, one byte, 123/null/true/~, "
        "leading/trailing spaces, $ / $$ / ${x}, multi-line, non-ASCII, big integers, YAML indicators) x scalar style "
        "(plain, single, double, literal, folded, tagged) x position (top level, nested object, array, provider input, "
        "flow) for EncryptSecrets and x ciphertext scalar style for DecryptSecrets; every YAML-special string x scalar "
        "style and every typed scalar beside a secret; random documents (block/flow collections, all scalar styles, "
        "head/line comments on keys, sequence items and scalars, secrets at top level / nested / arrays / provider "
        "inputs); refusal stream (corrupt envelopes, wrong cipher prefix, aliases, non-string keys, non-secret shapes "
        "of fn::secret); out-of-subset stream (timestamps, !!binary, custom tags: correspondence and crash only); "
        "interpolation family (24 well-formed and malformed `${..}` plaintexts, 1-3 per document: the class of C12-interp is "
        "delimited by the exact number of diagnostics); second random stream with foot comments, line comments after flow "
        "collections (`k: {..} # c`), comments inside multi-line flow collections, duplicate keys, lines of 90-400 characters, "
        "roots with imports / unknown top-level keys / values not first; size families: secret text length, length of a "
        "non-secret scalar, number of secrets at 2^k-1, 2^k, 2^k+1 (quick: 16 KiB / 1 Ki secrets, thorough: 128 KiB / 16 Ki).  "
        "A fatal crash or hang of the rewrite is a failing case (outcome `crash`, the input tree fetched by a second process).  "
        "non-trivial = at least one secret rewritten or the rewrite refused; distinct by document text, op, cipher")
ASSUMPTIONS = ["the yaml.v3 node tree of a text (kind, resolved tag, value, comments, order, flow/block) is what "
               "yaml.v3 itself reports for it; yaml.v3's scanner/emitter is exercised, not modelled",
               "accepted subset: one document, scalars resolving to the core tags (null, bool, int, float, str), no "
               "aliases; an empty null carrying a line comment on its key (`k: # c`) is kept out of the generated "
               "documents: it is re-emitted as `k: null # c`, the comment then belongs to the value",
               "scalar presentation style and the spelling of null are not part of the compared content (MarshalYAML "
               "re-quotes number-like strings and rewrites an empty null to `null`)",
               "foot comments are outside the property's stated subset (head/line comments) but generated: yaml.v3 itself "
               "(parse, emit, parse) re-attaches the foot comment of a key whose value is a block collection to the last key "
               "inside that collection and drops the trailing line feed of a comment separated from its node by a blank line; "
               "documents with such a comment (Corr/C12.v unstable_trivia, counted in the distribution) are judged by the tree "
               "without foot comments plus the sequence of all comments and scalars in textual order, instead of node-by-node",
               "control run: every document is also parsed, emitted (indent 2, as eval/crypt.go does) and parsed by yaml.v3 "
               "ALONE; inside the unstable class a document whose control tree already fails that weak projection against the "
               "input (yaml.v3 moves a paragraph across a scalar or drops it on re-reading) is judged without its comments",
               "valid document (for the clause 'the rewrite of a valid document succeeds') = eval.LoadYAMLBytes reports no "
               "diagnostic for the input and, for decryption, every ciphertext is an envelope the case's decrypter opens"]
TRUSTED = ["Python YAML renderer (lib/verif/props/cryptgen.py) only shapes inputs: the input tree is read back with "
           "yaml.v3 on the implementation side; Python base64/CRC only build ciphertext inputs"]

CORPUS = [
    ("enc", "# head of doc\nvalues:\n  # head comment on s\n  s:\n    fn::secret: a$$b   # line comment\n  u: \"123\"\n"
            "  v: '~'\n  w: !!str null\n  x: 12345678901234567890123\n  arr: [1, \"2\", {fn::secret: \"  lead\"}]\n  ml:\n"
            "    fn::secret: |\n      line1\n      line2\n  e:\n    fn::secret: \"\"\n  n:\n    fn::secret: '123'\n  o:\n"
            "    fn::open::test:\n      k:\n        # hc\n        fn::secret: héllo\n# foot\n"),
    ("enc", "fn::secret: x\n"),
    ("enc", "- a\n- {fn::secret: x}\n"),
    ("enc", "foo: {fn::secret: x}\nvalues:\n  a: 1\n"),
    ("enc", "imports:\n  - a\n  - {fn::secret: x}\nvalues:\n  a: 1\n"),
    ("enc", "values:\n  a: {fn::secret: [1, 2]}\n  b: {fn::secret: {ciphertext: 5}}\n  c: {fn::secret: {ciphertext: x, more: y}}\n"
            "  d: {fn::secret: {other: x}}\n  e: {fn::secret: 5}\n  f: {fn::secret: null}\n  g: {fn::secret: x, other: y}\n"),
    ("enc", "values:\n  a: {fn::secret: {fn::secret: x}}\n  b: {fn::secret: {ciphertext: {fn::secret: y}}}\n"),
    ("enc", "values:\n  a: 1\n  # foot of a\n\n  b: {fn::secret: z}\n# end\n"),
    ("enc", "values:\r\n  a: 1\r\n  s:\r\n    fn::secret: x\r\n"),
    ("enc", "values:\n  t: >\n    folded text\n    more\n\n    para\n  s:\n    fn::secret: >-\n      fold me\n      please\n"),
    ("enc", "values:\n  t: |+\n    keep\n\n  u: |2\n      indented\n  s: {fn::secret: x}\n"),
    ("enc", "values:\n  a: {}\n  b: []\n  c: {k: }\n  d:\n  s: {fn::secret: x}\n"),
    ("enc", "values:\n  a:\n  - x\n  - fn::secret: y\n"),
    ("enc", "values:\n  s:\n    fn::secret: " + "word " * 40 + "\n  t: " + "w " * 100 + "\n"),
    # trivia and shapes added after the audit: foot comments, comments inside / after flow collections, roots with
    # imports and unknown keys, duplicate keys
    ("enc", "values:\n  a:\n    - x\n    # foot of x\n\n    - fn::secret: y # lc\n    # foot of secret\n\n  b: 1\n  # foot of b\n\n# foot of doc\n"),
    ("enc", "values:\n  f: {a: 1, s: {fn::secret: x}} # after flow map\n  g: [1, {fn::secret: y}] # after flow seq\n  h: {} # empty\n"),
    ("enc", "values:\n  f: [\n    a, # first\n    {fn::secret: x}, # the secret\n    b\n    ] # closing\n  m: {\n    k: v, # kc\n    s: {fn::secret: y}\n    }\n"),
    ("enc", "# top\nimports:\n  - base # why\n  - other: {merge: false}\n# between\nvalues:\n  s: {fn::secret: x}\nextra:\n  t: {fn::secret: y}\n"),
    ("enc", "values:\n  a: 1\n  a: {fn::secret: x}\n  o: {k: 1, k: 2, k: {fn::secret: y}}\n"),
    ("enc", "values:\n  s: {fn::secret: x}\n"),
    # out of the subset: correspondence only
    ("enc", "values:\n  d: 2001-01-01\n  s: {fn::secret: x}\n"),
    ("enc", "values:\n  d: !foo bar\n  m: !mytag {a: 1}\n  s: {fn::secret: x}\n"),
    ("enc", "values:\n  d: !!binary aGk=\n  s: {fn::secret: x}\n"),
    ("enc", "values:\n  d: &a x\n  e: *a\n"),
    ("enc", "values:\n  1: a\n  true: b\n"),
    ("enc", "values:\n  ? [a]\n  : b\n"),
]


INTERP_TEXTS = ["${x}", "${a.b}", "pre ${a.b} post", "a${b}${c}", "${a.b[0][\"k\"]}", "${}", "${a", "${", "${a.}", "${a[}", "${a[0}",
                "${a[\"k}", "x ${a} ${", "${ a }", "${a}}", "$${a} ${b}", "${a.b.}", "${[0]}", "${a[-1]}", "${a[x]}", "${\"k\"}",
                "${a..b}", "é${é}", "${a}\n${b"]


def doc_with(node_builder, position, rng):
    """One document with `node` (built by node_builder(in_flow)) at a given position."""
    S, M, Q = G.Sc, G.Map, G.Seq

    def ent(k, v, **kw):
        return dict({"key": S(k, "plain"), "val": v}, **kw)

    if position == "top":
        vals = M([ent("s", node_builder(False)), ent("other", S("abc", "plain"))])
    elif position == "nested":
        vals = M([ent("o", M([ent("inner", M([ent("s", node_builder(False))]))])), ent("n", S("1", typed="int"))])
    elif position == "array":
        vals = M([ent("arr", Q([S("x", "plain"), node_builder(False), S("2", "double")]))])
    elif position == "provider":
        vals = M([ent("p", M([ent("fn::open::test", M([ent("k", node_builder(False)), ent("plain", S("v", "plain"))]))]))])
    elif position == "flow":
        vals = M([ent("f", M([ent("a", node_builder(True)), ent("b", Q([node_builder(True)], True))], True))])
    else:
        raise ValueError(position)
    return M([ent("values", vals)])


POSITIONS = ["top", "nested", "array", "provider", "flow"]
STYLES = ["plain", "single", "double", "literal", "folded", "tagged"]


def gen(rng, tier):
    thorough = tier == "thorough"
    cases = []

    def add(op, text, key=0x5A, pad=0, fam=""):
        cases.append({"op": op, "src": text.encode("utf-8").hex(), "key": key, "pad": pad, "fam": fam})

    for op, text in CORPUS:
        add(op, text, fam="corpus")
    add("dec", "values:\n  f: [\n    a, # first\n    {fn::secret: {ciphertext: %s}} # the secret\n    ]\n  g: {fn::secret: {ciphertext: %s}} # after\n"
        % (G.envelope(G.toy_encrypt(b"x", 0x5A, 0)), G.envelope(G.toy_encrypt(b"y # z", 0x5A, 0))), fam="corpus")

    # --- exhaustive small family: secret text x style x position ---------------------------------------------
    k = 0
    for t in G.SECRET_TEXTS:
        for st in STYLES:
            for pos in POSITIONS:
                k += 1
                if not thorough and (k % 3) != 0 and pos not in ("top",):
                    continue
                key, pad = (0x5A, 0) if k % 2 else (k % 256, k % 5)

                def plain(in_flow, t=t, st=st):
                    return G.Map([{"key": G.Sc("fn::secret", "plain"), "val": G.Sc(t, st, line=None if in_flow else "lc"),
                                   "head": None if in_flow else "hc"}], flow=in_flow)
                add("enc", G.to_text(doc_with(plain, pos, rng)), key, pad, "family-enc")
                if st in ("plain", "single", "double"):
                    def ciph(in_flow, t=t, st=st, key=key, pad=pad):
                        env = G.envelope(G.toy_encrypt(t.encode("utf-8"), key, pad))
                        inner = G.Map([{"key": G.Sc("ciphertext", "plain"),
                                        "val": G.Sc(env, st, line=None if in_flow else "lc")}], flow=in_flow)
                        return G.Map([{"key": G.Sc("fn::secret", "plain"), "val": inner,
                                       "head": None if in_flow else "hc"}], flow=in_flow)
                    add("dec", G.to_text(doc_with(ciph, pos, rng)), key, pad, "family-dec")

    # --- plaintexts with (well-formed and malformed) interpolations, one / two / three per document: the class of the
    #     known finding C12-interp is delimited by the exact number of diagnostics (Corr/C12.v known_interp) ----------
    for i, t in enumerate(INTERP_TEXTS):
        key, pad = 0x21 + i, i % 3
        env = G.envelope(G.toy_encrypt(t.encode("utf-8"), key, pad))
        env2 = G.envelope(G.toy_encrypt(INTERP_TEXTS[(i * 7 + 3) % len(INTERP_TEXTS)].encode("utf-8"), key, pad))
        ok = G.envelope(G.toy_encrypt(b"fine", key, pad))
        add("dec", "values:\n  a:\n    fn::secret:\n      ciphertext: %s\n  b: 1\n" % env, key, pad, "interp")
        add("dec", "values:\n  a: {fn::secret: {ciphertext: %s}}\n  l: [{fn::secret: {ciphertext: %s}}, {fn::secret: {ciphertext: %s}}]\n"
            % (env, ok, env2), key, pad, "interp")
        add("enc", "values:\n  a:\n    fn::secret: %s\n  b: {fn::secret: {ciphertext: %s}}\n" % (G.dq(t), env), key, pad, "interp")

    # --- alternative spellings of the keys fn::secret / ciphertext and of the text scalar ---------------------------
    for form, text in G.spelled_documents(0x6B, 1, thorough):
        add("enc" if form == "plain" else "dec", text, 0x6B, 1, "spelling-" + form)

    # --- texts starting with a line break character (LF, U+2028, U+2029; controls U+0085, U+FEFF, tab) ---------------
    for text in G.break_scalar_documents():
        add("enc", text, 0x2C, 0, "breaks-scalar")
        add("dec", text, 0x2C, 0, "breaks-scalar")
    for form, text in G.break_secret_documents(0x2C, 1):
        add("enc" if form == "plain" else "dec", text, 0x2C, 1, "breaks-secret")

    # --- non-secret scalars beside a secret: every YAML-special string x style, typed scalars -----------------
    for t in G.STRING_TEXTS:
        for st in STYLES:
            ents = [{"key": G.Sc("k", "plain"), "val": G.Sc(t, st)},
                    {"key": G.Sc(t if t else "e", "double"), "val": G.Sc("v", "plain")},
                    {"key": G.Sc("fl", "plain"), "val": G.Seq([G.Sc(t, st)], True)},
                    {"key": G.Sc("s", "plain"), "val": G.Map([{"key": G.Sc("fn::secret", "plain"),
                                                                  "val": G.Sc("hunter2", "plain")}])}]
            add("enc", G.to_text(G.Map([{"key": G.Sc("values", "plain"), "val": G.Map(ents)}])), fam="strings")
    ents = [{"key": G.Sc("t%d" % i, "plain"), "val": G.Sc(t, typed=ty)} for i, (t, ty) in enumerate(G.TYPED)]
    ents.append({"key": G.Sc("fl", "plain"), "val": G.Seq([G.Sc(t if t else "null", typed=ty) for t, ty in G.TYPED], True)})
    ents.append({"key": G.Sc("s", "plain"), "val": G.Map([{"key": G.Sc("fn::secret", "plain"), "val": G.Sc("x", "plain")}])})
    add("enc", G.to_text(G.Map([{"key": G.Sc("values", "plain"), "val": G.Map(ents)}])), fam="typed")

    # --- whitespace family: every text over {LF, space, tab, x, U+2028, '-'} up to length 3 (thorough: 4) as a
    #     ciphertext to decrypt into a block-context slot and as a double-quoted plaintext to encrypt --------------
    alpha = ["\n", " ", "\t", "x", "\u2028", "-"]
    for ln in range(1, 5 if thorough else 4):
        for tup in itertools.product(alpha, repeat=ln):
            t = "".join(tup)
            env = G.envelope(G.toy_encrypt(t.encode("utf-8"), 0x31, 1))
            add("dec", "values:\n  a:\n    fn::secret:\n      ciphertext: %s\n  b: 1\n" % env, 0x31, 1, "whitespace")
            if thorough or ln < 3:
                add("enc", "values:\n  a:\n    fn::secret: %s\n  t: %s\n" % (G.dq(t), G.dq(t)), 0x31, 1, "whitespace")

    # --- random documents ---------------------------------------------------------------------------------------
    n = 20000 if thorough else 1200
    for i in range(n):
        r = rng.fork("doc%d" % i)
        op = "enc" if i % 2 == 0 else "dec"
        key, pad = r.below(256), r.choice([0, 0, 1, 2, 5, 17])
        g = G.Gen(r, comments=r.chance(3, 4), ciphers=(op == "dec") or r.chance(1, 5), key=key, pad=pad)
        add(op, G.to_text(g.document(2 + r.below(3)), trailing_newline=r.chance(9, 10)), key, pad, "random")

    # --- random documents with the trivia / shapes the first stream never had: foot comments, line comments after flow
    #     collections (`k: {..} # c`), comments inside multi-line flow collections, duplicate keys, long lines (> the
    #     emitter's width of 80), roots that are not just `values:` (imports, unknown top-level keys) -----------------
    n = 12000 if thorough else 900
    for i in range(n):
        r = rng.fork("tdoc%d" % i)
        op = "enc" if i % 2 == 0 else "dec"
        key, pad = r.below(256), r.choice([0, 0, 1, 2, 5, 17])
        g = G.Gen(r, comments=True, ciphers=(op == "dec") or r.chance(1, 5), key=key, pad=pad,
                  trivia=r.chance(3, 4), dup_keys=r.chance(1, 3), long_lines=r.chance(1, 2), roots=r.chance(1, 2))
        add(op, G.to_text(g.document(2 + r.below(3)), trailing_newline=r.chance(9, 10)), key, pad, "random-trivia")

    # --- sizes: powers of two +- 1 (secret text length, length of a non-secret scalar, number of secrets) ------------
    for fam, text, key, pad in size_documents(thorough):
        add("enc", text, key, pad, fam)
    for fam, op, text, key, pad in size_cipher_documents(thorough):
        add(op, text, key, pad, fam)

    # --- refusals ------------------------------------------------------------------------------------------------
    for i in range(400 if thorough else 60):
        r = rng.fork("bad%d" % i)
        kind = r.below(6)
        # (a wrong cipher prefix needs pad >= 1; with pad 0 every ciphertext decrypts, possibly to invalid UTF-8,
        #  which yaml.v3 refuses to write: not modelled)
        key, pad = r.below(256), (1 + r.below(3) if kind == 4 else r.below(4))
        ct = G.toy_encrypt(r.choice(G.SECRET_TEXTS).encode(), key, pad)
        if kind == 0:
            env = G.envelope(ct, magic=b"escy")
        elif kind == 1:
            env = G.envelope(ct, version=2)
        elif kind == 2:
            e = bytearray(G.envelope(ct).encode())
            e[r.below(len(e))] ^= 1 + r.below(3)
            env = e.decode("latin-1")
        elif kind == 3:
            env = G.envelope(ct)[: r.below(12)]
        elif kind == 4:
            env = G.envelope(G.toy_encrypt(b"abc", key ^ 0xFF, pad + 1))      # wrong prefix for this cipher
        else:
            env = r.choice(["", "plain text", "ZXNj", "====", "ciphertext"])
        good = G.envelope(G.toy_encrypt(b"fine", key, pad))
        first, second = (env, good) if r.chance(1, 2) else (good, env)
        text = ("values:\n  a:\n    fn::secret:\n      ciphertext: %s\n  b: {fn::secret: {ciphertext: %s}}\n  c: 1\n"
                % (G.dq(first), G.dq(second)))
        add("dec", text, key, pad, "refusal")
    return cases


def sizes(limit):
    out = []
    k = 0
    while (1 << k) <= limit:
        for n in ((1 << k) - 1, 1 << k, (1 << k) + 1):
            if 0 <= n <= limit + 1 and n not in out:
                out.append(n)
        k += 1
    return sorted(out)


def sized_text(n, kind):
    """a text of exactly n characters: 'plain' = letters and single spaces (long lines), 'lines' = many short lines,
    'digits' = a number-like string (must stay a string)"""
    if kind == "digits":
        return ("1234567890" * (n // 10 + 1))[:n]
    if kind == "lines":
        return ("line of text\n" * (n // 13 + 1))[:n]
    return ("lorem ipsum dolor sit amet " * (n // 27 + 1))[:n].rstrip(" ").ljust(n, "x")


def size_documents(thorough):
    """plaintext side: (family, text, key, pad)"""
    lim_text = (1 << 17) if thorough else (1 << 14)
    for n in sizes(lim_text):
        for kind in ("plain", "lines", "digits"):
            if n == 0 and kind != "plain":
                continue
            if n > 4097 and kind != "plain" and not thorough:
                continue
            t = sized_text(n, kind)
            yield ("size-secret", "values:\n  s:\n    fn::secret: %s\n  t: after\n" % G.dq(t), 0x41, n % 3)
            yield ("size-scalar", "values:\n  big: %s # stays\n  s: {fn::secret: x}\n" % G.dq(t), 0x41, 1)
    lim_count = (1 << 14) if thorough else (1 << 10)
    for n in sizes(lim_count):
        body = "".join("  k%d: {fn::secret: p%d}\n" % (i, i) for i in range(n)) or "  none: 0\n"
        yield ("size-count", "values:\n" + body, 0x41, 1)
        if n:
            yield ("size-count", "values:\n  l:\n" + "".join("    - fn::secret: p%d\n" % i for i in range(n)), 0x41, 0)


def size_cipher_documents(thorough):
    """ciphertext side: (family, op, text, key, pad)"""
    lim_text = (1 << 17) if thorough else (1 << 14)
    key, pad = 0x41, 2
    for n in sizes(lim_text):
        for kind in ("plain", "lines", "digits"):
            if n == 0 and kind != "plain":
                continue
            if n > 4097 and kind != "plain" and not thorough:
                continue
            env = G.envelope(G.toy_encrypt(sized_text(n, kind).encode("utf-8"), key, pad))
            yield ("size-secret", "dec", "values:\n  s:\n    fn::secret:\n      ciphertext: %s\n  t: after\n" % env, key, pad)
    lim_count = (1 << 14) if thorough else (1 << 10)
    for n in sizes(lim_count):
        if n:
            body = "".join("  k%d: {fn::secret: {ciphertext: %s}}\n"
                           % (i, G.envelope(G.toy_encrypt(("p%d" % i).encode(), key, pad))) for i in range(n))
            yield ("size-count", "dec", "values:\n" + body, key, pad)


def prepare(c):
    return {"op": c["op"], "src": c["src"], "key": c["key"], "pad": c["pad"]}


def tree_sx(n):
    kind, tag, style, val, h, l, f, kids = n
    if kind == 8:
        return "(s x%s %d x%s x%s x%s x%s)" % (tag, style, val, h, l, f)
    if kind == 2:
        return "(q x%s %d x%s x%s x%s (%s))" % (tag, style, h, l, f, " ".join(tree_sx(k) for k in kids))
    if kind == 4 and len(kids) % 2 == 0:
        return "(m x%s %d x%s x%s x%s (%s))" % (tag, style, h, l, f, " ".join(tree_sx(k) for k in kids))
    return "(o %d)" % kind


def outcome_sx(o):
    res = o.get("res")
    if res == "panic" or "panic" in o:
        return "(err panic)"
    if "out_err" in o or (res == "ok" and "out" not in o):
        return "bad"
    if res == "ok":
        return "(ok %s %d %d)" % (tree_sx(o["out"]), o.get("new_secret_diags", 0), o.get("new_other_diags", 0))
    if res in ("diags", "cipher", "crypter"):
        return "(err %s)" % res
    return "bad"


CRASH_STATS = {"rewrite-crashed": 0, "loader-crashed": 0}


def crash_followup(c, o):
    """The rewrite killed the implementation process (fatal stack overflow) or hung.  Ask a fresh process for the node
    tree and the load diagnostics of the input alone (op "tree": yaml.v3 + eval.LoadYAMLBytes, no rewrite).  If that
    answers, the text is a document and the death belongs to EncryptSecrets / DecryptSecrets: outcome `crash`, a
    failure of the property on this input.  If reading the input dies as well, the loader is at fault (C07's subject):
    the case stays skipped and is counted."""
    t = C.run_impl(ID, [{"op": "tree", "src": c["src"], "key": c["key"], "pad": c["pad"], "id": 0}], batch=1, timeout=60)[0]
    if "crash" in t or "panic" in t:
        CRASH_STATS["loader-crashed"] += 1
        return None
    if "in" not in t:
        return None
    CRASH_STATS["rewrite-crashed"] += 1
    o["crash_followup"] = {"in_diags": t.get("in_diags", 0)}
    return "(c12 %s %d %d %d %s crash)" % ("t" if c["op"] == "enc" else "f", c["key"], c["pad"], t.get("in_diags", 0),
                                            tree_sx(t["in"]))


def line(c, o):
    if "crash" in o:
        return crash_followup(c, o)
    if "in" not in o:
        if "panic" in o:
            # a panic outside the rewrite itself (yaml.v3 or the loader on the input): treated like a dead process
            return crash_followup(c, o)
        return None          # the text is not one YAML document for yaml.v3: nothing to rewrite
    return "(c12 %s %d %d %d %s %s %s)" % ("t" if c["op"] == "enc" else "f", c["key"], c["pad"], o.get("in_diags", 0),
                                           tree_sx(o["in"]), outcome_sx(o), tree_sx(o["ctl"]) if "ctl" in o else "none")


def shrink(c):
    """Drop lines of the document (keeps it a candidate only; the driver re-runs both sides)."""
    text = bytes.fromhex(c["src"]).decode("utf-8")
    lines = text.split("\n")
    for i in range(len(lines)):
        cand = "\n".join(lines[:i] + lines[i + 1:])
        if cand.strip():
            yield dict(c, src=cand.encode("utf-8").hex())


def describe(c):
    return {"op": c["op"], "key": c["key"], "pad": c["pad"], "fam": c.get("fam"),
            "text": bytes.fromhex(c["src"]).decode("utf-8", "replace")[:400]}


CORE_TAGS = {b"!!null".hex(), b"!!bool".hex(), b"!!int".hex(), b"!!float".hex(), b"!!str".hex()}
FN_SECRET_HEX = b"fn::secret".hex()


def py_std_tree(n):
    """Model/YamlTree.v std_tree on the projected tree (only used to COUNT the escape hatches in the evidence)"""
    kind, tag, style, val, h, l, f, kids = n
    if kind == 8:
        return tag in CORE_TAGS
    if kind in (2, 4) and (kind == 2 or len(kids) % 2 == 0):
        return all(py_std_tree(k) for k in kids)
    return False


def py_unstable_trivia(n):
    """Corr/C12.v unstable_trivia (count only): any foot comment, any comment that ends in / contains an empty line"""
    kind, tag, style, val, h, l, f, kids = n
    if f or any(b.endswith(b"\n") or b"\n\n" in b for b in (bytes.fromhex(x) for x in (h, l, f))):
        return True
    return any(py_unstable_trivia(k) for k in kids)


def distribution(cases, r):
    d = {}
    esc = {"ESCAPE:skipped:not-one-yaml-document": 0, "ESCAPE:skipped:loader-dies-on-input": 0,
           "ESCAPE:outside:not-in-accepted-subset(correspondence+crash only)": 0,
           "ESCAPE:outside:foot-comments-yaml.v3-reattaches(weak projection)": 0,
           "ESCAPE:upper-bound:weak-class-and-yaml.v3-alone-moves-a-comment(trivia unjudged only if the control fails the weak projection)": 0,
           "ESCAPE:excused:known-C12-interp": len(r.get("spec_fail_known", [])),
           "JUDGED:fatal-crash-or-hang-as-failure": 0}
    lines = r.get("lines", {})
    for i, (c, o) in enumerate(zip(cases, r["obs"])):
        if "crash" in o:
            k = "CRASH"
            if i in lines:
                esc["JUDGED:fatal-crash-or-hang-as-failure"] += 1
            else:
                esc["ESCAPE:skipped:loader-dies-on-input"] += 1
        elif "in" not in o:
            k = "unreadable-input"
            esc["ESCAPE:skipped:not-one-yaml-document"] += 1
        elif "panic" in o or o.get("res") == "panic":
            k = "PANIC"
        else:
            k = o.get("res", "?")
        if "in" in o:
            if not py_std_tree(o["in"]):
                esc["ESCAPE:outside:not-in-accepted-subset(correspondence+crash only)"] += 1
            elif py_unstable_trivia(o["in"]):
                esc["ESCAPE:outside:foot-comments-yaml.v3-reattaches(weak projection)"] += 1
                if "ctl" in o and o["ctl"] != o["in"]:
                    esc["ESCAPE:upper-bound:weak-class-and-yaml.v3-alone-moves-a-comment(trivia unjudged only if the control fails the weak projection)"] += 1
        k = "%s:%s:%s" % (c.get("fam", ""), c["op"], k)
        d[k] = d.get(k, 0) + 1
    d.update(esc)
    return d


def search(rng, info):
    cases = []
    for t in G.SECRET_TEXTS:
        for st in ("plain", "double", "literal"):
            def plain(in_flow, t=t, st=st):
                return G.Map([{"key": G.Sc("fn::secret", "plain"), "val": G.Sc(t, st, line=None if in_flow else "lc")}], flow=in_flow)
            for pos in POSITIONS:
                cases.append({"op": "enc", "src": G.to_text(doc_with(plain, pos, rng)).encode().hex(), "key": 7, "pad": 1,
                              "fam": "search"})
    return cases
