"""C02 — references and built-ins denote the reference semantics."""
from .. import common as C
from .. import evalgen as G
from . import c02_parse_cases as P

ID = "C02"
impl_prop = "EV"
SRC_FACTS = list(P.SRC_FACTS)
COQ_SAMPLE = 40
RULE = ("random programs: optional literal base import, own literal keys over {a,b,c}, derived keys d0..dn built from "
        "references (names, quoted keys, indices, paths crossing into the inherited base, imports.*, context.*), "
        "interpolations with $$, fn::join/toJSON/fromJSON/toBase64/fromBase64/toString/secret nested to depth 3, ~10% "
        "invalid references; every program is rendered twice with shuffled key order.  Claims (path/same/tostr) are "
        "attached by construction and evaluated on the implementation's result.  non-trivial = evaluation without "
        "diagnostics carrying at least one claim.  Parser cases (props/c02_parse_cases.py): canonical ASTs (rich worlds, "
        "C02 programs, literals, every constructor over hostile strings) rendered to YAML and parsed back, and malformed "
        "shapes (every builtin and near-miss key x every argument shape, the top-level record, nested and random syntax "
        "trees): the implementation's decoded syntax tree goes through Model/Parse.v and is compared with its AST")
ASSUMPTIONS = ["strings in toString/toJSON/fromJSON contexts are 7-bit ASCII (strconv.Quote / encoding/json on non-ASCII "
               "text is outside the model and skipped)", "number literals in canonical decimal form"]
TRUSTED = ["claims are produced by the generator from the program's structure (trusted specification glue)"]

STRS = ["", "x", "hello", "a b", "z9", "q\"uote", "back\\slash", "do$lar", "a=b,c", "t<g>&"]


def merged_view(layers):
    """plain merge-patch fold (top first) used only to choose reference targets"""
    out = None
    for lit in reversed(layers):
        out = mp(out, lit)
    return out


def mp(base, patch):
    if isinstance(base, dict) and isinstance(patch, dict):
        r = dict(base)
        for k, v in patch.items():
            r[k] = mp(r.get(k), v) if k in r else v
        return r
    return patch


def lit_py(e):
    k = e[0]
    if k == "null":
        return None
    if k == "bool":
        return e[1]
    if k == "num":
        return ("num", e[1])
    if k == "str":
        return e[1]
    if k == "arr":
        return [lit_py(x) for x in e[1]]
    if k == "obj":
        return {kk: lit_py(v) for kk, v in e[1]}
    return ("opaque",)


def go_quote_ascii(t):
    """strconv.Quote on printable 7-bit text (None when the text needs anything else)"""
    out = '"'
    for ch in t:
        o = ord(ch)
        if ch in '"\\':
            out += "\\" + ch
        elif ch == "\n":
            out += "\\n"
        elif ch == "\t":
            out += "\\t"
        elif 32 <= o < 127:
            out += ch
        else:
            return None
    return out + '"'


def go_tostring(v):
    """value.toString of a python JSON view WITHOUT objects (objects with inherited members are the known finding
    C02-tostring): None when not computable here"""
    if v is None:
        return ""
    if v is True:
        return "true"
    if v is False:
        return "false"
    if isinstance(v, tuple) and v and v[0] == "num":
        return v[1]
    if isinstance(v, str):
        return v
    if isinstance(v, list):
        parts = []
        for x in v:
            t = go_tostring(x)
            q = None if t is None else go_quote_ascii(t)
            if q is None:
                return None
            parts.append(q)
        return ",".join(parts)
    return None


def go_json(v):
    """encoding/json text of a python JSON view (keys sorted, HTML escaping): None when not computable here"""
    import json as _json
    if v is None:
        return "null"
    if v is True:
        return "true"
    if v is False:
        return "false"
    if isinstance(v, tuple) and v and v[0] == "num":
        return v[1]
    if isinstance(v, str):
        if any(ord(ch) < 32 and ch not in "\n\t\r" or ord(ch) > 126 for ch in v):
            return None
        return _json.dumps(v).replace("<", "\\u003c").replace(">", "\\u003e").replace("&", "\\u0026")
    if isinstance(v, list):
        parts = [go_json(x) for x in v]
        return None if any(x is None for x in parts) else "[" + ",".join(parts) + "]"
    if isinstance(v, dict):
        parts = []
        for k in sorted(v, key=lambda k: k.encode("utf-8")):
            kj, vj = go_json(k), go_json(v[k])
            if kj is None or vj is None:
                return None
            parts.append(kj + ":" + vj)
        return "{" + ",".join(parts) + "}"
    return None


def paths_of(v, prefix=()):
    """all (path, value) pairs of a python JSON view"""
    yield prefix, v
    if isinstance(v, dict):
        for k, x in v.items():
            yield from paths_of(x, prefix + (("k", k),))
    elif isinstance(v, list):
        for i, x in enumerate(v):
            yield from paths_of(x, prefix + (("i", i),))


def mk_path_plain(p):
    return tuple(v for _, v in p)


def path_plain(accs):
    return tuple(v for _, v in accs)


def mk_path(rng, p):
    out = []
    for kind, v in p:
        if kind == "i":
            out.append(("idx", v))
        elif all(ch in G.SIMPLE for ch in v) and v and not rng.chance(1, 4):
            out.append(("name", v))
        else:
            out.append(("key", v))
    # the first accessor of a reference must be a name or key
    return out


FROMJSON_TEXTS = [
    (' {"a" : [1, 2.50 ,1e3] , "b":{ } }\n', ("obj", [("a", ("arr", [("num", "1"), ("num", "2.50"), ("num", "1e3")])), ("b", ("obj", []))])),
    ('"x\\u0041\\n\\t\\"\\\\\\/"', ("str", 'xA\n\t"\\/')),
    ('12345678901234567890123', ("num", "12345678901234567890123")),
    ('-0', ("num", "-0")), ('1E-7', ("num", "1E-7")), ('[]', ("arr", [])), ('{}', ("obj", [])), ('null', ("null",)),
    ('{"k":1,"k":2}', ("obj", [("k", ("num", "2"))])),
    ('[true,false,null,"",0]', ("arr", [("bool", True), ("bool", False), ("null",), ("str", ""), ("num", "0")])),
    ('{"a":{"b":{"c":[{"d":null}]}}}', ("obj", [("a", ("obj", [("b", ("obj", [("c", ("arr", [("obj", [("d", ("null",))])]))]))]))])),
    ('  42  ', ("num", "42")), ('01', None), ('{"a":}', None), ('[1,]', None), ("'x'", None), ('{"a":1} trailing', None), ('', None)]


def gen_program(rng, thorough):
    keys = ["a", "b", "c", "k.dot", "k q"]
    nkeys = 3 + rng.below(3)
    ks = rng.shuffle(keys)[:nkeys]
    has_base = rng.chance(2, 3)
    base_vals = [(k, G.gen_literal(rng, 2, ["a", "b", "c"], STRS)) for k in rng.shuffle(ks)[: rng.below(len(ks) + 1)]] if has_base else []
    own_vals = [(k, G.gen_literal(rng, 2, ["a", "b", "c"], STRS)) for k in rng.shuffle(ks)[: 1 + rng.below(len(ks))]]
    base_merge = rng.chance(4, 5)      # merge: false keeps the base out of the fold (it stays readable under imports.base)
    layers = [{k: lit_py(v) for k, v in own_vals}] + ([{k: lit_py(v) for k, v in base_vals}] if has_base and base_merge else [])
    view = merged_view(layers)
    targets = [(p, v) for p, v in paths_of(view) if p]
    str_targets = [(p, v) for p, v in targets if isinstance(v, str)]
    # what an interpolation may reference: strings, and non-string scalars / arrays with their Go string form
    interp_targets = [(p, go_tostring(v)) for p, v in targets if not isinstance(v, dict) and go_tostring(v) is not None]
    claims = []
    derived = []

    def ref(pool, bad_ok=True):
        if bad_ok and rng.chance(1, 10) or not pool:
            return [("name", rng.choice(["nope", "a", "zz"])), ("name", "missing")], None
        p, v = rng.choice(pool)
        return mk_path(rng, p), (p, v)

    def string_expr(depth):
        """returns (expr, expected python str or None when not computable here)"""
        import base64 as _b64
        k = rng.below(8)
        if k == 0 or depth <= 0:
            t = rng.choice(STRS)
            return ("str", t), t
        if k == 1 and str_targets:
            p, tgt = ref(str_targets, bad_ok=False)
            return ("sym", p), tgt[1]
        if k == 2:
            parts, exp = [], ""
            for _ in range(1 + rng.below(3)):
                if rng.chance(1, 2) and interp_targets:
                    p, tgt = ref(interp_targets, bad_ok=False)
                    t = rng.choice(["", "-", "pre ", "$", "$$"])
                    parts.append((t, p))
                    exp += t + tgt[1]
                else:
                    t = rng.choice(["lit", " ", "$"])
                    parts.append((t, None))
                    exp += t
            e = G.norm_interp(parts)
            if e[0] == "sym" and not any(pp == tuple(pth) or True for pp, _ in str_targets if False):
                # "${x}" alone is a reference, not a string: its value is x itself (claimed as a string only for string targets)
                tv = [v for pth2, v in targets if mk_path_plain(pth2) == path_plain(e[1])]
                if not tv or not isinstance(tv[0], str):
                    exp = None
            return e, exp
        if k == 3:
            d = rng.choice([",", "", "::"])
            subs = [string_expr(depth - 1) for _ in range(rng.below(4))]
            exp = None if any(x[1] is None for x in subs) else d.join(x[1] for x in subs)
            return ("join", ("str", d), ("arr", [x[0] for x in subs])), exp
        if k == 4:
            e, x = string_expr(depth - 1)
            return ("tob64", e), (None if x is None else _b64.b64encode(x.encode()).decode())
        if k == 5:
            e, x = string_expr(depth - 1)
            return ("fromb64", ("tob64", e)), x
        if k == 6:
            t = rng.choice(STRS)
            return ("secret", t), t
        e, x = string_expr(depth - 1)
        return ("tostring", e), x

    n = 3 + rng.below(6 if thorough else 4)
    for i in range(n):
        dk = "d%d" % i
        k = rng.below(12)
        if k <= 2:
            p, tgt = ref(targets)
            derived.append((dk, ("sym", p)))
            if tgt is not None:
                claims.append("(path %s %s)" % (G.sx(dk), G.w_path(p)))
        elif k == 3 and targets:
            p, tgt = ref(targets, bad_ok=False)
            derived.append((dk, ("fromjson", ("tojson", ("sym", p)))))
            claims.append("(path %s %s)" % (G.sx(dk), G.w_path(p)))
        elif k == 4 and targets:
            p, tgt = ref(targets, bad_ok=False)
            derived.append((dk, ("tojson", ("sym", p))))
            if go_json(tgt[1]) is not None:
                claims.append("(const %s %s)" % (G.sx(dk), G.sx(go_json(tgt[1]))))
        elif k == 5 and targets:
            # toString of a top-level key (claim: string form of the final value)
            tops = [(p, v) for p, v in targets if len(p) == 1]
            p, v = rng.choice(tops)
            derived.append((dk, ("tostring", ("sym", mk_path(rng, p)))))
            claims.append("(tostr %s %s)" % (G.sx(dk), G.sx(p[0][1])))
        elif k == 6:
            e, x = string_expr(2)
            derived.append((dk, e))
            derived.append((dk + "r", ("fromb64", ("tob64", ("sym", [("name", dk)])))))
            claims.append("(same %s %s)" % (G.sx(dk + "r"), G.sx(dk)))
            if x is not None:
                claims.append("(const %s %s)" % (G.sx(dk), G.sx(x)))
        elif k == 7 and derived:
            # reference to another derived key (possibly later: order independence; possibly cyclic)
            other = rng.choice(derived)[0]
            derived.append((dk, ("sym", [("name", other)])))
            claims.append("(same %s %s)" % (G.sx(dk), G.sx(other)))
        elif k == 8:
            derived.append((dk, ("obj", [("in", string_expr(2)[0]), ("lit", G.gen_literal(rng, 1, ["a", "b"], STRS))])))
        elif k == 9:
            derived.append((dk, ("arr", [string_expr(2)[0] for _ in range(rng.below(3))])))
        elif k == 10:
            root = rng.choice([[("name", "context"), ("name", "rootEnvironment"), ("name", "name")],
                               [("name", "context"), ("name", "currentEnvironment"), ("name", "name")],
                               [("name", "imports"), ("name", "base")] if has_base else [("name", "context"), ("name", "nope")]])
            derived.append((dk, ("sym", root)))
            if root[0][1] == "context" and root[1][1] in ("rootEnvironment", "currentEnvironment"):
                claims.append("(const %s %s)" % (G.sx(dk), G.sx("root")))
        elif k == 11 and rng.chance(1, 2):
            # fn::fromJSON of hand-written JSON text: whitespace, escapes, exponents, big integers, duplicate keys
            txt, lit = rng.choice(FROMJSON_TEXTS)
            derived.append((dk, ("fromjson", ("str", txt))))
            if lit is not None:
                claims.append("(lit %s %s)" % (G.sx(dk), G.w_expr(lit)))
        else:
            e, x = string_expr(3)
            derived.append((dk, e))
            if x is not None:
                claims.append("(const %s %s)" % (G.sx(dk), G.sx(x)))
    values = own_vals + derived
    envs = {"base": {"imports": [], "values": base_vals}} if has_base else {}
    imports = [("base", base_merge)] if has_base else []
    if has_base and rng.chance(1, 2):
        # a second import (listed before or after the first): ${imports.X} denotes X's OWN value, whatever else is merged
        # keys disjoint from every other key of the program, so that the claims computed above stay valid
        b2 = [(k, G.gen_literal(rng, 2, ["a", "b", "c"], STRS)) for k in rng.shuffle(["z2a", "z2b", "z2c"])[: 1 + rng.below(3)]]
        envs["base2"] = {"imports": [], "values": b2}
        imports = rng.shuffle(imports + [("base2", rng.chance(4, 5))])
        for nm, vals in (("base", base_vals), ("base2", b2)):
            dk = "imp_" + nm
            values.append((dk, ("sym", [("name", "imports"), ("name", nm)])))
            claims.append("(lit %s %s)" % (G.sx(dk), G.w_expr(("obj", vals))))
            sub = [kv for kv in vals if kv[1][0] == "obj"]
            if sub:
                k2, v2 = rng.choice(sub)
                values.append((dk + "_s", ("tojson", ("sym", [("name", "imports"), ("name", nm), ("key", k2)]))))
    envs["root"] = {"imports": imports, "values": values}
    c = G.case_from_graph(envs, "root")
    c["claims"] = claims
    # second rendering: shuffled key order at the top level and inside object literals
    c["def2"] = {"imports": c["def"]["imports"], "values": shuffle_keys(rng, values)}
    return c


def shuffle_keys(rng, values):
    def sh(e):
        if e[0] == "obj":
            return ("obj", rng.shuffle([(k, sh(v)) for k, v in e[1]]))
        if e[0] == "arr":
            return ("arr", [sh(x) for x in e[1]])
        return e
    return rng.shuffle([(k, sh(v)) for k, v in values])


IALPHA = ["$", "{", "}", ".", "[", "]", '"', "\\", " ", "\t", "\n", "a", "b", "x", "_", "-", "+", "0", "1", "9",
          "\x85", "\xa0", "\xc3", "${", "$$", "${a", '["', '"]', "[0]", "${a.b}", ".c", '["k.\\"q"]', "\\\"", "[]", '[""]', "[-]", "[+5]",
          "[007]", "[1_0]", "[0x1]", "[9223372036854775807]", "[9223372036854775808]", "[-9223372036854775808]", "${}", "${ a}"]


def gen_interp(rng):
    """arbitrary text for the interpolation parser"""
    t = "".join(rng.choice(IALPHA) for _ in range(1 + rng.below(10)))
    return {"kind": "interp", "text": t.encode("latin-1").hex(), "want": None}


def gen_interp_rt(rng):
    """printable parts rendered with $$ / ${path}: the parser must give back exactly these parts"""
    def name():
        return "".join(rng.choice(["a", "b", "Z", "0", "_", "-", "é", "$", "]", '"', "\\"]) for _ in range(1 + rng.below(4)))

    def key():
        k = "".join(rng.choice(["a", ".", " ", '"', "\\", "[", "]", "}", "é", "$", "${", "\n"]) for _ in range(1 + rng.below(5)))
        return k if not k.endswith("\\") else k + "x"

    def path():
        p = [("name", name()) if rng.chance(1, 2) else ("key", key())]
        for _ in range(rng.below(4)):
            j = rng.below(3)
            p.append(("name", name()) if j == 0 else ("key", key()) if j == 1 else
                     ("idx", rng.choice([0, 1, 7, 42, 9223372036854775807, -3])))
        return p

    parts = []
    for _ in range(1 + rng.below(4)):
        text = "".join(rng.choice(["", "a", " ", "$", "$$", "{", "}", "x.y", "é", "${"[:1]]) for _ in range(rng.below(4)))
        parts.append((text, path() if rng.chance(3, 4) else None))
    # normal form: a part without a reference only last, and then non-empty
    norm, acc = [], ""
    for t, p in parts:
        if p is None:
            acc += t
        else:
            norm.append((acc + t, p))
            acc = ""
    if acc:
        norm.append((acc, None))
    # an index may be SPELLED with leading zeros ([010] is the element 10, not 8: seeded change C02-m read it as octal)
    spelled = []

    def spell(p):
        txt = G.render_path(p)
        if rng.chance(1, 4):
            spelled.append(1)
            for k, v in p:
                if k == "idx" and v >= 0 and ("[%d]" % v) in txt:
                    txt = txt.replace("[%d]" % v, "[%s%d]" % ("0" * (1 + rng.below(2)), v), 1)
        return txt
    rendered = "".join(t.replace("$", "$$") + (spell(p) if p is not None else "") for t, p in norm)
    # (the round-trip claim is made for canonical renderings only - Corr/C02.v checks that the text IS the rendering of the
    #  claimed parts; a spelled text is compared with the model's parse, which reads [010] as 10)
    return {"kind": "interp", "text": rendered.encode("utf-8").hex(), "want": None if spelled and rendered != "".join(
        t.replace("$", "$$") + (G.render_path(p) if p is not None else "") for t, p in norm) else norm}


def context_chain_cases():
    """context.* references written at import depth 0, 1, 2 and 3 (alone, inside a string, as a built-in's argument): the root's
    name is the same at every depth, the current environment's name is the environment the reference is written in"""
    ctxr = [("name", "context"), ("name", "rootEnvironment"), ("name", "name")]
    ctxc = [("name", "context"), ("name", "currentEnvironment"), ("name", "name")]
    out = []
    for depth in (1, 2, 3):
        names = ["lvl%d" % i for i in range(depth)]            # deepest first
        envs, claims = {}, []
        for i, n in enumerate(names):
            vals = [("r_" + n, ("sym", ctxr)), ("c_" + n, ("sym", ctxc)),
                    ("s_" + n, G.norm_interp([("in ", ctxr), ("/", ctxc), ("", None)])),
                    ("j_" + n, ("join", ("str", "+"), ("arr", [("sym", ctxr), ("sym", ctxc)])))]
            envs[n] = {"imports": [(names[i - 1], True)] if i else [], "values": vals}
            claims += ["(const %s %s)" % (G.sx("r_" + n), G.sx("root")), "(const %s %s)" % (G.sx("c_" + n), G.sx(n)),
                       "(const %s %s)" % (G.sx("s_" + n), G.sx("in root/" + n)), "(const %s %s)" % (G.sx("j_" + n), G.sx("root+" + n))]
        rvals = [("r_root", ("sym", ctxr)), ("c_root", ("sym", ctxc))]
        claims += ["(const %s %s)" % (G.sx("r_root"), G.sx("root")), "(const %s %s)" % (G.sx("c_root"), G.sx("root"))]
        envs["root"] = {"imports": [(names[-1], True)], "values": rvals}
        c = G.case_from_graph(envs, "root")
        c["claims"] = claims
        c["def2"] = {"imports": c["def"]["imports"], "values": list(reversed(rvals))}
        out.append(c)
    return out


def provider_layer_cases(rng, thorough):
    """a provider's output as one layer of a three-layer merge (evalgen.provider_layer_worlds): every plain reference of
    the root is claimed to denote the value at its path in the final merged value"""
    out = []
    pyv = {"O1": {"foo": {"j": 2}, "host": "db.internal", "options": {"sslmode": "require"}},
           "O2": {"foo": {"k": 1}, "options": {"timeout": 3}}, "O3": {"deep": "only-here", "foo": {"z": True}},
           "S": "str", "N": None, "A": ["el"], "PO": {"options": {"timeout": 5}, "password": "pw"}, "PS": "text",
           "PA": ["p", "q"], "PE": {"region": "x"}, "PF": {"foo": {"k": 7}}, "-": None}

    def has(v, path):
        for kind, name in path:
            if not isinstance(v, dict) or name not in v:
                return False
            v = v[name]
        return True
    for i, w in enumerate(G.provider_layer_worlds(thorough)):
        ks = w["matrix"].split(":", 1)[1].split("/")[:3]
        view = {"x": merged_view([pyv[k] for k in reversed(ks) if k != "-"])}
        # a reference to a path that does not exist is an error, and claims are only judged on runs without diagnostics:
        # keep the reads whose path the plain fold has (a wrong guess only costs the claims of that case)
        def path_of(e):
            if e[0] == "sym":
                return e[1]
            if e[0] == "tojson":
                return path_of(e[1])
            if e[0] == "interp":
                return [p for _, p in e[1] if p][0] if any(p for _, p in e[1]) else None
            return None
        vals = []
        for k, e in w["def"]["values"]:
            if k == "x" or not (k.startswith("r_") or k.startswith("t_")):
                vals.append((k, e))
                continue
            pth = path_of(e)
            if pth is not None and has(view, pth):
                vals.append((k, e))
        c = dict(w, show=True)
        c["def"] = {"imports": w["def"]["imports"], "values": vals}
        claims = []
        for k, e in vals:
            if e[0] == "sym" and k.startswith("r_"):
                claims.append("(path %s %s)" % (G.sx(k), G.w_path(e[1])))
        c["claims"] = claims
        c["def2"] = {"imports": w["def"]["imports"], "values": shuffle_keys(rng.fork("pl%d" % i), vals)}
        out.append(c)
    return out


def gen(rng, tier):
    n = 6000 if tier == "thorough" else 500
    cases = context_chain_cases() + [gen_program(rng, tier == "thorough") for _ in range(n)]
    cases += provider_layer_cases(rng.fork("layers"), tier == "thorough")
    r = rng.fork("interp")
    for _ in range(20000 if tier == "thorough" else 1500):
        cases.append(gen_interp(r) if r.chance(1, 2) else gen_interp_rt(r))
    # the parser: YAML text -> syntax tree -> AST (Model/Parse.v vs ast.ParseEnvironment / eval.LoadYAMLBytes)
    cases += P.gen_parse_cases(rng.fork("parse"), tier)
    return cases


def w_parts(parts):
    out = []
    for t, p in parts:
        tb = t if isinstance(t, bytes) else t.encode("utf-8")
        if p is None:
            out.append("(x%s none)" % tb.hex())
        else:
            accs = []
            for k, v in p:
                if k == "idx":
                    accs.append("(idx %d)" % v)
                else:
                    vb = v if isinstance(v, bytes) else v.encode("utf-8")
                    accs.append("(%s x%s)" % (k, vb.hex()))
            out.append("(x%s (%s))" % (tb.hex(), " ".join(accs)))
    return "(" + " ".join(out) + ")"


def prepare(c):
    if c.get("kind") == P.KIND:
        return P.prepare(c)
    if c.get("kind") == "interp":
        return {"_h": "INTERP", "text": c["text"]}
    r = G.request(c)
    r["text2"] = G.render_env(c["def2"])
    return r


def line(c, o):
    if c.get("kind") == P.KIND:
        return P.line(c, o)
    if c.get("kind") == "interp":
        if "panic" in o or "crash" in o or "parts" not in o:
            return "(interp x%s () 99 () none)" % c["text"]
        parts, strs = [], []
        for p in o["parts"]:
            if "path" in p:
                parts.append((bytes.fromhex(p["text"]), [(k, (v if k == "idx" else bytes.fromhex(v))) for k, v in p["path"]]))
                strs.append("x" + p["string"])
            else:
                parts.append((bytes.fromhex(p["text"]), None))
        want = "none" if c["want"] is None else w_parts(c["want"])
        return "(interp x%s %s %d (%s) %s)" % (c["text"], w_parts(parts), o["ndiags"], " ".join(strs), want)
    o2 = o.get("obs2") or {"crash": "missing"}
    return "(c02 %s %s (%s))" % (G.w_case(c, o), G.w_obs(o2), " ".join(c["claims"]))


def describe(c):
    if c.get("kind") == P.KIND:
        return P.describe(c)
    if c.get("kind") == "interp":
        return {"interpolation": bytes.fromhex(c["text"]).decode("latin-1"), "roundtrip_of": c["want"]}
    return {"yaml": G.render_env(c["def"]), "base": {n: G.render_env(e["def"]) for n, e in c["envs"].items()},
            "claims": c["claims"]}


def shrink(c):
    if c.get("kind") == P.KIND:
        yield from P.shrink(c)
        return
    if c.get("kind") == "interp":
        b = bytes.fromhex(c["text"])
        if c["want"] is None:
            for i in range(len(b)):
                yield dict(c, text=(b[:i] + b[i + 1:]).hex())
        return
    d = c["def"]
    for i in range(len(d["values"])):
        vals = d["values"][:i] + d["values"][i + 1:]
        gone = G.sx(d["values"][i][0])
        # claims that mention the removed key would fail trivially: drop them with it
        claims = [cl for cl in c["claims"] if (gone + " ") not in cl and (gone + ")") not in cl]
        if not claims:
            continue
        yield dict(c, claims=claims, **{"def": {"imports": d["imports"], "values": vals},
                                        "def2": {"imports": d["imports"], "values": list(reversed(vals))}})


def distribution(cases, r):
    d = {"with_errors": 0, "without_errors": 0, "claims": 0, "loaderr": 0, "crash_or_panic": 0}
    d["interp_cases"] = sum(1 for c in cases if c.get("kind") == "interp")
    d["interp_roundtrip_cases"] = sum(1 for c in cases if c.get("kind") == "interp" and c["want"] is not None)
    d["parser"] = P.distribution(cases, r["obs"])
    for c, o in zip(cases, r["obs"]):
        if c.get("kind") in ("interp", P.KIND):
            continue
        if o.get("loaderr"):
            d["loaderr"] += 1
        elif "crash" in o or "panic" in o:
            d["crash_or_panic"] += 1
        elif o.get("errors"):
            d["with_errors"] += 1
        else:
            d["without_errors"] += 1
            d["claims"] += len(c["claims"])
    return d
