"""C07 — evaluation is total: diagnostics, never a crash or a hang."""
from .. import common as C
from .. import evalgen as G

ID = "C07"
impl_prop = "EV"
SRC_FACTS = []
COQ_SAMPLE = 40
IMPL_TIMEOUT = 240
RULE = ("(1) fault enumeration: generated worlds (imports, references, built-ins, secrets, fn::open) re-run with the k-th "
        "collaborator call (LoadEnvironment / LoadProvider / Open / Decrypt, in call order) failing, for every k up to the "
        "number of calls the world can make (a static bound: every position is faulted; one failing call per plan), in open and check mode, compared with the model incl. the NUMBER of error diagnostics; (2) cyclic imports, "
        "self-imports, reference cycles, imports that fail to load or to parse, dangling references, wrong argument types; "
        "(3) implementation-only stream: shape errors for every built-in and top-level section, and byte-level mutations of "
        "valid documents, offered to LoadYAMLBytes, Check/EvalEnvironment, EncryptSecrets and DecryptSecrets.  "
        "non-trivial = a fault was injected within the run's calls, or the run reports an error, or a raw document; "
        "(4) family `tower`: LONG chains - t0 = {}, t(i+1) imports [ti, ti], levels 3, 8, 12 (8193 layers), 13 (16385), a key "
        "below / in the middle of / missing from the chain, read by a top-level and by a nested reference - compared with the model")
ASSUMPTIONS = ["Go panics, stack exhaustion and hangs are runtime behaviour a Gallina model cannot exhibit: the theorems speak "
               "about the model's fuel and error recovery; crashes are found by this fault/shape/byte enumeration",
               "byte-level mutation is seeded random mutation, not coverage-guided fuzzing"]
TRUSTED = []

SHAPES = [
    # keys spelled like internal Go fields of the declaration types (any letter case), at the top level and in import options
    "syntax: 1\nvalues: {a: 1}\n", "Source: abc\nvalues: {a: 1}\n", "declNode: {x: 1}\n", "Syntax: [1]\nSOURCE: ~\n",
    "imports: [{a: {syntax: 1}}]\n", "imports: [{a: {declNode: 1, merge: false}}]\n", "imports: [{a: {Source: x, Merge: true}}]\n",
    "values: {syntax: 1, source: 2, declNode: 3}\nname: x\nenvironment: y\nMeta: 1\nvalue: 2\nEntries: []\nkey: k\n",
    "values:\n  s: {fn::secret: \"\"}\n  t: {fn::secret: {ciphertext: \"\"}}\n  u: {fn::secret: \"\"}\n",
    "values:\n  a: [[[[[[[[[[[[[[[[[[[[[[[[[[[[[[[[[[[[[[[[[[[[[[[[[[[[[[[[[[[[[[[[1]]]]]]]]]]]]]]]]]]]]]]]]]]]]]]]]]]]]]]]]]]]]]]]]]]]]]]]]]]]]]]]]]\n",
    "values:\n  a: &x [1, 2]\n  b: [*x, *x, *x, *x, *x, *x, *x, *x]\n  c: &y [*x, *x]\n  d: [*y, *y, *y, *y]\n",
    "values:\n  a: {fn::join: 5}\n", "values:\n  a: {fn::join: [1]}\n", "values:\n  a: {fn::join: [a, b, c]}\n",
    "values:\n  a: {fn::join: [[x], y]}\n", "values:\n  a: {fn::join: [',', [1, {x: 2}]]}\n",
    "values:\n  a: {fn::open: hello}\n", "values:\n  a: {fn::open: {provider: 5, inputs: {}}}\n",
    "values:\n  a: {fn::open: {provider: p}}\n", "values:\n  a: {fn::open: {inputs: {}}}\n",
    "values:\n  a: {fn::open::p: hello}\n", "values:\n  a: {fn::open::p: [1, 2]}\n", "values:\n  a: {fn::open::missing: {}}\n",
    "values:\n  a: {fn::open::p: }\n", "values:\n  a: {fn::open::: {}}\n",
    "values:\n  a: {fn::secret: {ciphertext: 5}}\n", "values:\n  a: {fn::secret: [1]}\n", "values:\n  a: {fn::secret: {x: y}}\n",
    "values:\n  a: {fn::secret: {\"${x}\": y}}\n", "values:\n  a: {fn::secret: }\n", "values:\n  a: {fn::secret: \"${b}\"}\n  b: 1\n",
    "values:\n  a: {fn::secret: {ciphertext: !!binary aGVsbG8=}}\n",
    "values:\n  a: {fn::toJSON: }\n", "values:\n  a: {fn::fromJSON: {x: 1}}\n", "values:\n  a: {fn::fromJSON: '{'}\n",
    "values:\n  a: {fn::fromBase64: '!!'}\n", "values:\n  a: {fn::toBase64: [1]}\n", "values:\n  a: {fn::toString: }\n",
    "values:\n  a: {fn::unknown: 1}\n", "values:\n  a: {FN::JOIN: 1}\n", "values:\n  a: {fn::join: [a, [b]], extra: 1}\n",
    "values: 5\n", "values: [1, 2]\n", "values: null\n", "values:\n  imports: 1\n  context: 2\n", "imports: 5\n", "imports: [5]\n",
    "imports: [{a: {merge: 5}}]\n", "imports: [{a: 5}]\n", "imports: [[a]]\n", "imports: [a, a, root]\nvalues: {}\n",
    "imports: [{a: {merge: false}, b: {merge: true}}]\n", "imports: [bad]\n", "imports: [bad2]\n", "imports: [selfish]\n",
    "unknown: 1\nvalues: {a: 1}\n", "values: {1: a, true: b, null: c}\n", "values:\n  ? [a, b]\n  : c\n",
    "values:\n  a: &x {b: 1}\n  c: *x\n", "values:\n  a: &x [*x]\n", "values:\n  <<: {a: 1}\n  b: 2\n",
    "values:\n  a: ${\n", "values:\n  a: ${a.\n", "values:\n  a: ${a[\n", "values:\n  a: ${a[\"x\n", "values:\n  a: ${[0]}\n",
    "values:\n  a: ${}\n", "values:\n  a: ${a}\n", "values:\n  a: ${b}\n  b: ${a}\n", "values:\n  a: ${a.b.c}\n",
    "values:\n  a: [1, 2]\n  b: ${a[5]}\n  c: ${a[-1]}\n  d: ${a.x}\n  e: ${a[\"k\"]}\n",
    "values:\n  a: {x: 1}\n  b: ${a[0]}\n  c: ${a.y.z}\n  d: ${imports.nope.x}\n  e: ${context.nope[3]}\n",
    "values:\n  a: .inf\n  b: .nan\n  c: 0x1F\n  d: 1e999\n  e: 12345678901234567890123\n",
    "values:\n  a: !!binary aGVsbG8=\n  b: !!timestamp 2001-12-14\n  c: !custom x\n", "", "\n", "---\n", "--- \n...\n---\nvalues: {}\n",
    "values: {a: 1", "values:\n\ta: 1\n", "\xff\xfe", "values:\n  a: \"\\xZZ\"\n", "values: {a: {b: {c: {d: {e: {f: {g: {h: {i: {j: 1}}}}}}}}}}\n",
]

IMPORTS = {"a": "values:\n  x: {y: 1}\n", "b": "imports: [a]\nvalues:\n  x: 5\n", "bad": "values: [1, 2\n", "bad2": "values: 5\n",
           "selfish": "imports: [selfish, root]\nvalues: {z: ${z}}\n"}


def repr_yaml(t):
    """a YAML single-quoted scalar"""
    return "'" + t.replace("'", "''") + "'"


def mutate(rng, b):
    b = bytearray(b)
    for _ in range(1 + rng.below(4)):
        k = rng.below(5)
        pos = rng.below(len(b) + 1)
        if k == 0 and b:
            b[pos % len(b)] = rng.below(256)
        elif k == 1:
            b[pos:pos] = rng.bytes(1 + rng.below(3))
        elif k == 2 and b:
            del b[pos % len(b): pos % len(b) + 1 + rng.below(4)]
        elif k == 3:
            b[pos:pos] = rng.choice([b"{", b"}", b"[", b"]", b":", b"- ", b"\n", b"  ", b"${", b"fn::", b"\"", b"'", b"&a ", b"*a", b"!!", b"|", b">", b"#", b"\t"])
        elif b:
            i = pos % len(b)
            j = rng.below(len(b))
            b[i], b[j] = b[j], b[i]
    return bytes(b)


def _count(e, kinds):
    if not isinstance(e, tuple):
        return 0
    n = 1 if e[0] in kinds else 0
    for x in e[1:]:
        if isinstance(x, tuple):
            n += _count(x, kinds)
        elif isinstance(x, list):
            for y in x:
                if isinstance(y, tuple) and len(y) == 2 and isinstance(y[0], str) and isinstance(y[1], tuple):
                    n += _count(y[1], kinds)          # (key, expr) entry of an object
                elif isinstance(y, tuple):
                    n += _count(y, kinds)
    return n


def call_bound(c):
    defs = [c["def"]] + [e["def"] for e in c["envs"].values() if e.get("kind") == "def"]
    n = 0
    for d in defs:
        n += len(d["imports"])
        for _, e in d["values"]:
            n += 2 * _count(e, ("open",)) + _count(e, ("cipher",))
    # an environment reached through several paths is evaluated once; listed-but-failing ones are loaded per listing
    return n + 2


def tower_family():
    """LONG CHAINS (not deep values): t0 = {}, t(i+1) imports [ti, ti] (the second listing is a memo hit, the value is merged
    twice: 2^i layers); z = {k: 1}; the root imports [z, t_n] and reads ${k}, which sits BELOW all 2^n + 1 layers.  Levels 3, 8,
    12 (8193 layers: more than the constant 4096 the model's value_access once had as fuel) and 13; also the key in the
    middle of the chain and a dangling key (the access must fail with ONE diagnostic after walking the whole chain)."""
    cases = []
    for n in (3, 8, 12, 13):
        for shape in ("below", "middle", "missing"):
            envs = {"t0": {"imports": [], "values": []}, "z": {"imports": [], "values": [("k", ("num", "1"))]}}
            for i in range(n):
                imps = [("t%d" % i, True), ("t%d" % i, True)]
                if shape == "middle" and i == n - 1:
                    imps = [("t%d" % i, True), ("z", True), ("t%d" % i, True)]
                envs["t%d" % (i + 1)] = {"imports": imps, "values": []}
            rimps = [("z", True), ("t%d" % n, True)] if shape == "below" else [("t%d" % n, True)]
            if shape == "missing":
                del envs["z"]
            envs["root"] = {"imports": rimps, "values": [("a", ("sym", [("name", "k")])), ("b", ("obj", [("c", ("sym", [("name", "k")]))]))]}
            c = G.case_from_graph(envs, "root")
            c["provs"] = {}
            c["sites"] = []
            cases.append(dict(c, kind="ev", check=False, show=True, family="tower", tower_level=n))
    return cases


def gen(rng, tier):
    thorough = tier == "thorough"
    cases = tower_family()
    # (1)+(2): structured worlds with fault positions, compared with the model
    nworlds = 700 if thorough else 70
    for i in range(nworlds):
        r = rng.fork("w%d" % i)
        g = G.RichGen(r, bad_refs=r.chance(1, 2), faulty=r.chance(1, 2))
        c = g.world(depth=2)
        # hostile collaborators: imports that fail to load / to parse, cyclic and self imports
        k = r.below(6)
        if k == 0:
            c["envs"]["gone"] = {"kind": "fail"}
            c["def"]["imports"].append(("gone", True))
        elif k == 1:
            c["envs"]["broken"] = {"kind": "noparse", "text": r.choice(["values: [1, 2\n", "values: 5\n", "imports: 5\n"])}
            c["def"]["imports"].insert(0, ("broken", True))
        elif k == 2:
            c["def"]["imports"].append(("root", True))
        elif k == 3 and c["envs"]:
            n = r.choice(sorted(c["envs"]))
            c["envs"][n]["def"]["imports"].append((r.choice(["root", n]), True))
        elif k == 4:
            c["def"]["values"].append(("cyc1", ("sym", [("name", "cyc2")])))
            c["def"]["values"].append(("cyc2", ("obj", [("x", ("sym", [("name", "cyc1")]))])))
            c["def"]["values"].append(("selfref", ("sym", [("name", "selfref")])))
        c["check"] = r.chance(1, 3)
        c["show"] = r.chance(1, 2)
        cases.append(dict(c, kind="ev"))
        # one case per collaborator call position: an upper bound of the number of calls is read off the world (loads of
        # every listed import, LoadProvider + Open per fn::open site, one Decrypt per ciphertext; a failing call can only
        # shorten the run), so EVERY position is faulted; beyond the last call the plan is a no-op (non-trivial = false)
        ncalls = call_bound(c)
        for f in range(min(ncalls + 1, 40 if thorough else 20)):
            cases.append(dict(c, kind="ev", fault=f))
    # directed: multi-argument built-ins over every pairing of plain / secret / unknown arguments
    for c in G.provider_layer_worlds(thorough):
        for mode in (False, True):
            cases.append(dict(c, kind="ev", check=mode, show=True))
    # accessors that walk INTO a secret - plaintext form, ciphertext form (decryptable, undecryptable, not an envelope) -
    # alone, inside an interpolation and as a built-in's argument: an error with an unknown value, the rest still evaluated
    # (seeded change C07-n: a nil receiver after the transparent-secret step of evaluateExprAccess)
    secs = [("sp", ("secret", "s3p")), ("sc", ("cipher", G.envelope_repr(b"ct-one"))),
            ("sb", ("cipher", G.envelope_repr(b"!undecryptable"))), ("sn", ("cipher", "bm90IGFuIGVudmVsb3Bl"))]
    for nm, _ in secs:
        for acc in ([("name", "inner")], [("idx", 0)], [("key", "k q")], [("name", "a"), ("name", "b")]):
            vals = list(secs) + [
                ("bad", ("sym", [("name", nm)] + acc)),
                ("i", G.norm_interp([("pre ", [("name", nm)] + acc), (" post", None)])),
                ("j", ("join", ("str", ","), ("arr", [("str", "x"), ("sym", [("name", nm)] + acc)]))),
                ("t", ("tojson", ("obj", [("k", ("sym", [("name", nm)] + acc))]))),
                ("whole", ("sym", [("name", nm)])),
                ("ok", ("str", "fine"))]
            c = G.case_from_graph({"root": {"imports": [], "values": vals}}, "root")
            c["provs"] = {}
            c["sites"] = []
            for mode in (False, True):
                for show in (True, False):
                    cases.append(dict(c, kind="ev", check=mode, show=show))
    for j, c in enumerate(G.flag_matrix_worlds()):
        for mode in (False, True):
            cases.append(dict(c, kind="ev", check=mode, show=True))
        for f in range(4):
            cases.append(dict(c, kind="ev", check=False, show=True, fault=f))
    # arguments of the WRONG SHAPE in one position while the other positions hold references / interpolations (which must
    # still be evaluated: an argument that is skipped leaves its expression unresolved for the final export)
    bad = [("num", "1"), ("arr", []), ("obj", [("k", ("str", "v"))]), ("null",), ("bool", True), ("sym", [("name", "nope")]),
           ("sym", [("name", "parts")]), ("secret", "s")]
    good_refs = [("sym", [("name", "parts")]), ("arr", [("sym", [("name", "one")]), G.norm_interp([("x", [("name", "one")]), ("y", None)])]),
                 ("arr", [("str", "a"), ("sym", [("name", "parts"), ("idx", 0)])]), G.norm_interp([("p-", [("name", "one")]), ("", None)])]
    for bi, b0 in enumerate(bad):
        for gi, g0 in enumerate(good_refs):
            vals = [("one", ("str", "1")), ("parts", ("arr", [("str", "a"), ("str", "b")])),
                    ("j1", ("join", b0, g0)), ("j2", ("join", g0, b0)), ("j3", ("join", b0, b0)),
                    ("t1", ("tob64", b0)), ("t2", ("fromb64", b0)), ("t3", ("fromjson", b0)), ("t4", ("tostring", b0)),
                    ("o1", ("open", "pq", b0)), ("o2", ("open", "pq", ("obj", [("region", g0), ("x", b0)]))),
                    ("after", ("sym", [("name", "one")]))]
            c = G.case_from_graph({"root": {"imports": [], "values": vals}}, "root")
            c["provs"] = {"pq": {"in": {"props": {"region": "string"}, "required": ["region"], "closed": False}, "out": "always", "beh": "echo"}}
            c["sites"] = []
            cases.append(dict(c, kind="ev", check=(bi + gi) % 2 == 0, show=True))
    # the recorded stack-overflow witness shape, with variations
    for k in range(6):
        envs = {"e0": {"imports": [], "values": [("c", ("sym", [("name", "nope")]))]},
                "e1": {"imports": [("e0", True)], "values": [("c", ("obj", [("c", ("num", "0"))])), ("a", ("num", "0"))]},
                "e4": {"imports": [("e1", True)] * (1 + k % 3), "values": [("a", ("sym", [("name", "c")] + ([("name", "c")] if k >= 3 else [])))]}}
        cases.append(dict(G.case_from_graph(envs, "e4"), kind="ev"))
    # three or four levels of import history on one nested key (object / unknown / object ...), the top merged over a
    # non-empty base: base chains that could close into a cycle (hang or fatal stack overflow, not a Go panic)
    lv = [("obj", [("c", ("num", "0"))]), ("sym", [("name", "nope")]), ("obj", [("c", ("num", "1"))]),
          ("open", "pz", ("obj", [("k", ("str", "v"))])), ("sym", [("name", "c"), ("name", "c")])]
    for i0, v0 in enumerate(lv):
        for i1, v1 in enumerate(lv):
            for i2, v2 in enumerate(lv[:4]):
                if not thorough and (i0 * 7 + i1 * 3 + i2) % 2 and not (i0 == 0 and i1 in (1, 3) and i2 == 2):
                    continue
                for form in range(3):
                    envs = {"b0": {"imports": [], "values": [("c", v0)]},
                            "b1": {"imports": [("b0", True)], "values": [("c", v1)]},
                            "top": {"imports": [("b1", True)], "values": [("c", v2)] + ([("x", ("obj", []))] if form == 1 else [])},
                            "other": {"imports": [], "values": [("c", ("obj", [("z", ("num", "9"))])), ("x", ("obj", [("y", ("num", "1"))]))]}}
                    if form == 0:
                        envs["root"] = {"imports": [("other", True), ("top", True)], "values": []}
                    elif form == 1:
                        envs["root"] = {"imports": [("top", True)], "values": [("x", ("sym", [("name", "c")]))]}
                    else:
                        envs["root"] = {"imports": [("other", True), ("top", True), ("b1", True)], "values": [("x", ("sym", [("name", "c"), ("name", "c")]))]}
                    c = G.case_from_graph(envs, "root")
                    c["provs"] = {"pz": {"in": "always", "out": "always", "beh": "fail"}}
                    c["sites"] = []
                    cases.append(dict(c, kind="ev", check=(i0 + i1 + i2 + form) % 3 == 0, show=True))
    # accesses one, two and three steps past what a provider's output schema declares (bare object / array, records and
    # tuples without additionalProperties / items), on values that are unknown (checking, or the provider fails)
    outs = ["object", "array", {"t": "array", "prefix": ["string"]}, {"t": "object", "props": {"val": "string"}},
            {"t": "object", "props": {"port": "object", "l": "array"}}, "always"]
    steps = [("name", "port"), ("name", "val"), ("idx", 0), ("idx", 1), ("key", "p"), ("name", "l")]
    for oi, o in enumerate(outs):
        paths = [[a] for a in steps] + [[a, b] for a in steps for b in steps[:4]] + [[steps[0], steps[2], steps[1]], [steps[2], steps[0], steps[3]]]
        vals = [("o", ("open", "ps", ("obj", [("k", ("str", "v"))])))]
        for j, pth in enumerate(paths):
            vals.append(("r%d" % j, ("sym", [("name", "o")] + pth)))
        vals.append(("via", ("sym", [("name", "o"), ("name", "port")])))
        vals.append(("via2", ("sym", [("name", "via"), ("name", "number")])))
        vals.append(("after", ("str", "still evaluated")))
        for beh, chk in (("const", True), ("fail", False), ("fail", True)):
            c = G.case_from_graph({"root": {"imports": [], "values": vals}}, "root")
            c["provs"] = {"ps": {"in": "always", "out": o, "beh": beh, "const": G.xspec({"val": "s"})}}
            c["sites"] = []
            cases.append(dict(c, kind="ev", check=chk, show=True))
    # ... and the same members fed into the typed built-ins and into provider inputs with a record schema, ONE consumer per
    # environment (the comparison sees "has error diagnostics" of the whole run, so nothing else may report).  Where the output
    # schema neither declares nor forbids the member, the member is an unknown whose schema is `false`: the implementation
    # rejects it WITHOUT a diagnostic (eval_validate.go:191-193 `if x.Never { return false }`; evaluateTypedExpr's fallback,
    # eval.go:565, is skipped for values containing unknowns) and the built-in yields an unknown: Model/Eval.v silent_never.
    # Positions: the argument itself (join delimiter / values, toBase64, fromBase64, fromJSON, provider inputs), an element
    # of a literal array (validateArray, eval_validate.go:622-631), a declared property of literal inputs (validateObject,
    # :650-663), a prefix item of an unknown array (validateSchemaArray, :329-337: the last schema of `outs2`).
    outs2 = outs + [{"t": "array", "prefix": ["never", "string"], "items": "never"}, {"t": "object", "props": {"val": "never"}}]
    feeds = [[steps[0]], [steps[1]], [steps[2]], [steps[3]], [steps[4]], [steps[5], steps[3]], [steps[0], steps[1]], []]
    recs = {"rec": {"in": {"props": {"region": "string"}, "required": [], "closed": False}, "out": "always", "beh": "echo"},
            "recc": {"in": {"props": {"region": "string"}, "required": [], "closed": True}, "out": "always", "beh": "echo"},
            "recr": {"in": {"props": {"region": "string", "other": "number"}, "required": ["region"], "closed": False},
                     "out": "always", "beh": "echo"},
            "any": {"in": "always", "out": "always", "beh": "echo"}}
    nth = 0
    for oi, o in enumerate(outs2):
        for pth in feeds:
            mp = [("name", "o")] + pth
            m = ("sym", mp)
            consumers = [
                ("join", ("str", "-"), ("arr", [m, ("str", "hello")])),               # element of a literal array
                ("join", ("str", "-"), ("arr", [m, m])),                              # only silent elements
                ("join", ("str", "-"), ("arr", [("str", "a"), m, ("num", "1"), m])),  # silent and reported elements mixed
                ("join", m, ("arr", [("str", "a"), ("str", "b")])),                   # delimiter
                ("join", m, ("arr", [m])),                                            # delimiter and element
                ("join", ("str", ","), m),                                            # the values argument itself
                ("join", ("str", ","), ("arr", [("arr", [m])])),                      # one level deeper: a known array element
                ("tob64", m), ("fromb64", m), ("fromjson", m), ("tostring", m), ("tojson", m),
                ("tob64", ("tostring", m)),
                G.norm_interp([("pre-", mp), ("-post", None)]),
                ("join", ("str", "/"), ("arr", [G.norm_interp([("x", mp), ("", None)])])),
                ("open", "rec", ("obj", [("region", m)])),                            # declared property, open record
                ("open", "recc", ("obj", [("region", m)])),                           # declared property, closed record
                ("open", "recc", ("obj", [("region", ("str", "r")), ("extra", m)])),  # undeclared key of a closed record
                ("open", "recr", ("obj", [("other", m)])),                            # next to a missing required key
                ("open", "recr", ("obj", [("region", m), ("other", m)])),
                ("open", "rec", m),                                                   # the inputs themselves
                ("open", "rec", ("obj", [("region", ("str", "r")), ("deep", ("obj", [("k", m)]))])),
                ("open", "any", ("obj", [("region", m)])),
            ]
            for ci, e in enumerate(consumers):
                for mi, (beh, chk) in enumerate((("const", True), ("fail", True), ("fail", False))):
                    nth += 1
                    if not thorough and mi > 0 and nth % 5:
                        continue
                    vals2 = [("o", ("open", "ps", ("obj", [("k", ("str", "v"))]))), ("x", e), ("after", ("str", "still evaluated"))]
                    c = G.case_from_graph({"root": {"imports": [], "values": vals2}}, "root")
                    c["provs"] = dict(recs, ps={"in": "always", "out": o, "beh": beh, "const": G.xspec({"val": "s"})})
                    c["sites"] = []
                    cases.append(dict(c, kind="ev", check=chk, show=True))
    # very deep nesting (flow and block), very long property paths, scalars and keys.  Sizes are chosen below the point where
    # the implementation's super-linear load time (measured: flow nesting 1000 / 2000 / 4000 / 8000 deep -> 2 s / 17 s / 113 s /
    # 747 s for the six operations; a `${x.x. ... .y}` path of 2000 / 4000 / 8000 / 16000 segments -> 4 s / 14 s / 50 s / 190 s) would
    # be mistaken for a hang: that growth is recorded as an observation in DESIGN section 8, it is not judged here
    deep = [("values:\n  a: " + "[" * n + "]" * n + "\n") for n in (100, 600, 20000, 100000)] + \
           [("values:\n  a: " + "{k: " * n + "1" + "}" * n + "\n") for n in (100, 600, 20000)] + \
           [("values:\n" + "".join("  " * (i + 1) + "k:\n" for i in range(n)) + "  " * (n + 1) + "v\n") for n in (100, 400)] + \
           [("values:\n  a: ${" + "x." * n + "y}\n") for n in (100, 1000)] + \
           [("values:\n  a: " + "$${" * n + "\n") for n in (1000, 100000)] + \
           [("values:\n  " + "k" * n + ": " + "v" * n + "\n") for n in (1000, 100000)] + \
           [("values:\n  a: {fn::join: [\",\", [" + ", ".join(["x"] * n) + "]]}\n") for n in (1000, 20000)]
    for doc in deep:
        cases.append({"kind": "raw", "text": doc.encode("latin-1").hex()})
    # (3) raw stream
    for s in SHAPES:
        cases.append({"kind": "raw", "text": s.encode("latin-1").hex()})
    seeds = [s.encode("latin-1") for s in SHAPES if len(s) > 12] + [
        b"imports: [a, {b: {merge: false}}]\nvalues:\n  k: {fn::open::p: {x: ${a.y}, s: {fn::secret: hunter2}}}\n  j: {fn::join: [',', [a, '${k.x}']]}\n",
        b"values:\n  s: {fn::secret: {ciphertext: ZXNjeAAAAAEQbF1s}}\n  t: {fn::toJSON: {a: [1, 2, {b: c}]}}\n  u: {fn::fromJSON: '[1, {\"a\": null}]'}\n"]
    for i in range(3000 if thorough else 350):
        r = rng.fork("m%d" % i)
        cases.append({"kind": "raw", "text": mutate(r, r.choice(seeds)).hex()})
    # interpolation / property-path parser: random strings over its alphabet, as values and as object keys
    # incl. multi-byte characters whose UTF-8 bytes contain 0x85 / 0xA0 (bytes that unicode.IsSpace accepts as runes)
    alpha = ["${", "}", "]", "[", ".", "\"", "\\", "a", "b", "0", "1", "-", " ", "$", "$$", "x.y", "[0]", "[\"k\"]",
             "\u00e0", "\u00c5", "\u0445", "\u00e9", "\u00a0", "\u0085", "\u2028", "\t"]
    for i in range(6000 if thorough else 700):
        r = rng.fork("i%d" % i)
        t = "".join(r.choice(alpha) for _ in range(1 + r.below(9)))
        if r.chance(1, 2):
            t = "${" + t
        doc = "values:\n  a: {x: [1, 2], y: {k: v}}\n  b: " + repr_yaml(t) + "\n"
        if r.chance(1, 6):
            doc += "  c: {fn::join: [\",\", [" + repr_yaml(t) + "]]}\n"
        cases.append({"kind": "raw", "text": doc.encode().hex()})
    return cases


def prepare(c):
    if c["kind"] == "raw":
        return {"_h": "EVRAW", "text": c["text"], "envs": {k: v.encode().hex() for k, v in IMPORTS.items()}}
    return G.request(c)


OPS = ["load", "check", "checkshow", "open", "encrypt", "decrypt"]


def line(c, o):
    if c["kind"] == "raw":
        if "crash" in o:
            return "(raw (crash))"
        if "panic" in o:
            return "(raw (panic))"
        items = []
        for op in OPS:
            v = o.get(op)
            items.append("panic" if v == "panic" else "crash" if v == "hang" else "(obs none f ())")
            if v == "hang":
                break
        return "(raw (%s))" % " ".join(items)
    return "(c07 %s)" % G.w_case(c, o)


def describe(c):
    if c["kind"] == "raw":
        return {"raw": bytes.fromhex(c["text"]).decode("latin-1")}
    return {"root": G.render_env(c["def"]), "fault": c.get("fault"), "check": c.get("check"),
            "imports": {n: (G.render_env(e["def"]) if e["kind"] == "def" else e["kind"]) for n, e in c["envs"].items()}}


def shrink(c):
    if c["kind"] == "raw":
        b = bytes.fromhex(c["text"])
        for i in range(0, len(b), max(1, len(b) // 16)):
            yield dict(c, text=(b[:i] + b[i + max(1, len(b) // 16):]).hex())
        lines = b.split(b"\n")
        for i in range(len(lines)):
            yield dict(c, text=b"\n".join(lines[:i] + lines[i + 1:]).hex())
        return
    d = c["def"]
    for i in range(len(d["values"])):
        yield dict(c, **{"def": {"imports": d["imports"], "values": d["values"][:i] + d["values"][i + 1:]}})
    for i in range(len(d["imports"])):
        yield dict(c, **{"def": {"imports": d["imports"][:i] + d["imports"][i + 1:], "values": d["values"]}})
    for n, e in c["envs"].items():
        if e["kind"] != "def":
            continue
        dd = e["def"]
        for i in range(len(dd["values"])):
            envs = dict(c["envs"])
            envs[n] = {"kind": "def", "def": {"imports": dd["imports"], "values": dd["values"][:i] + dd["values"][i + 1:]}}
            yield dict(c, envs=envs)


def distribution(cases, r):
    d = {"ev": 0, "ev_with_fault_hit": 0, "ev_with_errors": 0, "raw": 0, "raw_loads_ok": 0, "raw_load_diags": 0, "crash_or_panic": 0,
         "tower_family": sum(1 for c in cases if c.get("family") == "tower"),
         "tower_levels": sorted(set(c["tower_level"] for c in cases if c.get("family") == "tower"))}
    for c, o in zip(cases, r["obs"]):
        if "crash" in o or "panic" in o:
            d["crash_or_panic"] += 1
        if c["kind"] == "raw":
            d["raw"] += 1
            d["raw_loads_ok"] += 1 if o.get("load") == "ok" else 0
            d["raw_load_diags"] += 1 if o.get("load") == "diags" else 0
            if any(o.get(op) in ("panic", "hang") for op in OPS):
                d["crash_or_panic"] += 1
        else:
            d["ev"] += 1
            d["ev_with_errors"] += 1 if o.get("errors") else 0
            if c.get("fault") is not None and c["fault"] < len(o.get("log") or []):
                d["ev_with_fault_hit"] += 1
    return d
