"""C05 — providers are opened only with complete, valid inputs, once."""
from .. import common as C
from .. import evalgen as G

ID = "C05"
impl_prop = "EV"
SRC_FACTS = []
COQ_SAMPLE = 40
RULE_LOADS = (";  family `failed_import` (exhaustive): an import that fails - loader error, missing environment, three kinds of "
              "unparsable definition, or a good definition whose load is the faulted call - listed 2-3 times, mixed with a good "
              "import, and reached through 2-3 import paths, open and check mode; ALL loads must have distinct names except in "
              "the known class (a failed load repeated); controls: a good import listed 3 times / through 3 paths is loaded once")
RULE = ("worlds of 1..3 environments whose values mix literals, references (10% dangling), built-ins, plaintext and "
        "ciphertext secrets and fn::open sites nested in objects, arrays and other providers' inputs; every site has its own "
        "provider (input schema: any / open record / closed record; behaviour echo / constant / fail / unknown provider); "
        "open and check mode; observable = the collaborator call log.  non-trivial = the world has at least one fn::open site"
        + RULE_LOADS)
ASSUMPTIONS = ["provider input schemas are drawn from {any, record of typed properties with required/closed}; the full "
               "JSON-Schema vocabulary of the gate is C08's check",
               "'loaded at most once' is checked on the implementation's log for ALL loads; the only excuse is the known finding "
               "C05-failed-load-retried (every load that is followed by another load of the same name was a failed one, and the "
               "model predicts the implementation's log exactly)",
               "root environments named \"<yaml>\" (esc.AnonymousEnvironmentName) are generated only in the measurement family "
               "`yaml_root` (Model/Eval.v replaces the root name only when it is \"\"; environment.go also when it is \"<yaml>\"): the "
               "specification oracle decides on them, the model comparison is reported in `distribution` and does not decide"]
TRUSTED = ["site metadata (provider name unique per fn::open expression, containing environment, literal inputs) comes from "
           "the generator"]


def merged_unknown_family(rng, tier):
    """provider inputs that are a reference to an object which INHERITS an unknown part from an imported base (the gate
    must look at the merged value, not at the object's own properties), in several shapes"""
    cases = []
    unknowns = [("sym", [("name", "nope")]), ("open", "pfail", ("obj", [("k", ("str", "v"))])), ("cipher", G.envelope_repr(b"!undecryptable"))]
    for ui, unk in enumerate(unknowns):
        for shape in range(6):
            for in_s in ("always", {"props": {"region": "string"}, "required": [], "closed": False}):
                if shape == 0:      # own object merged over an imported object with an unknown member
                    base_vals = [("cfg", ("obj", [("token", unk), ("region", ("str", "us"))]))]
                    root_vals = [("cfg", ("obj", [("extra", ("num", "1"))])), ("v", ("open", "p", ("sym", [("name", "cfg")])))]
                elif shape == 1:    # unknown two levels down in the base
                    base_vals = [("cfg", ("obj", [("a", ("obj", [("deep", unk)])), ("region", ("str", "us"))]))]
                    root_vals = [("cfg", ("obj", [("a", ("obj", [("own", ("num", "1"))]))])), ("v", ("open", "p", ("sym", [("name", "cfg")])))]
                elif shape == 2:    # literal inputs whose member is the merged object
                    base_vals = [("cfg", ("obj", [("token", unk)]))]
                    root_vals = [("cfg", ("obj", [("extra", ("num", "1"))])), ("v", ("open", "p", ("obj", [("region", ("str", "us")), ("c", ("sym", [("name", "cfg")]))])))]
                elif shape == 3:    # the inputs literal itself sits over an imported object (same key path as the import)
                    base_vals = [("v", ("obj", [("token", unk)]))]
                    root_vals = [("w", ("open", "p", ("sym", [("name", "v")])))]
                elif shape == 4:    # unknown inside an array of the base object (arrays are replaced, not merged)
                    base_vals = [("cfg", ("obj", [("list", ("arr", [unk, ("str", "x")]))]))]
                    root_vals = [("cfg", ("obj", [("extra", ("num", "1"))])), ("v", ("open", "p", ("sym", [("name", "cfg")])))]
                else:               # control: the base member is overridden by a known value of the importer
                    base_vals = [("cfg", ("obj", [("token", unk)]))]
                    root_vals = [("cfg", ("obj", [("token", ("str", "known"))])), ("v", ("open", "p", ("sym", [("name", "cfg")])))]
                envs = {"base": {"imports": [], "values": base_vals}, "root": {"imports": [("base", True)], "values": root_vals}}
                c = G.case_from_graph(envs, "root")
                c["provs"] = {"p": {"in": in_s, "out": "always", "beh": "echo"},
                              "pfail": {"in": "always", "out": "always", "beh": "fail"}}
                c["sites"] = [{"prov": "p", "env": "root", "literal_inputs": None}]
                if ui == 1:
                    c["sites"].append({"prov": "pfail", "env": "base", "literal_inputs": [("k", ("str", "v"))]})
                c["check"] = False
                cases.append(c)
    # three and four merge layers (sibling imports [a, b] + root, chains root -> b -> a, both): the unknown lives in ONE layer
    # only (deepest, middle or top), every other layer defines the object with other keys
    for ui, unk in enumerate(unknowns):
        for nl in (3, 4):
            for where in range(nl):
                for form in ("siblings", "chain"):
                    names = ["l%d" % i for i in range(nl - 1)]          # deepest first
                    envs = {}
                    for i, n in enumerate(names):
                        vals = [("cfg", ("obj", [("k%d" % i, ("str", "v%d" % i))] + ([("token", unk)] if where == i else [])))]
                        imps = [(names[i - 1], True)] if (form == "chain" and i > 0) else []
                        envs[n] = {"imports": imps, "values": vals}
                    rimps = [(n, True) for n in names] if form == "siblings" else [(names[-1], True)]
                    rvals = [("cfg", ("obj", [("own", ("num", "1"))] + ([("token", unk)] if where == nl - 1 else []))),
                             ("v", ("open", "p", ("sym", [("name", "cfg")])))]
                    envs["root"] = {"imports": rimps, "values": rvals}
                    c = G.case_from_graph(envs, "root")
                    c["provs"] = {"p": {"in": "always", "out": "always", "beh": "echo"},
                                  "pfail": {"in": "always", "out": "always", "beh": "fail"}}
                    c["sites"] = [{"prov": "p", "env": "root", "literal_inputs": None}]
                    if ui == 1:
                        c["sites"].append({"prov": "pfail", "env": names[where] if where < nl - 1 else "root", "literal_inputs": [("k", ("str", "v"))]})
                    c["check"] = False
                    cases.append(c)
    return cases


NOPARSE_TEXTS = ["values: [1, 2\n", "values: 3\n", "values: {a: {fn::open: 1}}\n"]


def failed_import_family(rng, tier):
    """imports that FAIL (loader error / missing / unparsable / faulted call), listed several times and reached through
    several import paths: every listing loads them again (known finding C05-failed-load-retried); good imports as controls"""
    cases = []
    site_vals = [("v", ("open", "p", ("obj", [("k", ("str", "v"))])))]
    provs = {"p": {"in": "always", "out": "always", "beh": "echo"}, "q": {"in": "always", "out": "always", "beh": "echo"}}
    good = {"kind": "def", "def": {"imports": [], "values": [("g", ("open", "q", ("obj", [("k", ("str", "w"))])))]}}
    sites = [{"prov": "p", "env": "root", "literal_inputs": [("k", ("str", "v"))]}]
    gsite = {"prov": "q", "env": "good", "literal_inputs": [("k", ("str", "w"))]}
    kinds = [("fail", {"kind": "fail"}), ("missing", None)] + [("noparse%d" % i, {"kind": "noparse", "text": t}) for i, t in enumerate(NOPARSE_TEXTS)]

    def mk(envs, rimports, extra_sites, check, fault=None):
        c = {"name": "root", "def": {"imports": rimports, "values": list(site_vals)}, "envs": envs, "provs": provs,
             "sites": sites + extra_sites, "check": check, "show": False, "family": "failed_import"}
        if fault is not None:
            c["fault"] = fault
        return c

    listings = [[("bad", True)] * 2, [("bad", True)] * 3, [("bad", True), ("bad", False), ("bad", True)],
                [("bad", True), ("good", True), ("bad", True)], [("good", True), ("bad", True), ("good", True), ("bad", False)]]
    for kn, kd in kinds:
        for li in listings:
            for check in (False, True):
                envs = {"good": good}
                if kd is not None:
                    envs["bad"] = kd
                uses_good = any(n == "good" for n, _ in li)
                if not uses_good:
                    del envs["good"]
                cases.append(mk(envs, li, [gsite] if uses_good else [], check))
        # import paths: root -> a -> bad, root -> b -> bad (, root -> bad, root -> c -> b -> bad)
        for shape in range(4):
            envs = {"a": {"kind": "def", "def": {"imports": [("bad", True)], "values": [("x", ("num", "1"))]}},
                    "b": {"kind": "def", "def": {"imports": [("bad", shape != 1)], "values": [("y", ("num", "2"))]}}}
            rimports = [("a", True), ("b", True)]
            if shape == 2:
                rimports = [("a", True), ("bad", True), ("b", True)]
            if shape == 3:
                envs["c"] = {"kind": "def", "def": {"imports": [("b", True), ("bad", True)], "values": [("w", ("num", "3"))]}}
                rimports = [("a", True), ("c", True)]
            if kd is not None:
                envs["bad"] = kd
            cases.append(mk(envs, rimports, [], False))
            cases.append(mk(envs, rimports, [], True))
    # controls and the faulted call: a GOOD environment listed three times and reached through three paths; without a fault
    # it is loaded once; with the fault on its first load it is loaded twice (the failed load, then the successful one)
    envs3 = {"good": good,
             "a": {"kind": "def", "def": {"imports": [("good", True)], "values": [("x", ("num", "1"))]}},
             "b": {"kind": "def", "def": {"imports": [("good", True), ("a", True)], "values": [("y", ("num", "2"))]}}}
    for rimports in ([("good", True)] * 3, [("a", True), ("b", True), ("good", True)], [("b", True), ("a", True)]):
        for check in (False, True):
            for fault in [None] + list(range(0, 9)):
                cases.append(mk(envs3, rimports, [gsite], check, fault))
    # random mixtures
    n = 400 if tier == "thorough" else 40
    for i in range(n):
        r = rng.fork("fi%d" % i)
        names = ["e0", "e1", "e2", "e3"]
        envs = {}
        for j, nm in enumerate(names):
            k = r.below(6)
            if k == 0:
                envs[nm] = {"kind": "fail"}
            elif k == 1:
                envs[nm] = {"kind": "noparse", "text": r.choice(NOPARSE_TEXTS)}
            elif k == 2:
                pass                                    # missing
            else:
                imps = [(r.choice(names[:j] + ["zz"]), not r.chance(1, 5)) for _ in range(r.below(4))] if j else []
                envs[nm] = {"kind": "def", "def": {"imports": imps, "values": [("k%d" % j, ("num", str(j)))]}}
        rimports = [(r.choice(names), not r.chance(1, 5)) for _ in range(2 + r.below(4))]
        cases.append(mk(envs, rimports, [], r.chance(1, 4), r.below(8) if r.chance(1, 3) else None))
    return cases


def yaml_root_family(rng, tier):
    """MEASUREMENT (does not decide): root environments named "<yaml>" - environment.go treats that name as anonymous and
    tells providers of imported environments the name of the import; Model/Eval.v only knows "" as anonymous"""
    cases = []
    n = 60 if tier == "thorough" else 20
    for i in range(n):
        g = G.RichGen(rng.fork("y%d" % i), bad_refs=False, nonobject_inputs=False, faulty=False)
        c = g.world(depth=2)
        c["name"] = "<yaml>"
        for s in c["sites"]:
            if s["env"] == "root" or s["env"] not in c["envs"]:
                s["env"] = "<yaml>"
        c["check"] = False
        c["show"] = rng.chance(1, 2)
        c["family"] = "yaml_root"
        cases.append(c)
    # the minimal one: <yaml> imports imp, imp opens a provider and reads context.rootEnvironment.name
    envs = {"imp": {"kind": "def", "def": {"imports": [], "values": [("b", ("open", "q", ("obj", [("k", ("str", "w"))])))]}},
            "mid": {"kind": "def", "def": {"imports": [("imp", True)], "values": [("m", ("num", "1"))]}}}
    for rimports in ([("imp", True)], [("mid", True)], [("mid", True), ("imp", True)]):
        cases.append({"name": "<yaml>", "def": {"imports": rimports, "values": [("a", ("open", "p", ("obj", [("k", ("str", "v"))])))]},
                      "envs": envs, "provs": {"p": {"in": "always", "out": "always", "beh": "echo"},
                                              "q": {"in": "always", "out": "always", "beh": "echo"}},
                      "sites": [{"prov": "p", "env": "<yaml>", "literal_inputs": [("k", ("str", "v"))]},
                                {"prov": "q", "env": "imp", "literal_inputs": [("k", ("str", "w"))]}],
                      "check": False, "show": False, "family": "yaml_root"})
    return cases


MEASURE = {}


def extra_checks(ctx):
    """the `yaml_root` measurement: the specification oracle decides (a failure is a violation with a concrete input); the
    model-vs-implementation comparison is only counted (known deviation of Model/Eval.v, see Proofs/EvalLogRootName.v)"""
    from .. import driver as D
    import sys
    cases = yaml_root_family(ctx["rng"].fork("yaml"), ctx["tier"])
    r = D.evaluate(sys.modules[__name__], cases, tag="yaml", sample=5)
    opens_in_imports = 0
    for c, o in zip(cases, r["obs"]):
        opens_in_imports += sum(1 for e in (o.get("log") or []) if e[0] == "open" and e[4] != "<yaml>")
    MEASURE["yaml_root"] = {"cases": len(cases), "model_mismatches": len(r["mismatch"]), "spec_failures": len(r["spec_fail_new"]),
                            "opens_inside_imports": opens_in_imports,
                            "roots_told_to_import_providers": sorted(set(e[3] for o in r["obs"] for e in (o.get("log") or [])
                                                                       if e[0] == "open" and e[4] != "<yaml>"))[:8]}
    viol = []
    for i in r["spec_fail_new"][:1]:
        viol.append({"kind": "spec-violation-on-implementation", "case": D.strip(cases[i]), "impl_obs": r["obs"][i],
                     "note": "root environment named <yaml>"})
    return viol


def gen(rng, tier):
    n = 5000 if tier == "thorough" else 450
    cases = failed_import_family(rng, tier) + merged_unknown_family(rng, tier)
    for c in G.flag_matrix_worlds():
        cases.append(dict(c, check=False, show=True))
        cases.append(dict(c, check=True, show=False))
    for i in range(n):
        clean = rng.chance(2, 3)
        g = G.RichGen(rng.fork("w%d" % i), bad_refs=not clean, nonobject_inputs=not clean, faulty=not clean)
        c = g.world(depth=2)
        c["check"] = rng.chance(1, 4)
        c["show"] = rng.chance(1, 2)
        cases.append(c)
    return cases


def prepare(c):
    return G.request(c)


def line(c, o):
    sites = []
    for s in c["sites"]:
        li = s["literal_inputs"]
        sites.append("(%s %s %s)" % (G.sx(s["prov"]), G.sx(s["env"]),
                                     "none" if li is None else G.lit_xval_wire(("obj", li))))
    return "(c05 %s (%s))" % (G.w_case(c, o), " ".join(sites))


def describe(c):
    return {"root": G.render_env(c["def"]), "imports": {n: (G.render_env(e["def"]) if e["kind"] == "def" else e.get("text", e["kind"])) for n, e in c["envs"].items()},
            "fault": c.get("fault"),
            "providers": {k: {"in": v["in"], "beh": v["beh"]} for k, v in c["provs"].items()}, "check": c.get("check")}


def shrink(c):
    d = c["def"]
    for i in range(len(d["values"])):
        yield dict(c, **{"def": {"imports": d["imports"], "values": d["values"][:i] + d["values"][i + 1:]}})
    for i in range(len(d["imports"])):
        yield dict(c, **{"def": {"imports": d["imports"][:i] + d["imports"][i + 1:], "values": d["values"]}})


def distribution(cases, r):
    d = {"open_events": 0, "check_mode": 0, "sites": 0, "with_errors": 0, "crash_or_panic": 0, "loaderr": 0,
         "load_events": 0, "cases_with_a_repeated_load": 0, "failed_import_family": 0,
         "excused_by_known_class_C05-failed-load-retried": len(r["spec_fail_known"]),
         "measurement_yaml_root": MEASURE.get("yaml_root")}
    for c, o in zip(cases, r["obs"]):
        loads = [e[1] for e in (o.get("log") or []) if e[0] == "load"]
        d["load_events"] += len(loads)
        d["cases_with_a_repeated_load"] += 1 if len(set(loads)) < len(loads) else 0
        d["failed_import_family"] += 1 if c.get("family") == "failed_import" else 0
        d["sites"] += len(c["sites"])
        d["check_mode"] += 1 if c.get("check") else 0
        d["open_events"] += sum(1 for e in (o.get("log") or []) if e[0] == "open")
        d["with_errors"] += 1 if o.get("errors") else 0
        d["crash_or_panic"] += 1 if ("crash" in o or "panic" in o) else 0
        d["loaderr"] += 1 if o.get("loaderr") else 0
    return d
