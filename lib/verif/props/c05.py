"""C05 — providers are opened only with complete, valid inputs, once."""
from .. import common as C
from .. import evalgen as G

ID = "C05"
impl_prop = "EV"
SRC_FACTS = []
COQ_SAMPLE = 40
RULE = ("worlds of 1..3 environments whose values mix literals, references (10% dangling), built-ins, plaintext and "
        "ciphertext secrets and fn::open sites nested in objects, arrays and other providers' inputs; every site has its own "
        "provider (input schema: any / open record / closed record; behaviour echo / constant / fail / unknown provider); "
        "open and check mode; observable = the collaborator call log.  non-trivial = the world has at least one fn::open site")
ASSUMPTIONS = ["provider input schemas are drawn from {any, record of typed properties with required/closed}; the full "
               "JSON-Schema vocabulary of the gate is C08's check",
               "a LoadEnvironment that fails is retried by the next import of the same name (nothing is memoised on failure); "
               "'loaded at most once' is checked for loads that succeed"]
TRUSTED = ["site metadata (provider name unique per fn::open expression, containing environment, literal inputs) comes from "
           "the generator"]


def merged_unknown_family(rng, tier):
    """provider inputs that are a reference to an object which INHERITS an unknown part from an imported base (the gate
    must look at the merged value, not at the object's own properties), in several shapes"""
    cases = []
    unknowns = [("sym", [("name", "nope")]), ("open", "pfail", ("obj", [("k", ("str", "v"))])), ("cipher", G.envelope_repr(b"!undecryptable"))]
    for ui, unk in enumerate(unknowns):
        for shape in range(6):
            for in_s in ("always", {"props": {"region": "string"}, "required": [], "closed": False}):
                if shape == 0:      # own object merged over an imported object with an unknown member
                    base_vals = [("cfg", ("obj", [("token", unk), ("region", ("str", "us"))]))]
                    root_vals = [("cfg", ("obj", [("extra", ("num", "1"))])), ("v", ("open", "p", ("sym", [("name", "cfg")])))]
                elif shape == 1:    # unknown two levels down in the base
                    base_vals = [("cfg", ("obj", [("a", ("obj", [("deep", unk)])), ("region", ("str", "us"))]))]
                    root_vals = [("cfg", ("obj", [("a", ("obj", [("own", ("num", "1"))]))])), ("v", ("open", "p", ("sym", [("name", "cfg")])))]
                elif shape == 2:    # literal inputs whose member is the merged object
                    base_vals = [("cfg", ("obj", [("token", unk)]))]
                    root_vals = [("cfg", ("obj", [("extra", ("num", "1"))])), ("v", ("open", "p", ("obj", [("region", ("str", "us")), ("c", ("sym", [("name", "cfg")]))])))]
                elif shape == 3:    # the inputs literal itself sits over an imported object (same key path as the import)
                    base_vals = [("v", ("obj", [("token", unk)]))]
                    root_vals = [("w", ("open", "p", ("sym", [("name", "v")])))]
                elif shape == 4:    # unknown inside an array of the base object (arrays are replaced, not merged)
                    base_vals = [("cfg", ("obj", [("list", ("arr", [unk, ("str", "x")]))]))]
                    root_vals = [("cfg", ("obj", [("extra", ("num", "1"))])), ("v", ("open", "p", ("sym", [("name", "cfg")])))]
                else:               # control: the base member is overridden by a known value of the importer
                    base_vals = [("cfg", ("obj", [("token", unk)]))]
                    root_vals = [("cfg", ("obj", [("token", ("str", "known"))])), ("v", ("open", "p", ("sym", [("name", "cfg")])))]
                envs = {"base": {"imports": [], "values": base_vals}, "root": {"imports": [("base", True)], "values": root_vals}}
                c = G.case_from_graph(envs, "root")
                c["provs"] = {"p": {"in": in_s, "out": "always", "beh": "echo"},
                              "pfail": {"in": "always", "out": "always", "beh": "fail"}}
                c["sites"] = [{"prov": "p", "env": "root", "literal_inputs": None}]
                if ui == 1:
                    c["sites"].append({"prov": "pfail", "env": "base", "literal_inputs": [("k", ("str", "v"))]})
                c["check"] = False
                cases.append(c)
    # three and four merge layers (sibling imports [a, b] + root, chains root -> b -> a, both): the unknown lives in ONE layer
    # only (deepest, middle or top), every other layer defines the object with other keys
    for ui, unk in enumerate(unknowns):
        for nl in (3, 4):
            for where in range(nl):
                for form in ("siblings", "chain"):
                    names = ["l%d" % i for i in range(nl - 1)]          # deepest first
                    envs = {}
                    for i, n in enumerate(names):
                        vals = [("cfg", ("obj", [("k%d" % i, ("str", "v%d" % i))] + ([("token", unk)] if where == i else [])))]
                        imps = [(names[i - 1], True)] if (form == "chain" and i > 0) else []
                        envs[n] = {"imports": imps, "values": vals}
                    rimps = [(n, True) for n in names] if form == "siblings" else [(names[-1], True)]
                    rvals = [("cfg", ("obj", [("own", ("num", "1"))] + ([("token", unk)] if where == nl - 1 else []))),
                             ("v", ("open", "p", ("sym", [("name", "cfg")])))]
                    envs["root"] = {"imports": rimps, "values": rvals}
                    c = G.case_from_graph(envs, "root")
                    c["provs"] = {"p": {"in": "always", "out": "always", "beh": "echo"},
                                  "pfail": {"in": "always", "out": "always", "beh": "fail"}}
                    c["sites"] = [{"prov": "p", "env": "root", "literal_inputs": None}]
                    if ui == 1:
                        c["sites"].append({"prov": "pfail", "env": names[where] if where < nl - 1 else "root", "literal_inputs": [("k", ("str", "v"))]})
                    c["check"] = False
                    cases.append(c)
    return cases


def gen(rng, tier):
    n = 5000 if tier == "thorough" else 450
    cases = merged_unknown_family(rng, tier)
    for c in G.flag_matrix_worlds():
        cases.append(dict(c, check=False, show=True))
        cases.append(dict(c, check=True, show=False))
    for i in range(n):
        clean = rng.chance(2, 3)
        g = G.RichGen(rng.fork("w%d" % i), bad_refs=not clean, nonobject_inputs=not clean, faulty=not clean)
        c = g.world(depth=2)
        c["check"] = rng.chance(1, 4)
        c["show"] = rng.chance(1, 2)
        cases.append(c)
    return cases


def prepare(c):
    return G.request(c)


def line(c, o):
    sites = []
    for s in c["sites"]:
        li = s["literal_inputs"]
        sites.append("(%s %s %s)" % (G.sx(s["prov"]), G.sx(s["env"]),
                                     "none" if li is None else G.lit_xval_wire(("obj", li))))
    return "(c05 %s (%s))" % (G.w_case(c, o), " ".join(sites))


def describe(c):
    return {"root": G.render_env(c["def"]), "imports": {n: G.render_env(e["def"]) for n, e in c["envs"].items()},
            "providers": {k: {"in": v["in"], "beh": v["beh"]} for k, v in c["provs"].items()}, "check": c.get("check")}


def shrink(c):
    d = c["def"]
    for i in range(len(d["values"])):
        yield dict(c, **{"def": {"imports": d["imports"], "values": d["values"][:i] + d["values"][i + 1:]}})
    for i in range(len(d["imports"])):
        yield dict(c, **{"def": {"imports": d["imports"][:i] + d["imports"][i + 1:], "values": d["values"]}})


def distribution(cases, r):
    d = {"open_events": 0, "check_mode": 0, "sites": 0, "with_errors": 0, "crash_or_panic": 0, "loaderr": 0}
    for c, o in zip(cases, r["obs"]):
        d["sites"] += len(c["sites"])
        d["check_mode"] += 1 if c.get("check") else 0
        d["open_events"] += sum(1 for e in (o.get("log") or []) if e[0] == "open")
        d["with_errors"] += 1 if o.get("errors") else 0
        d["crash_or_panic"] += 1 if ("crash" in o or "panic" in o) else 0
        d["loaderr"] += 1 if o.get("loaderr") else 0
    return d
