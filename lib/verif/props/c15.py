"""C15 — path edits change exactly the addressed node (YAMLSyntax.Get/Set/Delete, env set / env rm / env get)."""
import json

from .. import common as C

ID = "C15"
SRC_FACTS = ["yamledit_set_fields", "yamledit_delete_empty", "yamledit_delete_missing", "yamledit_key_comment",
             "envrm_imports"]
COQ_SAMPLE = 40
BATCH = 100
RULE = ("regression corpus (the six repaired defects in both modes, TestYAMLEdit-like edits, same-text replacements); "
        "same-text family: 11 scalar texts (int, float, bool, null, ~, empty, date, string) x all ordered pairs of distinct "
        "presentations (plain, double/single quoted, !!str) as mapping value and sequence element, and all pairs over "
        "the spellings of null/empty, in both modes; exhaustive family: 7 small "
        "definitions x every single set/rm over 14 paths x 6 values, in both modes, plus all ordered pairs over a "
        "reduced alphabet (thorough) or a sample of them (quick); random stream: generated definitions (nested "
        "block/flow mappings and sequences, quoted/literal/plain scalars, quoted keys, head and line comments) with "
        "sequences of 1-6 set/rm over paths drawn from the definition's own paths, their extensions (new keys, "
        "append index, index gaps, negative indices, through scalars, wrong accessor kind, missing intermediates, "
        "empty path) and paths used earlier in the sequence; values: ints, floats, bools, nulls, plain/quoted/"
        "multi-line strings, flow and block collections, explicit tags, anchors, unparsable texts; malformed path "
        "texts; mode api = direct YAMLSyntax.Set/Delete on the document (in-memory across steps or re-parsed), "
        "mode cli = real `esc env set/rm/get` commands against a fake backend (with --secret on a third of the "
        "sets).  non-trivial = the input definition is well-formed and round-trips and at least one step changed "
        "the stored definition; distinct by case content")
ASSUMPTIONS = [
    "the stored definition is compared after yaml.v3 has written and re-read it: scalars by effective tag, value "
    "and comments, collections by kind, comments and children (a collection's own tag and flow/block style are "
    "presentation)",
    "definitions whose initial text yaml.v3 does not write back to an equal tree (comment re-attachment) or that "
    "are not well-formed (duplicate keys, non-scalar keys, aliases as containers) are outside the property; they "
    "are still compared against the model",
    "comment lines followed by a blank line (yaml.v3 foot comments) are not generated: yaml.v3 attributes them to "
    "the previous or to the next key depending on the position of the entry in its mapping, so the same text is "
    "read back differently after an unrelated edit (the text itself does not move)",
    "a failed Set/Delete may leave created intermediates in the in-memory tree; the CLI discards the tree, and the "
    "api mode restarts from the stored text after a failed step",
    "the value-looks-like-a-secret heuristic (zxcvbn) is bypassed with --plaintext; the fake backend stores any "
    "text (the real service validates the definition and may refuse it, e.g. fn::secret of a non-string)",
]
TRUSTED = ["yaml.v3 scanner/emitter and resource.ParsePropertyPath are not modelled: their results (parsed "
           "definition, parsed value, parsed path) are inputs of the model; the generator's intended path is "
           "compared with the parsed one"]


# ---------------------------------------------------------------------------------------------------------
# definitions: small AST rendered to YAML text
#   ("map", [(key, head_comment, node)], flow)   ("seq", [node], flow)   ("s", source_text, line_comment)
#   ("lit", [lines])  literal block scalar
def is_simple_key(k):
    return k != "" and all(ch.isalnum() or ch in "_-$:" for ch in k) and not k[0].isdigit() and \
        k not in ("true", "false", "null", "yes", "no", "on", "off", "y", "n") and not k.startswith("-") \
        and not k.endswith(":") and not k.startswith(":")


PLAIN_KEYS = ("7", "3.5", "no")     # written unquoted: keys whose tag is not !!str


def ykey(k):
    return k if is_simple_key(k) or k in PLAIN_KEYS else json.dumps(k, ensure_ascii=False)


def meta_parts(meta):
    """(head comment, line comment of the key, foot comment) of a mapping entry"""
    if isinstance(meta, (list, tuple)):
        return tuple(meta) + ("",) * (3 - len(meta))
    return (meta or "", "", "")


def flow(n):
    t = n[0]
    if t == "s":
        return n[1]
    if t == "map":
        return "{" + ", ".join("%s: %s" % (ykey(k), flow(v)) for k, _, v in n[1]) + "}"
    if t == "seq":
        return "[" + ", ".join(flow(v) for v in n[1]) + "]"
    if t == "lit":
        return json.dumps("\n".join(n[1]) + "\n")
    raise ValueError(t)


def block(n, ind):
    """lines of node n in block position at indentation ind (for a scalar: one line without indentation)"""
    t = n[0]
    pad = " " * ind
    if t == "s":
        return [n[1] + (" # " + n[2] if n[2] else "")]
    if t == "lit":
        return ["|"] + [pad + l for l in n[1]]
    if (t in ("map", "seq") and (n[2] or not n[1])):
        return [flow(n)]
    out = []
    if t == "map":
        for k, meta, v in n[1]:
            hc, klc, fc = meta_parts(meta)
            if hc:
                out.append(pad + "# " + hc)
            if v[0] in ("s",) or (v[0] in ("map", "seq") and (v[2] or not v[1])):
                out.append(pad + ykey(k) + ": " + block(v, ind + 2)[0])
            elif v[0] == "lit":
                b = block(v, ind + 2)
                out.append(pad + ykey(k) + ": " + b[0])
                out.extend(b[1:])
            else:
                out.append(pad + ykey(k) + ":" + (" # " + klc if klc else ""))
                out.extend(block(v, ind + 2))
            if fc:
                out.append(pad + "# " + fc)
                out.append("")
        return out
    for v in n[1]:
        if v[0] == "s" and len(v) > 3 and v[3]:
            out.append(pad + "# " + v[3])
        if v[0] == "s" or (v[0] in ("map", "seq") and (v[2] or not v[1])):
            out.append(pad + "- " + block(v, ind + 2)[0])
        elif v[0] == "lit":
            b = block(v, ind + 2)
            out.append(pad + "- " + b[0])
            out.extend(b[1:])
        else:
            b = block(v, ind + 2)
            out.append(pad + "- " + b[0][ind + 2:])
            out.extend(b[1:])
    return out


def render(n):
    if n is None:
        return ""
    if n[0] == "s":
        return block(n, 0)[0] + "\n"
    if n[0] == "lit":
        return "|\n" + "".join("  " + l + "\n" for l in n[1])
    return "\n".join(block(n, 0)) + "\n"


KEYS = ["a", "b", "c", "d", "name", "k.dot", "with space", "1", "true", "q[0]", "", "fn::secret", "hé", "x-y",
        "values", "imports", "7", "3.5", "no"]
SCALARS = ["1", "42", "-7", "0x1F", "1.5", "1e3", ".inf", "true", "false", "null", "~", "abc", "hello world",
           '"str"', '"123"', "'single'", "'it''s'", '"a\\nb"', '"true"', "''", '""', "héllo", "2001-12-14",
           "!!str 5", "$ {x}", "${a.b}"]
COMMENTS = ["c", "note", "keep me", "x: y", "TODO #1"]


def gen_node(rng, depth):
    r = rng.below(100)
    if depth <= 0 or r < 45:
        if rng.chance(1, 12):
            return ("lit", [rng.choice(["line one", "two", "x: 1", "# not a comment"])] +
                    [rng.choice(["line one", "two", "  indented", "x: 1"]) for _ in range(rng.below(3))])
        return ("s", rng.choice(SCALARS), rng.choice(COMMENTS) if rng.chance(1, 5) else "")
    if r < 80:
        n = rng.below(4)
        keys = rng.shuffle(KEYS)[:n]
        fl = rng.chance(1, 4)
        ents = []
        for k in keys:
            v = gen_node(rng, depth - 1)
            meta = ""
            if not fl:
                hc = rng.choice(COMMENTS) if rng.chance(1, 6) else ""
                klc = rng.choice(COMMENTS) if rng.chance(1, 8) else ""
                fc = ""     # no foot comments, see ASSUMPTIONS
                meta = (hc, klc, fc) if (klc or fc) else hc
            ents.append((k, meta, v))
        return ("map", ents, fl)
    n = rng.below(4)
    fl = rng.chance(1, 3)
    items = []
    for _ in range(n):
        v = gen_node(rng, depth - 1)
        if v[0] == "s" and not fl and rng.chance(1, 8):
            v = ("s", v[1], v[2], rng.choice(COMMENTS))
        items.append(v)
    return ("seq", items, fl)


def strip_flow(n):
    """inside a flow collection everything is flow and comment-free"""
    t = n[0]
    if t == "s":
        src = n[1] if not n[1].startswith("!!") else "5"
        if src[:1] not in "\"'" and any(ch in src for ch in "{}[],#"):
            src = json.dumps(src)
        return ("s", src, "")
    if t == "lit":
        return ("s", json.dumps("\n".join(n[1])), "")
    if t == "map":
        return ("map", [(k, "", strip_flow(v)) for k, _, v in n[1]], True)
    return ("seq", [strip_flow(v) for v in n[1]], True)


def fix_flow(n):
    t = n[0]
    if t in ("s", "lit"):
        return n
    if n[2]:
        return strip_flow(n)
    if t == "map":
        return ("map", [(k, hc, fix_flow(v)) for k, hc, v in n[1]], False)
    return ("seq", [fix_flow(v) for v in n[1]], False)


def gen_doc(rng, mode):
    depth = 1 + rng.below(3)
    body = fix_flow(gen_node(rng, depth))
    if body[0] != "map" and not rng.chance(1, 8):
        body = ("map", [(k, "", fix_flow(gen_node(rng, depth - 1))) for k in rng.shuffle(KEYS[:6])[:1 + rng.below(3)]],
                False)
    if mode == "api":
        if rng.chance(1, 25):
            return None
        return body
    r = rng.below(40)
    if r == 0:
        return None
    if r == 1:
        return body
    if r == 2:
        return ("map", [("values", "", ("s", rng.choice(["", "null", "5"]), ""))], False)
    ents = []
    if rng.chance(1, 3):
        ents.append(("imports", "", ("seq", [("s", rng.choice(["base", "proj/e", "org/x@2"]), "") for _ in
                                               range(rng.below(3))], False)))
    ents.append(("values", rng.choice(COMMENTS) if rng.chance(1, 8) else "", body))
    if rng.chance(1, 8):
        ents.append(("other", "", ("s", "1", "")))
    return ("map", ents, False)


# ---------------------------------------------------------------------------------------------------------
# paths
def ast_paths(n, acc=None, out=None):
    acc = acc or []
    if out is None:
        out = []
    out.append(list(acc))
    if n is None:
        return out
    if n[0] == "map":
        seen = set()
        for k, _, v in n[1]:
            if k in seen:
                continue
            seen.add(k)
            ast_paths(v, acc + [k], out)
    elif n[0] == "seq":
        for i, v in enumerate(n[1]):
            ast_paths(v, acc + [i], out)
    return out


def ast_get(n, p):
    for a in p:
        if n is None:
            return None
        if n[0] == "map" and isinstance(a, str):
            for k, _, v in n[1]:
                if k == a:
                    n = v
                    break
            else:
                return None
        elif n[0] == "seq" and isinstance(a, int) and 0 <= a < len(n[1]):
            n = n[1][a]
        else:
            return None
    return n


def path_text(p):
    s = ""
    for a in p:
        if isinstance(a, int):
            s += "[%d]" % a
        elif a != "" and all(ch not in a for ch in '.[]"\\') :
            s += ("." if s else "") + a
        else:
            s += '["%s"]' % a.replace('"', '\\"')
    return s


NEWKEYS = ["n1", "n2", "new.key", "a", "b", "z z", "9", ""]


def gen_path(rng, root, used, mode):
    """a path (list of str/int) relative to what the commands address (below `values` in cli mode)"""
    base = root
    if mode == "cli" and root is not None and root[0] == "map":
        if rng.chance(1, 12):
            imp = ast_get(root, ["imports"])
            n = len(imp[1]) if imp and imp[0] == "seq" else 0
            return ["imports", rng.choice([0, n, n, n + 1])] if rng.chance(3, 4) else ["imports"]
        base = ast_get(root, ["values"])
    pool = ast_paths(base) if base is not None else [[]]
    r = rng.below(100)
    if used and r < 22:
        p = list(rng.choice(used))
        if rng.chance(1, 3) and p:
            p = p[:-1]
        elif rng.chance(1, 3):
            p = p + [rng.choice(NEWKEYS + [0])]
        return p
    p = list(rng.choice(pool))
    if r < 45:
        if not p and rng.chance(9, 10):
            p = [rng.choice(NEWKEYS)]
        return p
    node = ast_get(base, p) if base is not None else None
    k = rng.below(10)
    if node is not None and node[0] == "seq":
        n = len(node[1])
        ext = rng.choice([n, n, n + 1, -1, n + 5, "k", 0])
    elif node is not None and node[0] == "map":
        ext = rng.choice(NEWKEYS + [0])
    else:
        ext = rng.choice(NEWKEYS + [0, 1])
    p = p + [ext]
    if k < 4:
        p = p + [rng.choice(NEWKEYS + [0, 0, 1])]
        if k < 1:
            p = p + [rng.choice(NEWKEYS + [0])]
    return p


VALUES = ["123", "-5", "0x1F", "1.5", "1e3", "true", "false", "null", "~", "", "abc", "hello world", '"quoted str"',
          "'single'", '"123"', '"true"', "{a: 1}", "{a: {b: [1, 2]}, c: x}", "[1, two, 3.0]", "[]", "{}",
          '"multi\\nline"', "!!str 5", '!!int "7"', "&anc x", "k: v", "- a\n- b", "a: 1\nb:\n  - x\n  - y",
          "# only a comment", "héllo", '"yes"', "'it''s'", "|\n  lit\n  eral", "hunter2", " 12 ", "5 # trailing",
          '{"fn::secret": s3cr3t}', "${a.b}", "!custom tagged", "0o17", "12345678901234567890", "2001-12-14"]
BADVALUES = ["*nope", "[1, 2", "{a: 1", "a: b: c", "\t- x", '"unterminated', "a: 1\n b: 2", "%YAML 9.9"]
BADPATHS = ["a[", 'a["x', ".a", "a.", "[x]", "a[1.5]", 'a["x"', "a[99999999999999999999]", "a..b", "a.[0]", "[*]",
            'a["q\\"r"]']


def gen_ops(rng, root, mode, nops):
    ops, used = [], []
    for _ in range(nops):
        if rng.chance(1, 40):
            t = rng.choice(BADPATHS)
            ops.append({"op": rng.choice(["set", "rm"]), "path": t, "ipath": None, "value": "1"})
            continue
        p = gen_path(rng, root, used, mode)
        used.append(p)
        if rng.chance(3, 5):
            v = rng.choice(BADVALUES) if rng.chance(1, 25) else rng.choice(VALUES)
            o = {"op": "set", "path": path_text(p), "ipath": p, "value": v}
            if mode == "cli" and rng.chance(1, 3):
                o["secret"] = True
            ops.append(o)
        else:
            ops.append({"op": "rm", "path": path_text(p), "ipath": p})
    return ops


def mk(mode, ast, ops, reparse=True):
    return {"mode": mode, "reparse": reparse, "ast": ast, "doc": render(ast), "ops": ops}


SMALL_DOCS = [
    ("map", [("a", "", ("s", "1", ""))], False),
    ("map", [("a", ("", "kc", ""), ("map", [("x", "", ("s", "1", ""))], False)), ("k", "keep", ("s", "v", "lc"))], False),
    ("map", [("a", "", ("seq", [("s", "1", ""), ("s", "2", "")], False))], False),
    ("map", [("a", "", ("s", '"s"', "c"))], False),
    None,
    ("map", [("a", "", ("map", [("b", "", ("map", [("c", "", ("s", "1", ""))], False))], False))], False),
    ("map", [("a", "", ("seq", [("map", [("x", "", ("s", "1", ""))], False), ("s", "t", "")], False)),
             ("b", "", ("s", "'q'", ""))], False),
]
SMALL_PATHS = [["a"], ["b"], ["a", "x"], ["a", "b", "c"], ["a", 0], ["a", 1], ["a", 2], ["a", -1], ["b", "c"], ["b", 0],
               ["a", "x", "y"], [], ["a", 0, "x"], ["a", 3]]
SMALL_VALUES = ["5", '"s"', "{k: v}", "[1]", "abc", "{}"]


# texts that resolve to a non-string type when plain: replacing one presentation by another changes the type
SAME_TEXTS = ["8080", "-7", "0x1F", "1.5", "true", "false", "null", "~", "abc", "2001-12-14", ""]


def wrap(mode, ast):
    if mode == "api" or ast is None:
        return ast
    return ("map", [("values", "", ast)], False)


def gen(rng, tier):
    thorough = tier == "thorough"
    cases = []
    # ---- regression corpus ------------------------------------------------------------------------------
    d1 = ("map", [("a", "", ("map", [("x", "", ("s", "1", ""))], False))], False)
    d2 = ("map", [("a", "", ("s", '"str"', "c")), ("l", "", ("lit", ["text"])), ("f", "", ("s", "'1'", ""))], False)
    for mode in ("api", "cli"):
        cases.append(mk(mode, wrap(mode, d1), [{"op": "rm", "path": "b.c", "ipath": ["b", "c"]}]))
        cases.append(mk(mode, wrap(mode, d1), [{"op": "rm", "path": "a.y.z", "ipath": ["a", "y", "z"]}]))
        cases.append(mk(mode, wrap(mode, d1), [{"op": "rm", "path": "", "ipath": []}]))
        cases.append(mk(mode, wrap(mode, d2), [{"op": "set", "path": "a", "ipath": ["a"], "value": "123"},
                                                {"op": "set", "path": "l", "ipath": ["l"], "value": "7"},
                                                {"op": "set", "path": "f", "ipath": ["f"], "value": "true"},
                                                {"op": "set", "path": "a", "ipath": ["a"], "value": "back"}]))
        cases.append(mk(mode, wrap(mode, d2), [{"op": "set", "path": "a", "ipath": ["a"], "value": "{x: [1]}"},
                                                {"op": "set", "path": "a.x[1]", "ipath": ["a", "x", 1], "value": "2"},
                                                {"op": "rm", "path": "a.x[0]", "ipath": ["a", "x", 0]},
                                                {"op": "rm", "path": "a", "ipath": ["a"]}]))
    # line comments: a scalar with a line comment replaced by a collection (also through --secret), the line
    # comment of a key whose collection is emptied / replaced, an explicitly tagged scalar replaced by ""
    d3 = ("map", [("pw", "", ("s", "hunter2", "rotate monthly")), ("user", "", ("s", "bob", ""))], False)
    d4 = ("map", [("aws", ("", "settings", ""), ("map", [("region", "", ("s", "us", ""))], False)),
                  ("l", ("", "list", ""), ("seq", [("s", "x", "")], False)), ("z", "", ("s", "1", ""))], False)
    d5 = ("map", [("a", "", ("s", "!!str 5", "keep me")), ("n1", "", ("s", "1", ""))], False)

    def S(p, v, **kw):
        return dict({"op": "set", "path": path_text(p), "ipath": p, "value": v}, **kw)

    def R(p):
        return {"op": "rm", "path": path_text(p), "ipath": p}
    for mode in ("api", "cli"):
        for rp in (True, False):
            cases.append(mk(mode, wrap(mode, d3), [S(["pw"], "{k: v}"), S(["pw"], "5")], rp))
            cases.append(mk(mode, wrap(mode, d3), [S(["pw"], "{}"), S(["pw", "k"], "v")], rp))
            cases.append(mk(mode, wrap(mode, d3), [S(["pw"], "[1, 2]"), R(["pw", 0]), R(["pw", 0]), S(["pw", 0], "x")], rp))
            cases.append(mk(mode, wrap(mode, d4), [R(["aws", "region"]), S(["aws", "k"], "v"), R(["aws", "k"])], rp))
            cases.append(mk(mode, wrap(mode, d4), [S(["aws"], "{}"), S(["aws", "k"], "v")], rp))
            cases.append(mk(mode, wrap(mode, d4), [R(["l", 0]), S(["l", 0], "y"), S(["l"], "5")], rp))
            cases.append(mk(mode, wrap(mode, d4), [S(["aws"], "5"), S(["aws"], "{a: 1}"), S(["l"], "[]")], rp))
            cases.append(mk(mode, wrap(mode, d5), [S(["a"], '""'), S(["a"], "x"), S(["a"], "!!str 7")], rp))
    cases.append(mk("cli", wrap("cli", d3), [S(["pw"], "newpw", secret=True), S(["user"], "12", secret=True)]))
    for t in SECRET_TEXTS:
        cases.append(mk("cli", wrap("cli", d3), [S(["pw"], t, secret=True), S(["fresh"], t, secret=True)]))
    cases.append(mk("cli", ("map", [("imports", "", ("seq", [("s", "base", "")], False)),
                                    ("values", "", ("map", [("a", "", ("s", "1", ""))], False))], False),
                    [S(["imports", 1], "more"), R(["imports", 0]), R(["imports", 0]), R(["imports", 0]), R(["imports"])]))
    cases.append(mk("cli", None, [{"op": "set", "path": "a.b", "ipath": ["a", "b"], "value": "x"},
                                  {"op": "set", "path": "pw", "ipath": ["pw"], "value": "hunter2", "secret": True},
                                  {"op": "set", "path": "n", "ipath": ["n"], "value": "12", "secret": True},
                                  {"op": "set", "path": "imports[0]", "ipath": ["imports", 0], "value": "base"},
                                  {"op": "rm", "path": "a.b", "ipath": ["a", "b"]}]))
    # ---- same text, other type or style: a scalar replaced by a scalar whose text is identical ---------------
    # regression corpus: the seeded early return "both scalars with the same text" (port: 8080 / set port '"8080"')
    for mode in ("api", "cli"):
        for src, val in (("8080", '"8080"'), ('"8080"', "8080"), ("true", '"true"'), ("null", '"null"'),
                         ("null", ""), ("", '"null"'), ('"abc"', "abc")):
            d = ("map", [("port", "", ("s", src, "keep")), ("z", "", ("s", "1", ""))], False)
            cases.append(mk(mode, wrap(mode, d), [S(["port"], val), S(["port"], src if src else "~")]))
    # exhaustive: every scalar class (int, float, bool, null, ~, empty, string) x every ordered pair of distinct
    # presentations (plain, "double", 'single', explicit !!str tag) of the same text, as a mapping value and as a
    # sequence element, in both modes
    for text in SAME_TEXTS:
        forms = [text, '"%s"' % text, "'%s'" % text] + (["!!str " + text] if text else [])
        for f1 in forms:
            for f2 in forms:
                if f1 == f2:
                    continue
                dm = ("map", [("k", "", ("s", f1, "")), ("z", "", ("s", "1", ""))], False)
                dq = ("map", [("l", "", ("seq", [("s", "0", ""), ("s", f1 if f1 else '""', "")], False))], False)
                for mode in ("api", "cli"):
                    cases.append(mk(mode, wrap(mode, dm), [S(["k"], f2)], reparse=(len(cases) % 2 == 0)))
                    if f1:
                        cases.append(mk(mode, wrap(mode, dq), [S(["l", 1], f2)]))
    # the values a key without a value can be given back and forth: k: / k: null / k: ~ / k: "" and set '' / null / ~
    for f1 in ("", "null", "~", '""', "''", '"null"', '"~"'):
        for f2 in ("", "null", "~", '""', "''", '"null"', '"~"'):
            if f1 != f2:
                dm = ("map", [("k", "", ("s", f1, "")), ("z", "", ("s", "1", ""))], False)
                for mode in ("api", "cli"):
                    cases.append(mk(mode, wrap(mode, dm), [S(["k"], f2)]))
    # ---- exhaustive small family --------------------------------------------------------------------------
    def single_ops():
        for p in SMALL_PATHS:
            yield {"op": "rm", "path": path_text(p), "ipath": p}
            for v in SMALL_VALUES:
                yield {"op": "set", "path": path_text(p), "ipath": p, "value": v}
    singles = list(single_ops())
    for mode in ("api", "cli"):
        for d in SMALL_DOCS:
            for o in singles:
                cases.append(mk(mode, wrap(mode, d), [dict(o)]))
    red = [o for o in singles if o["ipath"] in (["a"], ["a", "x"], ["a", 0], ["a", 1], ["b", "c"], ["a", "b", "c"])
           and o.get("value", "5") in ("5", "{k: v}", "[1]", "{}")]
    pairs = [(x, y) for x in red for y in red]
    for mode in ("api", "cli"):
        for d in SMALL_DOCS[:4] + SMALL_DOCS[5:6]:
            ps = pairs if thorough else [rng.choice(pairs) for _ in range(60)]
            for x, y in ps:
                cases.append(mk(mode, wrap(mode, d), [dict(x), dict(y)], reparse=rng.chance(1, 2)))
    # ---- random stream ----------------------------------------------------------------------------------
    n = 40000 if thorough else 1000
    for _ in range(n):
        mode = "cli" if rng.chance(2, 5) else "api"
        ast = gen_doc(rng, mode)
        ops = gen_ops(rng, ast, mode, 1 + rng.below(6))
        cases.append(mk(mode, ast, ops, reparse=rng.chance(2, 3)))
    return cases


def prepare(c):
    return {"mode": c["mode"], "reparse": bool(c.get("reparse", True)), "doc": c["doc"],
            "ops": [{"op": o["op"], "path": o["path"], "value": o.get("value", ""), "secret": bool(o.get("secret"))}
                    for o in c["ops"]]}


# ---------------------------------------------------------------------------------------------------------
# wire
def sx(s):
    return C.sx(s if s is not None else "")


def wnode(n):
    if n is None:
        return "none"
    k, tag, st, v, hc, lc, fc, kids = n
    return "(n %d %s %d %s %s %s %s (%s))" % (k, sx(tag), st, sx(v), sx(hc), sx(lc), sx(fc),
                                              " ".join(wnode(x) for x in kids))


def wpath_intended(p):
    if p is None:
        return "none"
    return "(p%s)" % "".join(" (k %s)" % sx(a) if isinstance(a, str) else " (i %d)" % a for a in p)


def wpath_parsed(p):
    if p == "err" or p is None:
        return "none"
    out = []
    for kind, a in p:
        if kind == "k":
            out.append("(k %s)" % sx(a))
        elif kind == "i":
            out.append("(i %d)" % int(a))
        else:
            return None
    return "(p%s)" % "".join(" " + x for x in out)


STATUS = {"ok": "ok", "panic": "panic", "unparsable": "broken", "marshalfail": "broken", "docerr": "broken",
          "err:keyint": "keyint", "err:keystr": "keystr", "err:range": "range", "err:expected": "expected",
          "err:emptypath": "emptypath", "err:patherr": "patherr", "err:valerr": "valerr", "err:other": "other",
          "err:lookssecret": "other"}


def wget(g):
    if g is None:
        return "none"
    if g in ("missing", "panic"):
        return g
    if g == "unparsable":
        return "panic"
    return wnode(g)


def line(c, o):
    if "crash" in o or "panic" in o or o.get("docerr") or "steps" not in o:
        # the harness itself died on this case (fatal error): report it as a broken first step
        return "(c15 %s (n 0 x 0 x x x x ()) (n 0 x 0 x x x x ()) (((rm none none) panic (n 0 x 0 x x x x ()) none none)))" % c["mode"] \
            if not o.get("docerr") else None
    steps = []
    for op, s in zip(c["ops"], o["steps"]):
        pp = wpath_parsed(s.get("path"))
        if pp is None:
            return None
        ip = wpath_intended(op.get("ipath"))
        if op["op"] == "set":
            v0 = s.get("val0")
            wop = "(set %s %s %s %s %s)" % (ip, pp, "t" if op.get("secret") else "f", sx(op.get("value", "")),
                                           "none" if v0 in (None, "err") else wnode(v0))
        else:
            wop = "(rm %s %s)" % (ip, pp)
        st = STATUS.get(s.get("status"), "other")
        after = s.get("after")
        if after is None:
            after = [0, "", 0, "", "", "", "", []]
            st = "broken"
        steps.append("(%s %s %s %s %s)" % (wop, st, wnode(after), wget(s.get("get")), wget(s.get("cliget"))))
    if len(steps) < len(c["ops"]) and not steps:
        return None
    return "(c15 %s %s %s (%s))" % (c["mode"], wnode(o["doc0"]), wnode(o.get("doc0rt") or o["doc0"]), " ".join(steps))


# ---------------------------------------------------------------------------------------------------------
def shrink(c):
    ops = c["ops"]
    for i in range(len(ops)):
        if len(ops) > 1:
            yield mk(c["mode"], c.get("ast"), ops[:i] + ops[i + 1:], c.get("reparse", True))
    for i in range(len(ops)):
        if ops[i].get("secret"):
            o2 = dict(ops[i])
            o2.pop("secret")
            yield mk(c["mode"], c.get("ast"), ops[:i] + [o2] + ops[i + 1:], c.get("reparse", True))
    ast = c.get("ast")

    def smaller(n):
        if n is None or n[0] in ("s", "lit"):
            return
        if n[0] == "map":
            for i in range(len(n[1])):
                yield ("map", n[1][:i] + n[1][i + 1:], n[2])
            for i, (k, hc, v) in enumerate(n[1]):
                if hc:
                    yield ("map", n[1][:i] + [(k, "", v)] + n[1][i + 1:], n[2])
                for v2 in smaller(v):
                    yield ("map", n[1][:i] + [(k, hc, v2)] + n[1][i + 1:], n[2])
        else:
            for i in range(len(n[1])):
                yield ("seq", n[1][:i] + n[1][i + 1:], n[2])
            for i, v in enumerate(n[1]):
                for v2 in smaller(v):
                    yield ("seq", n[1][:i] + [v2] + n[1][i + 1:], n[2])
    for a2 in smaller(tup(ast)):
        yield mk(c["mode"], a2, ops, c.get("reparse", True))


def tup(n):
    """ASTs come back from JSON replays as lists"""
    if n is None:
        return None
    if n[0] == "s":
        return tuple(n)
    if n[0] == "lit":
        return ("lit", list(n[1]))
    if n[0] == "map":
        return ("map", [(k, tuple(hc) if isinstance(hc, list) else hc, tup(v)) for k, hc, v in n[1]], n[2])
    return ("seq", [tup(v) for v in n[1]], n[2])


def describe(c):
    return {"mode": c["mode"], "doc": c["doc"], "ops": [{k: v for k, v in o.items() if k != "ipath"} for o in c["ops"]]}


SECRET_TEXTS = ['"line1\\nline2\\n"', '"tok\\r\\n"', '"\\n"', '"a\\n\\n"', '" lead"', '"trail "', '"\\ttab"', '"$$5 ${x}"', '"x\\u2028y"',
                "|\n  block\n  text\n", "|-\n  stripped\n", "|+\n  kept\n\n", '"né"', '"-"', '"0"', '"null"', '"{a: 1}"', "''"]


def extra_checks(ctx):
    """`env set --secret <text>` then the backend's write-back (eval.EncryptSecrets) and opening with the matching decrypter:
    the opened value at that path is exactly the text, flagged secret (observed by the handler, step field `opened`)"""
    out = []
    for c, o in zip(ctx["cases"], ctx["res"]["obs"]):
        for i, st in enumerate(o.get("steps") or []):
            op = st.get("opened")
            if op is not None and (op.startswith("differs") or op == "panic"):
                out.append({"kind": "spec-violation-on-implementation", "concrete": True,
                            "case": {"mode": c.get("mode"), "doc": c.get("doc"), "ops": c["ops"][: i + 1]},
                            "what": "after `env set --secret` the stored definition, encrypted by eval.EncryptSecrets and opened "
                                    "with the matching decrypter, does not give back the text: " + op, "impl_obs": st})
                return out
    return out


def distribution(cases, r):
    d = {}
    for c, o in zip(cases, r["obs"]):
        if "steps" not in o:
            k = c["mode"] + ":harness-" + ("crash" if "crash" in o else "panic" if "panic" in o else "docerr")
            d[k] = d.get(k, 0) + 1
            continue
        for op, s in zip(c["ops"], o["steps"]):
            k = "%s:%s:%s" % (c["mode"], op["op"], s.get("status"))
            d[k] = d.get(k, 0) + 1
        d["cases:" + c["mode"]] = d.get("cases:" + c["mode"], 0) + 1
        d["ops_total"] = d.get("ops_total", 0) + len(o["steps"])
        if any("cliget" in s for s in o["steps"]):
            d["cli_get_commands"] = d.get("cli_get_commands", 0) + sum(1 for s in o["steps"] if "cliget" in s)
        if o.get("doc0rt") != o.get("doc0"):
            d["input_not_roundtrip_stable"] = d.get("input_not_roundtrip_stable", 0) + 1
    return d


def search(rng, info):
    """targeted search when an obligation or the correspondence is broken: the exhaustive family again plus
    quoted/literal scalars overwritten by non-strings and deletes through missing keys"""
    cases = []
    for mode in ("api", "cli"):
        for d in SMALL_DOCS:
            for p in SMALL_PATHS:
                cases.append(mk(mode, wrap(mode, d), [{"op": "rm", "path": path_text(p), "ipath": p}]))
                for v in ("5", "true", "abc", "{k: v}"):
                    cases.append(mk(mode, wrap(mode, d), [{"op": "set", "path": path_text(p), "ipath": p, "value": v}]))
    return cases
