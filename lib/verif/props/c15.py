"""C15 — path edits change exactly the addressed node (YAMLSyntax.Get/Set/Delete, env set / env rm / env get)."""
import json

from .. import common as C

ID = "C15"
SRC_FACTS = ["yamledit_set_fields", "yamledit_delete_empty", "yamledit_delete_missing", "yamledit_key_comment",
             "envrm_imports", "envrm_empty_guard", "envrm_values_root"]
COQ_SAMPLE = 40
BATCH = 100
RULE = ("regression corpus (the eight repaired defects in both modes, TestYAMLEdit-like edits, same-text replacements, the "
        "keys `values` / `imports` themselves carrying a line comment while the collection below them is emptied, "
        "replaced or edited, comment blocks of the document node); "
        "same-text family: 11 scalar texts (int, float, bool, null, ~, empty, date, string) x all ordered pairs of distinct "
        "presentations (plain, double/single quoted, !!str) as mapping value and sequence element, and all pairs over "
        "the spellings of null/empty, in both modes; exhaustive family: 7 small "
        "definitions x every single set/rm over 14 paths x 6 values, in both modes, plus all ordered pairs over a "
        "reduced alphabet (thorough) or a sample of them (quick); exhaustive family `comments`: one skeleton definition "
        "(imports, nested mappings, a sequence with a mapping element) x every node position (17: the document, every "
        "key incl. `imports` and `values`, every sequence element) x head / line / foot comment, plus one comment of a "
        "kind at every position, x 35 command sequences (set / rm of the commented node, its parent, children and "
        "siblings, and the sequences that empty a collection level by level up to `values` and `imports` themselves), "
        "CLI mode all, api mode all (thorough); quick: all for line comments and for the all-positions definitions, every "
        "second sequence for a single head / foot comment, a third of them also in api mode; exhaustive family `sizes`: mappings and sequences of "
        "1, 2, 3, 8, 64, 1000 entries x set / rm of the first, middle, last, absent, appended entry and of the whole "
        "collection, scalars of 0, 1, 80, 4096, 70000 bytes (plain and double-quoted) present in the definition and as "
        "the value set (also with --secret), in both modes; 7 definitions that are not YAML (the handler must say so); "
        "random stream: generated definitions (nested "
        "block/flow mappings and sequences, quoted/literal/plain scalars, quoted keys, head and line comments, also on "
        "the keys `values` and `imports`) with "
        "sequences of 1-6 set/rm over paths drawn from the definition's own paths, their extensions (new keys, "
        "append index, index gaps, negative indices, through scalars, wrong accessor kind, missing intermediates, "
        "empty path) and paths used earlier in the sequence; values: ints, floats, bools, nulls, plain/quoted/"
        "multi-line strings, flow and block collections, explicit tags, anchors, unparsable texts; malformed path "
        "texts; mode api = direct YAMLSyntax.Set/Delete on the document (in-memory across steps or re-parsed), "
        "mode cli = real `esc env set/rm` commands against a fake backend (with --secret on a third of the "
        "sets), each successful one followed by the real `esc env get --definition <path>` whose output is part of the "
        "specification oracle.  non-trivial = the input definition is well-formed and round-trips and at least one step "
        "changed the stored definition; distinct by case content")
ASSUMPTIONS = [
    "the stored definition is compared after yaml.v3 has written and re-read it: scalars by effective tag, value "
    "and line comment, collections by kind, line comment and children (a collection's own tag and flow/block style are "
    "presentation)",
    "head and foot comments are compared at the level of the text: the sequence of keys, scalars and non-empty comment "
    "lines of the definition in document order (Corr.C15.tokens).  yaml.v3 decides when it READS a text which node a "
    "free-standing comment belongs to (after the last entry of a nested collection: the innermost last key; after an "
    "empty `{}`: head comment of the next key; the blank line after a head comment is not written back), so the same "
    "text is read back with the comment on another node after an unrelated edit; the position of the comment lines "
    "among the keys and scalars does not depend on that choice",
    "definitions whose initial text yaml.v3 does not write back to an equal tree and token sequence or that "
    "are not well-formed (duplicate keys, non-scalar keys, aliases as containers) are outside the property "
    "(counted: input_not_roundtrip_stable); every command of the CLI and of the re-parsing api mode is compared with "
    "the model's step from the definition as it was stored and read back before that command",
    "a failed Set/Delete may leave created intermediates in the in-memory tree; the CLI discards the tree, and the "
    "api mode restarts from the stored text after a failed step",
    "the value-looks-like-a-secret heuristic (zxcvbn) is bypassed with --plaintext; the fake backend stores any "
    "text (the real service validates the definition and may refuse it, e.g. fn::secret of a non-string)",
    "`env get` is run only when the stored definition loads without diagnostics (it needs the checked environment); "
    "the --secret observation needs a definition that eval.EncryptSecrets accepts and that evaluates; both skips are "
    "counted per reason in the distribution, and in the dedicated families (must_open) a skip is a failure",
]
TRUSTED = ["yaml.v3 scanner/emitter and resource.ParsePropertyPath are not modelled: their results (parsed "
           "definition, parsed value, parsed path) are inputs of the model; the generator's intended path is "
           "compared with the parsed one"]


# ---------------------------------------------------------------------------------------------------------
# definitions: small AST rendered to YAML text
#   ("map", [(key, head_comment, node)], flow)   ("seq", [node], flow)   ("s", source_text, line_comment)
#   ("lit", [lines])  literal block scalar
def is_simple_key(k):
    return k != "" and all(ch.isalnum() or ch in "_-$:" for ch in k) and not k[0].isdigit() and \
        k not in ("true", "false", "null", "yes", "no", "on", "off", "y", "n") and not k.startswith("-") \
        and not k.endswith(":") and not k.startswith(":")


PLAIN_KEYS = ("7", "3.5", "no")     # written unquoted: keys whose tag is not !!str


def ykey(k):
    return k if is_simple_key(k) or k in PLAIN_KEYS else json.dumps(k, ensure_ascii=False)


def meta_parts(meta):
    """(head comment, line comment of the key, foot comment) of a mapping entry"""
    if isinstance(meta, (list, tuple)):
        return tuple(meta) + ("",) * (3 - len(meta))
    return (meta or "", "", "")


def flow(n):
    t = n[0]
    if t == "s":
        return n[1]
    if t == "map":
        return "{" + ", ".join("%s: %s" % (ykey(k), flow(v)) for k, _, v in n[1]) + "}"
    if t == "seq":
        return "[" + ", ".join(flow(v) for v in n[1]) + "]"
    if t == "lit":
        return json.dumps("\n".join(n[1]) + "\n")
    raise ValueError(t)


def block(n, ind):
    """lines of node n in block position at indentation ind (for a scalar: one line without indentation)"""
    t = n[0]
    pad = " " * ind
    if t == "s":
        return [n[1] + (" # " + n[2] if n[2] else "")]
    if t == "lit":
        return ["|"] + [pad + l for l in n[1]]
    if (t in ("map", "seq") and (n[2] or not n[1])):
        return [flow(n)]
    out = []
    if t == "map":
        for k, meta, v in n[1]:
            hc, klc, fc = meta_parts(meta)
            if hc:
                out.append(pad + "# " + hc)
            if v[0] in ("s",) or (v[0] in ("map", "seq") and (v[2] or not v[1])):
                out.append(pad + ykey(k) + ": " + block(v, ind + 2)[0])
            elif v[0] == "lit":
                b = block(v, ind + 2)
                out.append(pad + ykey(k) + ": " + b[0])
                out.extend(b[1:])
            else:
                out.append(pad + ykey(k) + ":" + (" # " + klc if klc else ""))
                out.extend(block(v, ind + 2))
            if fc:
                out.append(pad + "# " + fc)
                out.append("")
        return out
    for v in n[1]:
        if v[0] == "s" and len(v) > 3 and v[3]:
            out.append(pad + "# " + v[3])
        if v[0] == "s" or (v[0] in ("map", "seq") and (v[2] or not v[1])):
            out.append(pad + "- " + block(v, ind + 2)[0])
        elif v[0] == "lit":
            b = block(v, ind + 2)
            out.append(pad + "- " + b[0])
            out.extend(b[1:])
        else:
            b = block(v, ind + 2)
            out.append(pad + "- " + b[0][ind + 2:])
            out.extend(b[1:])
    return out


def render(n):
    if n is None:
        return ""
    if n[0] == "s":
        return block(n, 0)[0] + "\n"
    if n[0] == "lit":
        return "|\n" + "".join("  " + l + "\n" for l in n[1])
    return "\n".join(block(n, 0)) + "\n"


KEYS = ["a", "b", "c", "d", "name", "k.dot", "with space", "1", "true", "q[0]", "", "fn::secret", "hé", "x-y",
        "values", "imports", "7", "3.5", "no"]
SCALARS = ["1", "42", "-7", "0x1F", "1.5", "1e3", ".inf", "true", "false", "null", "~", "abc", "hello world",
           '"str"', '"123"', "'single'", "'it''s'", '"a\\nb"', '"true"', "''", '""', "héllo", "2001-12-14",
           "!!str 5", "$ {x}", "${a.b}"]
COMMENTS = ["c", "note", "keep me", "x: y", "TODO #1"]


def gen_node(rng, depth):
    r = rng.below(100)
    if depth <= 0 or r < 45:
        if rng.chance(1, 12):
            return ("lit", [rng.choice(["line one", "two", "x: 1", "# not a comment"])] +
                    [rng.choice(["line one", "two", "  indented", "x: 1"]) for _ in range(rng.below(3))])
        return ("s", rng.choice(SCALARS), rng.choice(COMMENTS) if rng.chance(1, 5) else "")
    if r < 80:
        n = rng.below(4)
        keys = rng.shuffle(KEYS)[:n]
        fl = rng.chance(1, 4)
        ents = []
        for k in keys:
            v = gen_node(rng, depth - 1)
            meta = ""
            if not fl:
                hc = rng.choice(COMMENTS) if rng.chance(1, 6) else ""
                klc = rng.choice(COMMENTS) if rng.chance(1, 8) else ""
                fc = ""     # no foot comments, see ASSUMPTIONS
                meta = (hc, klc, fc) if (klc or fc) else hc
            ents.append((k, meta, v))
        return ("map", ents, fl)
    n = rng.below(4)
    fl = rng.chance(1, 3)
    items = []
    for _ in range(n):
        v = gen_node(rng, depth - 1)
        if v[0] == "s" and not fl and rng.chance(1, 8):
            v = ("s", v[1], v[2], rng.choice(COMMENTS))
        items.append(v)
    return ("seq", items, fl)


def strip_flow(n):
    """inside a flow collection everything is flow and comment-free"""
    t = n[0]
    if t == "s":
        src = n[1] if not n[1].startswith("!!") else "5"
        if src[:1] not in "\"'" and any(ch in src for ch in "{}[],#"):
            src = json.dumps(src)
        return ("s", src, "")
    if t == "lit":
        return ("s", json.dumps("\n".join(n[1])), "")
    if t == "map":
        return ("map", [(k, "", strip_flow(v)) for k, _, v in n[1]], True)
    return ("seq", [strip_flow(v) for v in n[1]], True)


def fix_flow(n):
    t = n[0]
    if t in ("s", "lit"):
        return n
    if n[2]:
        return strip_flow(n)
    if t == "map":
        return ("map", [(k, hc, fix_flow(v)) for k, hc, v in n[1]], False)
    return ("seq", [fix_flow(v) for v in n[1]], False)


def gen_doc(rng, mode):
    depth = 1 + rng.below(3)
    body = fix_flow(gen_node(rng, depth))
    if body[0] != "map" and not rng.chance(1, 8):
        body = ("map", [(k, "", fix_flow(gen_node(rng, depth - 1))) for k in rng.shuffle(KEYS[:6])[:1 + rng.below(3)]],
                False)
    if mode == "api":
        if rng.chance(1, 25):
            return None
        return body
    r = rng.below(40)
    if r == 0:
        return None
    if r == 1:
        return body
    if r == 2:
        return ("map", [("values", "", ("s", rng.choice(["", "null", "5"]), ""))], False)
    ents = []

    def key_meta():
        # head and line comment of the keys `imports` / `values` themselves (the line comment is written only in front
        # of a non-empty block collection: "values: # comment")
        hc = rng.choice(COMMENTS) if rng.chance(1, 6) else ""
        klc = rng.choice(COMMENTS) if rng.chance(1, 4) else ""
        return (hc, klc, "") if klc else hc
    if rng.chance(1, 3):
        ents.append(("imports", key_meta(), ("seq", [("s", rng.choice(["base", "proj/e", "org/x@2"]), "") for _ in
                                                       range(rng.below(3))], False)))
    ents.append(("values", key_meta(), body))
    if rng.chance(1, 8):
        ents.append(("other", "", ("s", "1", "")))
    return ("map", ents, False)


# ---------------------------------------------------------------------------------------------------------
# paths
def ast_paths(n, acc=None, out=None):
    acc = acc or []
    if out is None:
        out = []
    out.append(list(acc))
    if n is None:
        return out
    if n[0] == "map":
        seen = set()
        for k, _, v in n[1]:
            if k in seen:
                continue
            seen.add(k)
            ast_paths(v, acc + [k], out)
    elif n[0] == "seq":
        for i, v in enumerate(n[1]):
            ast_paths(v, acc + [i], out)
    return out


def ast_get(n, p):
    for a in p:
        if n is None:
            return None
        if n[0] == "map" and isinstance(a, str):
            for k, _, v in n[1]:
                if k == a:
                    n = v
                    break
            else:
                return None
        elif n[0] == "seq" and isinstance(a, int) and 0 <= a < len(n[1]):
            n = n[1][a]
        else:
            return None
    return n


def path_text(p):
    s = ""
    for a in p:
        if isinstance(a, int):
            s += "[%d]" % a
        elif a != "" and all(ch not in a for ch in '.[]"\\') :
            s += ("." if s else "") + a
        else:
            s += '["%s"]' % a.replace('"', '\\"')
    return s


NEWKEYS = ["n1", "n2", "new.key", "a", "b", "z z", "9", ""]


def gen_path(rng, root, used, mode):
    """a path (list of str/int) relative to what the commands address (below `values` in cli mode)"""
    base = root
    if mode == "cli" and root is not None and root[0] == "map":
        if rng.chance(1, 12):
            imp = ast_get(root, ["imports"])
            n = len(imp[1]) if imp and imp[0] == "seq" else 0
            return ["imports", rng.choice([0, n, n, n + 1])] if rng.chance(3, 4) else ["imports"]
        base = ast_get(root, ["values"])
    pool = ast_paths(base) if base is not None else [[]]
    r = rng.below(100)
    if used and r < 22:
        p = list(rng.choice(used))
        if rng.chance(1, 3) and p:
            p = p[:-1]
        elif rng.chance(1, 3):
            p = p + [rng.choice(NEWKEYS + [0])]
        return p
    p = list(rng.choice(pool))
    if r < 45:
        if not p and rng.chance(9, 10):
            p = [rng.choice(NEWKEYS)]
        return p
    node = ast_get(base, p) if base is not None else None
    k = rng.below(10)
    if node is not None and node[0] == "seq":
        n = len(node[1])
        ext = rng.choice([n, n, n + 1, -1, n + 5, "k", 0])
    elif node is not None and node[0] == "map":
        ext = rng.choice(NEWKEYS + [0])
    else:
        ext = rng.choice(NEWKEYS + [0, 1])
    p = p + [ext]
    if k < 4:
        p = p + [rng.choice(NEWKEYS + [0, 0, 1])]
        if k < 1:
            p = p + [rng.choice(NEWKEYS + [0])]
    return p


VALUES = ["123", "-5", "0x1F", "1.5", "1e3", "true", "false", "null", "~", "", "abc", "hello world", '"quoted str"',
          "'single'", '"123"', '"true"', "{a: 1}", "{a: {b: [1, 2]}, c: x}", "[1, two, 3.0]", "[]", "{}",
          '"multi\\nline"', "!!str 5", '!!int "7"', "&anc x", "k: v", "- a\n- b", "a: 1\nb:\n  - x\n  - y",
          "# only a comment", "héllo", '"yes"', "'it''s'", "|\n  lit\n  eral", "hunter2", " 12 ", "5 # trailing",
          '{"fn::secret": s3cr3t}', "${a.b}", "!custom tagged", "0o17", "12345678901234567890", "2001-12-14"]
BADVALUES = ["*nope", "[1, 2", "{a: 1", "a: b: c", "\t- x", '"unterminated', "a: 1\n b: 2", "%YAML 9.9"]
BADPATHS = ["a[", 'a["x', ".a", "a.", "[x]", "a[1.5]", 'a["x"', "a[99999999999999999999]", "a..b", "a.[0]", "[*]",
            'a["q\\"r"]']


def gen_ops(rng, root, mode, nops):
    ops, used = [], []
    for _ in range(nops):
        if rng.chance(1, 40):
            t = rng.choice(BADPATHS)
            ops.append({"op": rng.choice(["set", "rm"]), "path": t, "ipath": None, "value": "1"})
            continue
        p = gen_path(rng, root, used, mode)
        used.append(p)
        if rng.chance(3, 5):
            v = rng.choice(BADVALUES) if rng.chance(1, 25) else rng.choice(VALUES)
            o = {"op": "set", "path": path_text(p), "ipath": p, "value": v}
            if mode == "cli" and rng.chance(1, 3):
                o["secret"] = True
            ops.append(o)
        else:
            ops.append({"op": "rm", "path": path_text(p), "ipath": p})
    return ops


def mk(mode, ast, ops, reparse=True):
    return {"mode": mode, "reparse": reparse, "ast": ast, "doc": render(ast), "ops": ops}


SMALL_DOCS = [
    ("map", [("a", "", ("s", "1", ""))], False),
    ("map", [("a", ("", "kc", ""), ("map", [("x", "", ("s", "1", ""))], False)), ("k", "keep", ("s", "v", "lc"))], False),
    ("map", [("a", "", ("seq", [("s", "1", ""), ("s", "2", "")], False))], False),
    ("map", [("a", "", ("s", '"s"', "c"))], False),
    None,
    ("map", [("a", "", ("map", [("b", "", ("map", [("c", "", ("s", "1", ""))], False))], False))], False),
    ("map", [("a", "", ("seq", [("map", [("x", "", ("s", "1", ""))], False), ("s", "t", "")], False)),
             ("b", "", ("s", "'q'", ""))], False),
]
SMALL_PATHS = [["a"], ["b"], ["a", "x"], ["a", "b", "c"], ["a", 0], ["a", 1], ["a", 2], ["a", -1], ["b", "c"], ["b", 0],
               ["a", "x", "y"], [], ["a", 0, "x"], ["a", 3]]
SMALL_VALUES = ["5", '"s"', "{k: v}", "[1]", "abc", "{}"]


# texts that resolve to a non-string type when plain: replacing one presentation by another changes the type
SAME_TEXTS = ["8080", "-7", "0x1F", "1.5", "true", "false", "null", "~", "abc", "2001-12-14", ""]


def wrap(mode, ast):
    if mode == "api" or ast is None:
        return ast
    return ("map", [("values", "", ast)], False)


def gen(rng, tier):
    thorough = tier == "thorough"
    cases = []
    # ---- regression corpus ------------------------------------------------------------------------------
    d1 = ("map", [("a", "", ("map", [("x", "", ("s", "1", ""))], False))], False)
    d2 = ("map", [("a", "", ("s", '"str"', "c")), ("l", "", ("lit", ["text"])), ("f", "", ("s", "'1'", ""))], False)
    for mode in ("api", "cli"):
        cases.append(mk(mode, wrap(mode, d1), [{"op": "rm", "path": "b.c", "ipath": ["b", "c"]}]))
        cases.append(mk(mode, wrap(mode, d1), [{"op": "rm", "path": "a.y.z", "ipath": ["a", "y", "z"]}]))
        cases.append(mk(mode, wrap(mode, d1), [{"op": "rm", "path": "", "ipath": []}]))
        cases.append(mk(mode, wrap(mode, d2), [{"op": "set", "path": "a", "ipath": ["a"], "value": "123"},
                                                {"op": "set", "path": "l", "ipath": ["l"], "value": "7"},
                                                {"op": "set", "path": "f", "ipath": ["f"], "value": "true"},
                                                {"op": "set", "path": "a", "ipath": ["a"], "value": "back"}]))
        cases.append(mk(mode, wrap(mode, d2), [{"op": "set", "path": "a", "ipath": ["a"], "value": "{x: [1]}"},
                                                {"op": "set", "path": "a.x[1]", "ipath": ["a", "x", 1], "value": "2"},
                                                {"op": "rm", "path": "a.x[0]", "ipath": ["a", "x", 0]},
                                                {"op": "rm", "path": "a", "ipath": ["a"]}]))
    # line comments: a scalar with a line comment replaced by a collection (also through --secret), the line
    # comment of a key whose collection is emptied / replaced, an explicitly tagged scalar replaced by ""
    d3 = ("map", [("pw", "", ("s", "hunter2", "rotate monthly")), ("user", "", ("s", "bob", ""))], False)
    d4 = ("map", [("aws", ("", "settings", ""), ("map", [("region", "", ("s", "us", ""))], False)),
                  ("l", ("", "list", ""), ("seq", [("s", "x", "")], False)), ("z", "", ("s", "1", ""))], False)
    d5 = ("map", [("a", "", ("s", "!!str 5", "keep me")), ("n1", "", ("s", "1", ""))], False)

    def S(p, v, **kw):
        return dict({"op": "set", "path": path_text(p), "ipath": p, "value": v}, **kw)

    def R(p):
        return {"op": "rm", "path": path_text(p), "ipath": p}
    for mode in ("api", "cli"):
        for rp in (True, False):
            cases.append(mk(mode, wrap(mode, d3), [S(["pw"], "{k: v}"), S(["pw"], "5")], rp))
            cases.append(mk(mode, wrap(mode, d3), [S(["pw"], "{}"), S(["pw", "k"], "v")], rp))
            cases.append(mk(mode, wrap(mode, d3), [S(["pw"], "[1, 2]"), R(["pw", 0]), R(["pw", 0]), S(["pw", 0], "x")], rp))
            cases.append(mk(mode, wrap(mode, d4), [R(["aws", "region"]), S(["aws", "k"], "v"), R(["aws", "k"])], rp))
            cases.append(mk(mode, wrap(mode, d4), [S(["aws"], "{}"), S(["aws", "k"], "v")], rp))
            cases.append(mk(mode, wrap(mode, d4), [R(["l", 0]), S(["l", 0], "y"), S(["l"], "5")], rp))
            cases.append(mk(mode, wrap(mode, d4), [S(["aws"], "5"), S(["aws"], "{a: 1}"), S(["l"], "[]")], rp))
            cases.append(mk(mode, wrap(mode, d5), [S(["a"], '""'), S(["a"], "x"), S(["a"], "!!str 7")], rp))
    cases.append(mk("cli", wrap("cli", d3), [S(["pw"], "newpw", secret=True), S(["user"], "12", secret=True)]))
    for t in SECRET_TEXTS + SECRET_NONSTR:
        cases.append(dict(mk("cli", wrap("cli", d3), [S(["pw"], t, secret=True), S(["fresh"], t, secret=True),
                                                       S(["l", 0], t, secret=True)]), must_open=True))
    cases.append(mk("cli", ("map", [("imports", "", ("seq", [("s", "base", "")], False)),
                                    ("values", "", ("map", [("a", "", ("s", "1", ""))], False))], False),
                    [S(["imports", 1], "more"), R(["imports", 0]), R(["imports", 0]), R(["imports", 0]), R(["imports"])]))
    # ---- definitions that lack one of the two top-level keys: `imports` paths are addressed from the root of the
    # definition, whether or not there is a `values` key (and the other way round) -- catches C15-k
    only_imports = ("map", [("imports", "", ("seq", [("s", "a", ""), ("s", "b", "")], False))], False)
    imports_other = ("map", [("imports", "", ("seq", [("s", "a", ""), ("s", "b", "")], False)),
                             ("other", "", ("s", "1", ""))], False)
    only_values = ("map", [("values", "", ("map", [("a", "", ("s", "1", "")), ("l", "", ("seq", [("s", "x", "")], False))],
                                          False))], False)
    for d in (only_imports, imports_other):
        for ops in ([R(["imports", 0])], [R(["imports", 1])], [R(["imports", 0]), R(["imports", 0])], [R(["imports"])],
                    [S(["imports", 2], "c"), R(["imports", 0])], [R(["a"])], [R(["a", "b"])],
                    [S(["a"], "1"), R(["imports", 0]), R(["a"])], [R(["imports", 5])]):
            cases.append(mk("cli", d, ops))
    for ops in ([R(["imports", 0])], [R(["imports"])], [S(["imports", 0], "base"), R(["a"]), R(["imports", 0])],
                [R(["a"]), R(["l", 0]), R(["l"]), R(["imports"])]):
        cases.append(mk("cli", only_values, ops))
    cases.append(mk("cli", None, [{"op": "set", "path": "a.b", "ipath": ["a", "b"], "value": "x"},
                                  {"op": "set", "path": "pw", "ipath": ["pw"], "value": "hunter2", "secret": True},
                                  {"op": "set", "path": "n", "ipath": ["n"], "value": "12", "secret": True},
                                  {"op": "set", "path": "imports[0]", "ipath": ["imports", 0], "value": "base"},
                                  {"op": "rm", "path": "a.b", "ipath": ["a", "b"]}]))
    # ---- same text, other type or style: a scalar replaced by a scalar whose text is identical ---------------
    # regression corpus: the seeded early return "both scalars with the same text" (port: 8080 / set port '"8080"')
    for mode in ("api", "cli"):
        for src, val in (("8080", '"8080"'), ('"8080"', "8080"), ("true", '"true"'), ("null", '"null"'),
                         ("null", ""), ("", '"null"'), ('"abc"', "abc")):
            d = ("map", [("port", "", ("s", src, "keep")), ("z", "", ("s", "1", ""))], False)
            cases.append(mk(mode, wrap(mode, d), [S(["port"], val), S(["port"], src if src else "~")]))
    # exhaustive: every scalar class (int, float, bool, null, ~, empty, string) x every ordered pair of distinct
    # presentations (plain, "double", 'single', explicit !!str tag) of the same text, as a mapping value and as a
    # sequence element, in both modes
    for text in SAME_TEXTS:
        forms = [text, '"%s"' % text, "'%s'" % text] + (["!!str " + text] if text else [])
        for f1 in forms:
            for f2 in forms:
                if f1 == f2:
                    continue
                dm = ("map", [("k", "", ("s", f1, "")), ("z", "", ("s", "1", ""))], False)
                dq = ("map", [("l", "", ("seq", [("s", "0", ""), ("s", f1 if f1 else '""', "")], False))], False)
                for mode in ("api", "cli"):
                    cases.append(mk(mode, wrap(mode, dm), [S(["k"], f2)], reparse=(len(cases) % 2 == 0)))
                    if f1:
                        cases.append(mk(mode, wrap(mode, dq), [S(["l", 1], f2)]))
    # the values a key without a value can be given back and forth: k: / k: null / k: ~ / k: "" and set '' / null / ~
    for f1 in ("", "null", "~", '""', "''", '"null"', '"~"'):
        for f2 in ("", "null", "~", '""', "''", '"null"', '"~"'):
            if f1 != f2:
                dm = ("map", [("k", "", ("s", f1, "")), ("z", "", ("s", "1", ""))], False)
                for mode in ("api", "cli"):
                    cases.append(mk(mode, wrap(mode, dm), [S(["k"], f2)]))
    # ---- exhaustive small family --------------------------------------------------------------------------
    def single_ops():
        for p in SMALL_PATHS:
            yield {"op": "rm", "path": path_text(p), "ipath": p}
            for v in SMALL_VALUES:
                yield {"op": "set", "path": path_text(p), "ipath": p, "value": v}
    singles = list(single_ops())
    for mode in ("api", "cli"):
        for d in SMALL_DOCS:
            for o in singles:
                cases.append(mk(mode, wrap(mode, d), [dict(o)]))
    red = [o for o in singles if o["ipath"] in (["a"], ["a", "x"], ["a", 0], ["a", 1], ["b", "c"], ["a", "b", "c"])
           and o.get("value", "5") in ("5", "{k: v}", "[1]", "{}")]
    pairs = [(x, y) for x in red for y in red]
    for mode in ("api", "cli"):
        for d in SMALL_DOCS[:4] + SMALL_DOCS[5:6]:
            ps = pairs if thorough else [rng.choice(pairs) for _ in range(60)]
            for x, y in ps:
                cases.append(mk(mode, wrap(mode, d), [dict(x), dict(y)], reparse=rng.chance(1, 2)))
    cases.extend(values_key_family())
    cases.extend(comment_family(rng, thorough))
    for label, text, opss in KEYLINE_DOCS:
        for k, ops in enumerate(opss):
            for mode in ("cli", "api"):
                cases.append({"mode": mode, "reparse": (k % 2 == 0), "ast": None, "doc": text, "family": "keyline:" + label,
                              "ops": [dict(o) for o in (ops if mode == "cli" else api_ops(ops))]})
    cases.extend(size_family(rng, thorough))
    cases.extend(malformed_doc_family())
    # ---- random stream ----------------------------------------------------------------------------------
    n = 40000 if thorough else 1000
    for _ in range(n):
        mode = "cli" if rng.chance(2, 5) else "api"
        ast = gen_doc(rng, mode)
        ops = gen_ops(rng, ast, mode, 1 + rng.below(6))
        cases.append(mk(mode, ast, ops, reparse=rng.chance(2, 3)))
    return cases



# ---------------------------------------------------------------------------------------------------------
# exhaustive family "comments": one skeleton definition; for every node position (every key and every sequence
# element, the keys `imports` and `values` included) and every kind of comment (head, line, foot) the definition with
# that one comment, plus the definition with a comment at every position of one kind; on each of them single
# commands on the commented node, its parent, its children and siblings, and the sequences that empty a collection
# (its key's line comment then has nowhere to stay).  Both modes: the api mode runs the same paths from the root.
#   skeleton node: ("map", [(id, key, child)]) | ("seq", [(id, child)]) | ("s", text)
SKEL = ("map", [
    ("I", "imports", ("seq", [("I0", ("s", "base")), ("I1", ("s", "more"))])),
    ("V", "values", ("map", [
        ("A", "a", ("map", [
            ("B", "b", ("map", [("C", "c", ("s", "1")), ("D", "d", ("s", "two"))])),
            ("E", "e", ("s", "x"))])),
        ("L", "l", ("seq", [("L0", ("s", "p")), ("L1", ("map", [("Q", "q", ("s", "1")), ("R", "r", ("s", "2"))]))])),
        ("Z", "z", ("s", "last"))])),
    ("O", "other", ("s", "1"))])
SKEL_IDS = ["DOC", "I", "I0", "I1", "V", "A", "B", "C", "D", "E", "L", "L0", "L1", "Q", "R", "Z", "O"]


def skel_lines(n, ind, cm):
    pad = " " * ind
    out = []
    if n[0] == "map":
        for i, key, ch in n[1]:
            hc, lc, fc = cm.get(i, ("", "", ""))
            if hc:
                out.append(pad + "# " + hc)
            tail = " # " + lc if lc else ""
            if ch[0] == "s":
                out.append(pad + key + ": " + ch[1] + tail)
            else:
                out.append(pad + key + ":" + tail)
                out.extend(skel_lines(ch, ind + 2, cm))
            if fc:
                out.append(pad + "# " + fc)
                out.append("")
        return out
    for i, ch in n[1]:
        hc, lc, fc = cm.get(i, ("", "", ""))
        if hc:
            out.append(pad + "# " + hc)
        if ch[0] == "s":
            out.append(pad + "- " + ch[1] + (" # " + lc if lc else ""))
        else:
            b = skel_lines(ch, ind + 2, cm)
            out.append(pad + "- " + b[0][ind + 2:])
            out.extend(b[1:])
        if fc:
            out.append(pad + "# " + fc)
            out.append("")
    return out


def skel_text(cm):
    """position DOC: the comment block at the top of the text (head: a blank line separates it from the first key, so
    that yaml.v3 attaches it to the document) / at its end (foot)"""
    t = "\n".join(skel_lines(SKEL, 0, cm)) + "\n"
    hc, _, fc = cm.get("DOC", ("", "", ""))
    if hc:
        t = "# " + hc + "\n\n" + t
    if fc:
        t = t + "\n# " + fc + "\n"
    return t


def _S(p, v, **kw):
    return dict({"op": "set", "path": path_text(p), "ipath": p, "value": v}, **kw)


def _R(p):
    return {"op": "rm", "path": path_text(p), "ipath": p}


# command sequences, as paths of the CLI (below `values`, or `imports...`)
SKEL_OPS = [
    [_S(["a", "b", "c"], "9")], [_S(["a", "b", "c"], "{k: v}")], [_S(["a", "b"], "{}")], [_S(["a", "b"], "5")],
    [_S(["a", "b", "n"], "new")], [_S(["a"], "[1, 2]")], [_S(["a", "e"], "[]")], [_S(["n1", "n2"], "v")],
    [_R(["a", "b", "c"])], [_R(["a", "b", "d"])], [_R(["a", "b"])], [_R(["a", "e"])], [_R(["a"])], [_R(["a", "zz"])],
    [_S(["l", 0], "x")], [_S(["l", 2], "y")], [_S(["l", 1, "q"], "7")], [_R(["l", 0])], [_R(["l", 1])],
    [_R(["l", 1, "q"])], [_R(["l"])], [_R(["z"])], [_S(["z"], "{k: [1]}")], [_S(["z"], '"s"')],
    # emptying a collection step by step: b, l, the element l[1], a, and `values` / `imports` themselves
    [_R(["a", "b", "c"]), _R(["a", "b", "d"]), _S(["a", "b", "k"], "v")],
    [_R(["l", 0]), _R(["l", 0]), _S(["l", 0], "again")],
    [_R(["l", 1, "q"]), _R(["l", 1, "r"])],
    [_R(["a", "b"]), _R(["a", "e"])],
    [_R(["a"]), _R(["l"]), _R(["z"]), _S(["back"], "1")],
    [_R(["z"]), _R(["l"]), _R(["a"])],
    [_S(["imports", 0], "other")], [_S(["imports", 2], "third")], [_R(["imports", 1])],
    [_R(["imports", 0]), _R(["imports", 0]), _S(["imports", 0], "again")],
    [_R(["imports"])],
]


def api_ops(ops):
    """the same commands as direct Set / Delete calls from the root of the definition"""
    out = []
    for o in ops:
        p = o["ipath"]
        fp = p if p and p[0] == "imports" else ["values"] + p
        o2 = dict(o)
        o2.pop("secret", None)      # --secret is an option of the command
        o2["ipath"] = fp
        o2["path"] = path_text(fp)
        out.append(o2)
    return out


# a key's LINE comment whose collection value starts on the FOLLOWING line - flow or block, sequence or mapping, also
# empty - with a sibling after it: a command addressed below that key must leave the comment with the key and the sibling
# untouched (seeded change C15-n: the comment moved to the next entry for flow values).  Only commands BELOW the commented
# key: a command on a sibling goes through yaml.v3's writer without esc's fix-up, and yaml.v3 alone moves such a comment to
# the next entry (observation, DESIGN §8)
KEYLINE_DOCS = [
    ("flow-seq", "values:\n  a: # note\n    [1, 2]\n  b: x\n", [[_S(["a", 0], "5")], [_R(["a", 1])], [_S(["a", 2], "3")]]),
    ("flow-map", "values:\n  a: # note\n    {k: 1, j: 2}\n  b: x\n", [[_S(["a", "k"], "5")], [_R(["a", "j"])], [_S(["a", "n"], "3")]]),
    ("block-seq", "values:\n  a: # note\n    - 1\n    - 2\n  b: x\n", [[_S(["a", 0], "5")], [_R(["a", 1])], [_R(["a", 0]), _R(["a", 0])]]),
    ("block-map", "values:\n  a: # note\n    k: 1\n    j: 2\n  b: x\n", [[_S(["a", "k"], "5")], [_R(["a", "j"])], [_R(["a", "k"]), _R(["a", "j"])]]),
    ("flow-nested", "values:\n  o:\n    a: # note\n      [1, {k: v}]\n    b: x\n  z: 1\n", [[_S(["o", "a", 0], "5")], [_S(["o", "a", 1, "k"], "w")]]),
    ("flow-last", "values:\n  b: x\n  a: # note\n    [1, 2]\n", [[_S(["a", 0], "5")], [_R(["a", 0])]]),
]


def comment_family(rng, thorough):
    docs = [({}, "none")]
    for kind, slot in (("head", 0), ("line", 1), ("foot", 2)):
        for i in SKEL_IDS:
            if i == "DOC" and kind == "line":
                continue
            cm = {i: tuple("c-" + i if j == slot else "" for j in range(3))}
            docs.append((cm, "%s:%s" % (kind, i)))
        docs.append(({i: tuple(kind + " " + i if j == slot else "" for j in range(3)) for i in SKEL_IDS}, kind + ":all"))
    docs.append(({i: ("h " + i, "l " + i, "") for i in SKEL_IDS}, "head+line:all"))
    cases = []
    for di, (cm, label) in enumerate(docs):
        text = skel_text(cm)
        for k, ops in enumerate(SKEL_OPS):
            for mode in ("cli", "api"):
                if not thorough and mode == "api" and (k + len(label)) % 3 != 0:
                    continue        # quick: every third command sequence also as direct calls
                if not thorough and not label.startswith("line") and ":all" not in label and (k + di) % 2 != 0:
                    continue        # quick: for a single head / foot comment every second command sequence
                c = {"mode": mode, "reparse": (k % 2 == 0), "ast": None, "doc": text, "family": "comments:" + label,
                     "ops": [dict(o) for o in (ops if mode == "cli" else api_ops(ops))]}
                cases.append(c)
    return cases


def values_key_family():
    """regression corpus of the seventh repair: the keys `values` / `imports` themselves carry a line comment and
    the collection below them is emptied, replaced, or edited"""
    cases = []
    docs = ["values: # c\n  a: 1\n", "values: # c\n  - 1\n", "# head\nvalues: # c\n  a: 1\nother: 1\n",
            "# licence\n# two lines\n\nvalues: # c\n  a: 1\n\n# trailer\n",
            "imports: # c\n  - base\nvalues: # v\n  a:\n    b: 1\n", "imports: # c\n  - base\nvalues: {}\n",
            "values: # c\n  a: 1\n  b: 2\n"]
    seqs = [[_R(["a"])], [_R([0])], [_R(["a"]), _S(["n"], "1")], [_S(["a"], "2")], [_S(["b"], "{}")], [_R(["a", "b"])],
            [_R(["a", "b"]), _R(["a"])], [_R(["imports", 0])], [_R(["imports", 0]), _S(["imports", 0], "x")],
            [_S(["a"], "x", secret=True), _R(["a"])], [_R(["b"]), _R(["a"]), _S(["c", 0], "v")], [_R([])], [_R(["zz"])]]
    for d in docs:
        for ops in seqs:
            cases.append({"mode": "cli", "reparse": True, "ast": None, "doc": d, "family": "values-key",
                          "ops": [dict(o) for o in ops]})
            cases.append({"mode": "api", "reparse": True, "ast": None, "doc": d, "family": "values-key",
                          "ops": [dict(o) for o in api_ops(ops)]})
    return cases


# ---------------------------------------------------------------------------------------------------------
# exhaustive family "sizes": mappings and sequences of 1, 2, 3, 8, 64 and 1000 entries, scalars of 0, 1, 80 (the
# width at which yaml.v3 folds lines), 4096 and 70000 bytes (present in the definition, and as the value set)
SIZE_COUNTS = [1, 2, 3, 8, 64, 1000]
SIZE_SCALARS = [0, 1, 80, 4096, 70000]


def sized_text(n, quoted=False):
    """n bytes of words separated by single spaces (so that the emitter has somewhere to fold)"""
    if n == 0:
        return '""'
    words = []
    total = 0
    i = 0
    while total < n:
        w = "w%d" % i + "abcdefghij"[: (i * 7) % 9]
        words.append(w)
        total += len(w) + 1
        i += 1
    t = " ".join(words)[:n]
    if t.endswith(" "):
        t = t[:-1] + "x"
    return '"%s"' % t if quoted else t


def size_family(rng, thorough):
    cases = []
    for n in SIZE_COUNTS:
        m = ("map", [("k%d" % i, "", ("s", str(i), "")) for i in range(n)], False)
        q = ("seq", [("s", "e%d" % i, "") for i in range(n)], False)
        dm = ("map", [("m", "", m), ("tail", "", ("s", "t", ""))], False)
        dq = ("map", [("q", "", q), ("tail", "", ("s", "t", ""))], False)
        mid = n // 2
        mops = [[_S(["m", "k0"], "x")], [_S(["m", "k%d" % (n - 1)], "{a: 1}")], [_S(["m", "k%d" % mid], "y")],
                [_S(["m", "new"], "v")], [_R(["m", "k0"])], [_R(["m", "k%d" % (n - 1)])], [_R(["m", "k%d" % mid])],
                [_R(["m", "absent"])], [_R(["m"])], [_S(["m"], "5")],
                [_R(["m", "k%d" % i]) for i in range(min(n, 3))] + [_S(["m", "k0"], "back")]]
        qops = [[_S(["q", 0], "x")], [_S(["q", n - 1], "[1]")], [_S(["q", n], "app")], [_S(["q", n + 1], "gap")],
                [_R(["q", 0])], [_R(["q", n - 1])], [_R(["q", mid])], [_R(["q", n])], [_R(["q"])],
                [_R(["q", 0]) for _ in range(min(n, 3))] + [_S(["q", 0], "back")]]
        if n == 1000 and not thorough:
            # quick: the last / new / middle / absent entry and the whole collection
            mops = [mops[1], mops[3], mops[6], mops[7], mops[8]]
            qops = [qops[1], qops[2], qops[6], qops[7], qops[8]]
        for mode in ("api", "cli"):
            if n == 1000 and not thorough and mode == "api":
                continue
            for ops in mops:
                cases.append(dict(mk(mode, wrap(mode, dm), [dict(o) for o in ops]), family="sizes:map%d" % n))
            for ops in qops:
                cases.append(dict(mk(mode, wrap(mode, dq), [dict(o) for o in ops]), family="sizes:seq%d" % n))
    for n in SIZE_SCALARS:
        for quoted in (False, True):
            if n == 0 and not quoted:
                continue
            t = sized_text(n, quoted)
            d = ("map", [("big", "", ("s", t, "")), ("z", "", ("s", "1", "keep"))], False)
            small = ("map", [("big", "", ("s", "old", "lc")), ("z", "", ("s", "1", "keep"))], False)
            huge = n >= 70000 and not thorough      # quick: a 70000-byte scalar travels ten times in every wire line
            if huge and quoted:
                continue
            for mode in ("api", "cli"):
                if huge and mode == "api":
                    continue
                for ops in ([_S(["z"], "2")], [_S(["big"], "7")], [_R(["big"])], [_S(["n"], t)], [_R(["z"])]):
                    if huge and ops[0]["op"] == "rm":
                        continue
                    cases.append(dict(mk(mode, wrap(mode, d), [dict(o) for o in ops]), family="sizes:scalar%d" % n))
                cases.append(dict(mk(mode, wrap(mode, small), [_S(["big"], t), _S(["z"], "2"), _R(["z"])]),
                                  family="sizes:scalar%d" % n))
                cases.append(dict(mk(mode, wrap(mode, small), [_S(["l", 0], t), _S(["l", 1], t), _R(["l", 0])]),
                                  family="sizes:scalar%d" % n))
            cases.append(dict(mk("cli", wrap("cli", small), [_S(["big"], t, secret=True), _S(["fresh"], t, secret=True)]),
                              family="sizes:scalar%d" % n, must_open=True))
    return cases


# definitions that are not YAML: the handler reports `docerr`; the check counts them and fails on any OTHER docerr
MALFORMED_DOCS = ["values: [1, 2\n", "values:\n\t- x\n", "values: {a: 1\n", "a: b: c\n", "values: \"open\n",
                  "values:\n  a: 1\n b: 2\n", "values: *nope\n"]


def malformed_doc_family():
    return [{"mode": mode, "reparse": True, "ast": None, "doc": d, "family": "malformed-doc", "malformed_doc": True,
             "ops": [_S(["a"], "1"), _R(["a"])]} for d in MALFORMED_DOCS for mode in ("api", "cli")]


def prepare(c):
    return {"mode": c["mode"], "reparse": bool(c.get("reparse", True)), "doc": c["doc"],
            "ops": [{"op": o["op"], "path": o["path"], "value": o.get("value", ""), "secret": bool(o.get("secret"))}
                    for o in c["ops"]]}


# ---------------------------------------------------------------------------------------------------------
# wire
def sx(s):
    return C.sx(s if s is not None else "")


def wnode(n):
    if n is None:
        return "none"
    k, tag, st, v, hc, lc, fc, kids = n
    return "(n %d %s %d %s %s %s %s (%s))" % (k, sx(tag), st, sx(v), sx(hc), sx(lc), sx(fc),
                                              " ".join(wnode(x) for x in kids))


def wpath_intended(p):
    if p is None:
        return "none"
    return "(p%s)" % "".join(" (k %s)" % sx(a) if isinstance(a, str) else " (i %d)" % a for a in p)


def wpath_parsed(p):
    if p == "err" or p is None:
        return "none"
    out = []
    for kind, a in p:
        if kind == "k":
            out.append("(k %s)" % sx(a))
        elif kind == "i":
            out.append("(i %d)" % int(a))
        else:
            return None
    return "(p%s)" % "".join(" " + x for x in out)


STATUS = {"ok": "ok", "panic": "panic", "unparsable": "broken", "marshalfail": "broken", "docerr": "broken",
          "err:keyint": "keyint", "err:keystr": "keystr", "err:range": "range", "err:expected": "expected",
          "err:emptypath": "emptypath", "err:patherr": "patherr", "err:valerr": "valerr", "err:other": "other",
          "err:lookssecret": "other"}


def wget(g):
    if g is None:
        return "none"
    if g in ("missing", "panic"):
        return g
    if g in ("unparsable", "failed"):
        return "panic"
    return wnode(g)


def line(c, o):
    if "crash" in o or "panic" in o or o.get("docerr") or "steps" not in o:
        # the harness itself died on this case (fatal error): report it as a broken first step
        return "(c15 %s (n 0 x 0 x x x x ()) (n 0 x 0 x x x x ()) (((rm none none) panic (n 0 x 0 x x x x ()) none none)))" % c["mode"] \
            if not o.get("docerr") else None
    steps = []
    for op, s in zip(c["ops"], o["steps"]):
        pp = wpath_parsed(s.get("path"))
        if pp is None:
            return None
        ip = wpath_intended(op.get("ipath"))
        if op["op"] == "set":
            v0 = s.get("val0")
            wop = "(set %s %s %s %s %s)" % (ip, pp, "t" if op.get("secret") else "f", sx(op.get("value", "")),
                                           "none" if v0 in (None, "err") else wnode(v0))
        else:
            wop = "(rm %s %s)" % (ip, pp)
        st = STATUS.get(s.get("status"), "other")
        after = s.get("after")
        if after is None:
            after = [0, "", 0, "", "", "", "", []]
            st = "broken"
        steps.append("(%s %s %s %s %s)" % (wop, st, wnode(after), wget(s.get("get")), wget(s.get("cliget"))))
    if len(steps) < len(c["ops"]) and not steps:
        return None
    wmode = c["mode"] if c["mode"] != "api" or c.get("reparse", True) else "apimem"
    rt = o.get("doc0rt") or o["doc0"]
    if str(c.get("family", "")).startswith("keyline:"):
        # These documents are ones yaml.v3 ALONE does not write back (it moves the key's line comment to the next entry);
        # esc's own fix-up (fixKeyComment, modelled: source fact fixes_key_line_comment) is what keeps the comment with its
        # key, so they are judged although the generic domain guard (Corr/C15.v `stable`) would set them aside.
        rt = o["doc0"]
    return "(c15 %s %s %s (%s))" % (wmode, wnode(o["doc0"]), wnode(rt), " ".join(steps))


# ---------------------------------------------------------------------------------------------------------
def with_ops(c, ops):
    """a case with other operations (keeps the text of hand-written definitions and the family marks)"""
    c2 = {k: v for k, v in c.items() if k != "id"}
    c2["ops"] = ops
    return c2


def shrink(c):
    ops = c["ops"]
    if c.get("ast") is None and c.get("doc"):
        # a definition given as text: drop operations, the secret flag, then single lines of the text
        for i in range(len(ops)):
            if len(ops) > 1:
                yield with_ops(c, ops[:i] + ops[i + 1:])
        lines = c["doc"].split("\n")
        for i in range(len(lines)):
            c2 = with_ops(c, ops)
            c2["doc"] = "\n".join(lines[:i] + lines[i + 1:])
            if c2["doc"].strip():
                yield c2
        return
    for i in range(len(ops)):
        if len(ops) > 1:
            yield mk(c["mode"], c.get("ast"), ops[:i] + ops[i + 1:], c.get("reparse", True))
    for i in range(len(ops)):
        if ops[i].get("secret"):
            o2 = dict(ops[i])
            o2.pop("secret")
            yield mk(c["mode"], c.get("ast"), ops[:i] + [o2] + ops[i + 1:], c.get("reparse", True))
    ast = c.get("ast")

    def smaller(n):
        if n is None or n[0] in ("s", "lit"):
            return
        if n[0] == "map":
            for i in range(len(n[1])):
                yield ("map", n[1][:i] + n[1][i + 1:], n[2])
            for i, (k, hc, v) in enumerate(n[1]):
                if hc:
                    yield ("map", n[1][:i] + [(k, "", v)] + n[1][i + 1:], n[2])
                for v2 in smaller(v):
                    yield ("map", n[1][:i] + [(k, hc, v2)] + n[1][i + 1:], n[2])
        else:
            for i in range(len(n[1])):
                yield ("seq", n[1][:i] + n[1][i + 1:], n[2])
            for i, v in enumerate(n[1]):
                for v2 in smaller(v):
                    yield ("seq", n[1][:i] + [v2] + n[1][i + 1:], n[2])
    for a2 in smaller(tup(ast)):
        yield mk(c["mode"], a2, ops, c.get("reparse", True))


def tup(n):
    """ASTs come back from JSON replays as lists"""
    if n is None:
        return None
    if n[0] == "s":
        return tuple(n)
    if n[0] == "lit":
        return ("lit", list(n[1]))
    if n[0] == "map":
        return ("map", [(k, tuple(hc) if isinstance(hc, list) else hc, tup(v)) for k, hc, v in n[1]], n[2])
    return ("seq", [tup(v) for v in n[1]], n[2])


def describe(c):
    return {"mode": c["mode"], "doc": c["doc"], "ops": [{k: v for k, v in o.items() if k != "ipath"} for o in c["ops"]]}


SECRET_TEXTS = ['"line1\\nline2\\n"', '"tok\\r\\n"', '"\\n"', '"a\\n\\n"', '" lead"', '"trail "', '"\\ttab"', '"$$5 ${x}"', '"x\\u2028y"',
                "|\n  block\n  text\n", "|-\n  stripped\n", "|+\n  kept\n\n", '"né"', '"-"', '"0"', '"null"', '"{a: 1}"', "''"]


# texts that do not denote a string: with --secret the command stores the command-line text itself
SECRET_NONSTR = ["12", "-5", "0x1F", "1.5", "1e3", "true", "null", "~", " 12 ", "5 # trailing", "!!int \"7\"", "!custom t",
                 "2001-12-14", "12345678901234567890", ".inf", "0o17", "!!str 5", "&anc x"]


def extra_checks(ctx):
    """(1) `env set --secret <text>` then the backend's write-back (eval.EncryptSecrets) and opening with the matching
    decrypter: the opened value at that path is exactly the text (the value itself if it denotes a string, otherwise the
    command-line text), flagged secret (observed by the handler, step field `opened`).  In the dedicated families
    (`must_open`) every such step has to be observed: a skipped observation is a failure there.
    (2) a definition that the handler reports as `docerr` (yaml.v3 refused the text): only the family of malformed
    definitions may do that, and only if a second decode of the same text refuses it too."""
    out = []
    for c, o in zip(ctx["cases"], ctx["res"]["obs"]):
        if o.get("docerr"):
            if not c.get("malformed_doc") or o.get("generic_ok"):
                out.append({"kind": "definition-refused-by-the-harness", "concrete": False,
                            "case": {"mode": c.get("mode"), "doc": c.get("doc")},
                            "what": "the handler reported docerr (%s) for a definition the generator meant to be valid YAML"
                                    " (or that a second decode accepts): the case was not judged" % o.get("docerr_text")})
                return out
            continue
        if c.get("malformed_doc"):
            out.append({"kind": "definition-refused-by-the-harness", "concrete": False,
                        "case": {"mode": c.get("mode"), "doc": c.get("doc")},
                        "what": "a definition of the malformed family was accepted by yaml.v3: the family no longer tests "
                                "what it is meant to"})
            return out
        for i, st in enumerate(o.get("steps") or []):
            op = st.get("opened")
            if op is None:
                continue
            bad = op.startswith("differs") or op == "panic" or op == "nonscalar:panic"
            if c.get("must_open") and op != "same" and not op.startswith("nonscalar:"):
                bad = True
            if bad:
                out.append({"kind": "spec-violation-on-implementation", "concrete": True,
                            "case": {"mode": c.get("mode"), "doc": c.get("doc"), "ops": c["ops"][: i + 1]},
                            "what": "after `env set --secret` the stored definition, encrypted by eval.EncryptSecrets and opened "
                                    "with the matching decrypter, does not give back the text: " + op, "impl_obs": st})
                return out
    return out


# the comparison of Corr.C15.same_full, again, only to COUNT the inputs the check treats as outside the domain
def _eff_tag(tag, st):
    return "!!str" if (st & 1) == 0 and (st & 30) != 0 else tag


def _norm(n):
    k, tag, st, v, hc, lc, fc, kids = n
    if k == 8:
        return (8, _eff_tag(tag, st), v, lc)
    if k in (1, 2, 4):
        return (k, lc, tuple(_norm(x) for x in kids))
    return (k,)


def _cm(t):
    return [("C", l) for l in t.split("\n") if l]


def _tokens(n):
    k, tag, st, v, hc, lc, fc, kids = n
    out = _cm(hc)
    if k in (8, 16):
        out.append(("K", v))
    elif k == 4:
        for i in range(0, len(kids) - 1, 2):
            kn, vn = kids[i], kids[i + 1]
            out += _cm(kn[4]) + [("K", kn[3])] + _tokens(vn) + _cm(kn[6])
    elif k in (1, 2):
        for x in kids:
            out += _tokens(x)
    return out + _cm(fc)


def same_full(a, b):
    return _norm(a) == _norm(b) and _tokens(a) == _tokens(b)


def distribution(cases, r):
    d = {}
    for c, o in zip(cases, r["obs"]):
        fam = (c.get("family") or "other").split(":")[0]
        d["family:" + fam] = d.get("family:" + fam, 0) + 1
        if "steps" not in o:
            k = c["mode"] + ":harness-" + ("crash" if "crash" in o else "panic" if "panic" in o else "docerr")
            d[k] = d.get(k, 0) + 1
            if o.get("docerr"):
                k = "docerr:" + ("expected(malformed family)" if c.get("malformed_doc") and not o.get("generic_ok")
                                 else "UNEXPECTED")
                d[k] = d.get(k, 0) + 1
            continue
        for op, s in zip(c["ops"], o["steps"]):
            k = "%s:%s:%s" % (c["mode"], op["op"], s.get("status"))
            d[k] = d.get(k, 0) + 1
            if s.get("opened") is not None:
                # every outcome of the --secret observation, the skipped ones included (escape hatch: counted)
                k = "secret_opened:" + s["opened"].split(":")[0] + \
                    (":" + s["opened"].split(":", 1)[1] if s["opened"].startswith(("skip", "nonscalar")) else "")
                d[k] = d.get(k, 0) + 1
            elif op.get("secret") and op["op"] == "set" and c["mode"] == "cli":
                k = "secret_opened:not-observed(command %s)" % s.get("status")
                d[k] = d.get(k, 0) + 1
            if s.get("cliget_skipped"):
                d["cli_get_skipped:" + s["cliget_skipped"]] = d.get("cli_get_skipped:" + s["cliget_skipped"], 0) + 1
            if s.get("cliget") == "failed":
                d["cli_get_failed"] = d.get("cli_get_failed", 0) + 1
        if len(o["steps"]) < len(c["ops"]):
            d["steps_not_run_after_a_broken_step"] = d.get("steps_not_run_after_a_broken_step", 0) + \
                len(c["ops"]) - len(o["steps"])
        d["cases:" + c["mode"]] = d.get("cases:" + c["mode"], 0) + 1
        d["ops_total"] = d.get("ops_total", 0) + len(o["steps"])
        if any("cliget" in s for s in o["steps"]):
            d["cli_get_commands"] = d.get("cli_get_commands", 0) + sum(1 for s in o["steps"] if "cliget" in s)
        if o.get("doc0rt") != o.get("doc0"):
            # yaml.v3 reads its own output back with a comment on another node / another style
            d["input_reattached_by_yaml_roundtrip"] = d.get("input_reattached_by_yaml_roundtrip", 0) + 1
        if o.get("doc0rt") is not None and not same_full(o["doc0"], o["doc0rt"]):
            # ... and so that also the text-level comparison differs: the case is outside the domain (not judged)
            d["input_not_roundtrip_stable"] = d.get("input_not_roundtrip_stable", 0) + 1
            d["input_not_roundtrip_stable:" + fam] = d.get("input_not_roundtrip_stable:" + fam, 0) + 1
    return d


def search(rng, info):
    """targeted search when an obligation or the correspondence is broken: the exhaustive family again plus
    quoted/literal scalars overwritten by non-strings and deletes through missing keys"""
    cases = values_key_family()
    for mode in ("api", "cli"):
        for d in SMALL_DOCS:
            for p in SMALL_PATHS:
                cases.append(mk(mode, wrap(mode, d), [{"op": "rm", "path": path_text(p), "ipath": p}]))
                for v in ("5", "true", "abc", "{k: v}"):
                    cases.append(mk(mode, wrap(mode, d), [{"op": "set", "path": path_text(p), "ipath": p, "value": v}]))
    return cases
