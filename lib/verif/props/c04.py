"""C04 — static secrets are ciphertext at rest, transparently."""
from .. import common as C
from . import cryptgen as G
from .c12 import tree_sx, doc_with, POSITIONS, STYLES

ID = "C04"
SRC_FACTS = ["crypt_fn_secret", "crypt_key_ciphertext", "crypt_new_key", "ast_fn_secret", "ast_key_ciphertext",
             "ast_plain_literal", "ast_key_nil_safe", "marshal_null_words", "marshal_quote_words",
             "envelope_magic", "envelope_version", "envelope_min_len"]
COQ_SAMPLE = 40
BATCH = 200
RULE = ("line-break family (secrets in block / flow position and non-secret block scalars whose text contains LF and "
        "starts with LF, U+2028, U+2029, tab; controls U+0085, U+FEFF); regression corpus ($$ / $${x} / ${x} texts, interpolated inner key, non-secret shapes); spelling family: "
        "every spelling of the key fn::secret (plain, single, double, \\x / \\u / fully escaped double-quoted, !!str "
        "tagged) x every spelling of the text scalar (the same plus literal, folded) and of the key ciphertext x block / "
        "flow / flow-in-provider-input, one secret per document (no raw bytes `fn::secret` when escaped); exhaustive small "
        "family: every secret text (48) x scalar style (6) x position (top level, nested object, array, provider input, "
        "flow) with toy ciphers of prefix length 0,1,2,3,5,17,36 (ciphertext lengths 0..40, including 0-3 bytes from "
        "texts of 0-3 bytes with no prefix); ciphertext-length family 0..40 exactly; random documents mixing plaintext "
        "and already encrypted secrets, comments, flow/block.  Per case: EncryptSecrets, DecryptSecrets of its "
        "output, LoadYAMLBytes, EvalEnvironment of the plaintext and of the stored form (echo provider, matching "
        "decrypter).  non-trivial = at least one plaintext secret encrypted; distinct by text and cipher")
ASSUMPTIONS = ["the toy cipher (prefix of key bytes, xor) is implemented identically in the Go handler and in "
               "Corr/CryptWire.v; dec (enc p) = Some p holds for it (proved: C04_toy_cipher_inverse)",
               "the checker's verdict is predicted by the model only for the generated family, whose only load errors "
               "are rejected calls of fn::secret; values and flags of everything that is not a secret literal are "
               "compared implementation-vs-implementation (plaintext form vs stored form), the evaluator itself is "
               "another model",
               "plaintext-leak test: texts of 4 bytes or more that occur neither in the rest of the document nor "
               "inside an envelope"]
TRUSTED = ["Python YAML renderer only shapes inputs (trees are read back by yaml.v3 on the implementation side)"]

CORPUS = [
    "values:\n  s:\n    fn::secret: a$$b\n",
    "values:\n  s: {fn::secret: \"$${x}\"}\n  t: {fn::secret: \"$$$\"}\n  u: {fn::secret: \"$\"}\n  v: {fn::secret: \"a$\"}\n",
    "values:\n  s: {fn::secret: \"${x}\"}\n",
    "values:\n  s: {fn::secret: \"${\"}\n",
    "values:\n  s: {fn::secret: \"pre ${a.b} post\"}\n  x: 1\n",
    "values:\n  a: {fn::secret: {\"${x}\": y}}\n",
    "values:\n  a: {fn::secret: {ciphertext: \"a$$b\"}}\n",
    "values:\n  a: {fn::secret: {\"cipher$$text\": \"x\"}}\n",
    "values:\n  a: {fn::secret: {\"ciphertext\": \"${x}\"}}\n",
    "values:\n  a: {fn::secret: [1, 2]}\n",
    "values:\n  b: {fn::secret: {ciphertext: 5}}\n",
    "values:\n  c: {fn::secret: {ciphertext: x, more: y}}\n",
    "values:\n  e: {fn::secret: 5}\n",
    "values:\n  f: {fn::secret: null}\n",
    "values:\n  g: {fn::secret: x, other: y}\n",
    "values:\n  a: {fn::secret: {fn::secret: x}}\n",
    "values:\n  b: {fn::secret: {ciphertext: {fn::secret: y}}}\n",
    "foo: {fn::secret: outside}\nvalues:\n  a: 1\n",
    "values:\n  s:\n    fn::secret: hunter2 # hunter2 is the old one\n  note: hunter2\n",
    "values:\n  # the password is correct horse\n  s:\n    fn::secret: correct horse\n",
]


def gen(rng, tier):
    thorough = tier == "thorough"
    cases = []

    def add(text, key=0x5A, pad=0, fam=""):
        cases.append({"src": text.encode("utf-8").hex(), "key": key, "pad": pad, "fam": fam})

    for text in CORPUS:
        add(text, fam="corpus")
        add(text, 0, 3, fam="corpus")

    pads = [0, 1, 2, 3, 5, 17, 36]
    k = 0
    for t in G.SECRET_TEXTS:
        for st in STYLES:
            for pos in POSITIONS:
                k += 1
                if not thorough and (k % 4) != 0 and not (pos == "top" and st in ("plain", "double")):
                    continue
                key, pad = (k * 7) % 256, pads[k % len(pads)]
                if len(t.encode()) <= 3 and k % 2:
                    pad = 0

                def plain(in_flow, t=t, st=st):
                    return G.Map([{"key": G.Sc("fn::secret", "plain"), "val": G.Sc(t, st, line=None if in_flow else "lc"),
                                   "head": None if in_flow else "hc"}], flow=in_flow)
                add(G.to_text(doc_with(plain, pos, rng)), key, pad, "family")

    # alternative spellings of the keys `fn::secret` / `ciphertext` and of the text scalar (escapes, quotes, tags,
    # block and flow): same decoded key = same secret, whatever bytes the text contains
    for j, (form, text) in enumerate(G.spelled_documents(0x6B, 1, thorough)):
        add(text, 0x6B, 1, "spelling-" + form)

    # secrets whose text starts with a line break character (LF, U+2028, U+2029; controls U+0085, U+FEFF, tab) and
    # contains a line feed, in block and flow position: decrypt(encrypt(doc)) must restore them
    for form, text in G.break_secret_documents(0x2C, 1):
        add(text, 0x2C, 1, "breaks-" + form)
    for text in G.break_scalar_documents():
        add(text, 0x2C, 0, "breaks-scalar")

    # the ERROR path: a ciphertext-form secret whose envelope is not valid (too short, wrong checksum, wrong magic), at a
    # key that sorts before / between / after ordinary static secrets: it is an error of its own, on both forms of the
    # document, and every other secret still opens (seeded change C04-m: "the decrypter is unavailable" remembered after
    # the first failure)
    import base64 as _b64
    good = G.envelope(G.toy_encrypt(b"kept", 0x31, 1))
    raw = bytearray(_b64.b64decode(good))
    raw[-1] ^= 0x01
    bads = ["AAAA", _b64.b64encode(bytes(raw)).decode(), _b64.b64encode(b"nope" + bytes(raw[4:])).decode()]
    for bi, bad in enumerate(bads):
        for pos in range(3):
            ents = [("b1", "fn::secret: first"), ("c2", "fn::secret: \"second secret\""),
                    ("d3", "fn::secret:\n      ciphertext: %s" % good)]
            ents.insert(pos, ("a0" if pos == 0 else "b5" if pos == 1 else "z9", "fn::secret:\n      ciphertext: %s" % bad))
            text = "values:\n" + "".join("  %s:\n    %s\n" % (k, v) for k, v in ents)
            add(text, 0x31, 1, "bad-envelope")
    # ciphertext lengths 0..40 exactly
    for n in range(0, 41):
        for pad in sorted({0, min(n, 2), n}):
            p = ("s3cr3t-" * 8)[: n - pad]
            add("values:\n  s:\n    fn::secret: %s\n" % G.dq(p), (n * 37 + 11) % 256, pad, "ctlen")

    n = 12000 if thorough else 900
    for i in range(n):
        r = rng.fork("doc%d" % i)
        key, pad = r.below(256), r.choice([0, 0, 1, 2, 3, 5, 17, 36])
        g = G.Gen(r, comments=r.chance(1, 2), ciphers=r.chance(1, 4), key=key, pad=pad)
        add(G.to_text(g.document(2 + r.below(3))), key, pad, "random")
    return cases


def prepare(c):
    return {"src": c["src"], "key": c["key"], "pad": c["pad"]}


def err_sx(res):
    return "(err %s)" % res if res in ("diags", "cipher", "crypter") else "bad"


def ev_sx(e):
    if not e:
        return "other"
    st = e.get("st")
    if st == "ok":
        return "(ok x%s (%s) %d)" % (e.get("canon", ""), " ".join("x" + l for l in (e.get("leaves") or [])), e.get("errs", 0))
    if st in ("loaderr", "panic"):
        return st
    return "other"


def line(c, o):
    if "crash" in o or "in" not in o:
        return None
    if "panic" in o:
        return None
    loads = {"ok": "ok", "err": "err", "panic": "panic"}.get(o.get("plain_loads"), "err")
    er = o.get("enc_res")
    if er == "ok":
        enc = "bad" if "enc" not in o else "(ok %s x%s)" % (tree_sx(o["enc"]), o.get("enc_text", ""))
    else:
        enc = err_sx(er)
    dr = o.get("dec_res")
    if dr is None:
        dec = "none"
    elif dr == "ok":
        dec = "bad" if "dec" not in o else "(ok %s)" % tree_sx(o["dec"])
    else:
        dec = err_sx(dr)
    return "(c04 %d %d %s %s %s %s %s %s)" % (c["key"], c["pad"], tree_sx(o["in"]), loads, enc, dec,
                                              ev_sx(o.get("ev_plain")), ev_sx(o.get("ev_enc")))


def shrink(c):
    text = bytes.fromhex(c["src"]).decode("utf-8")
    lines = text.split("\n")
    for i in range(len(lines)):
        cand = "\n".join(lines[:i] + lines[i + 1:])
        if cand.strip():
            yield dict(c, src=cand.encode("utf-8").hex())
    if c["pad"]:
        yield dict(c, pad=0)


def describe(c):
    return {"key": c["key"], "pad": c["pad"], "fam": c.get("fam"),
            "text": bytes.fromhex(c["src"]).decode("utf-8", "replace")[:400]}


def distribution(cases, r):
    d = {}
    for c, o in zip(cases, r["obs"]):
        if "in" not in o:
            k = "unreadable-input"
        elif "panic" in o:
            k = "panic"
        else:
            k = "loads=%s enc=%s dec=%s" % (o.get("plain_loads"), o.get("enc_res"), o.get("dec_res"))
        k = "%s: %s" % (c.get("fam", ""), k)
        d[k] = d.get(k, 0) + 1
    return d


def search(rng, info):
    cases = []
    for t in G.SECRET_TEXTS:
        for pad in (0, 1, 4):
            cases.append({"src": ("values:\n  s:\n    fn::secret: %s\n" % G.dq(t)).encode().hex(), "key": 0x21, "pad": pad,
                          "fam": "search"})
    return cases
