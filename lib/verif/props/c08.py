"""C08 — provider-input validation agrees with JSON Schema (2020-12) on the supported vocabulary.

A case is {"schema": <root JSON schema (bool or object, $defs at the root only)>, "value": <JSON object>,
"via": "literal" | "fromjson"}.  The implementation side runs the pair through the real gate (stub provider whose
input schema is the generated schema, program values: {x: {fn::open::stub: <value>}}, eval.EvalEnvironment) and reports
whether Open was invoked and whether an error diagnostic came back.  The model side gets the same pair as an
s-expression in the shape of coq/Model/Schema.v."""
import json
import os
import subprocess

from .. import common as C

ID = "C08"
SRC_FACTS = ["strlen_min_chars", "strlen_max_chars", "never_reports", "gate_fallback"]
COQ_SAMPLE = 120
BATCH = 300
RULE = ("regression corpus first; exhaustive family: ~45 one/two-keyword schemas x 24 values (all pairs); random: "
        "schemas generated over the whole vocabulary (type, const, enum, numeric bounds, multipleOf, min/maxLength, "
        "pattern, prefixItems/items/min/maxItems, properties/additionalProperties/required/dependentRequired/"
        "min/maxProperties, anyOf, oneOf, $ref into root $defs incl. guarded recursion, true/false) with nesting "
        "depth <= 3, values generated FROM the schema (boundary lengths/counts/numbers around every limit, "
        "non-ASCII strings of 2/3/4-byte characters and combining marks, empty collections) and then mutated with "
        "probability 1/3; a stream of pairs in the recorded finding classes (const null, uniqueItems, non-canonical "
        "or >= 2^64 numerals via fn::fromJSON).  Values are wrapped as {v: value} under properties/required unless "
        "they are objects.  non-trivial = the root schema is not a boolean; distinct by case content")
ASSUMPTIONS = [
    "numbers: the theorems cover integral numerals written canonically with magnitude < 2^64 (numbers_integral); "
    "the Go code parses numbers into big.Float with a 64-bit mantissa and compares const/enum numbers as text; "
    "non-canonical spellings and larger numerals are modelled (bf64, form) but excluded from the agreement theorem "
    "and recorded as finding class kf_number_text; non-integral numerals are not representable in the model",
    "multipleOf on integers < 2^64: the big.Float quotient (64-bit mantissa, round to nearest even) is an integer iff the "
    "divisor divides the dividend (|n/m| < 2^64/m gives ulp < 2/m, the fractional part is >= 1/m away from an integer); "
    "the model uses exact divisibility, the correspondence exercises boundary operands",
    "strings are well-formed UTF-8 (yaml.v3 and encoding/json produce nothing else); number of characters = number of "
    "non-continuation bytes = utf8.RuneCountInString on such strings",
    "pattern: the regular-expression engine is a parameter of both validators in the theorems; the correspondence uses "
    "patterns of the family ^?(literal|.)*$? on strings without line terminators, where Go regexp, ECMA-262 and the "
    "matcher in Corr/C08.v agree",
    "schemas are compiled and satisfy the meta-schema (multipleOf > 0, unique property names, every $ref resolves "
    "into the root $defs); `type` is a single name other than integer; `enum: []` is not representable",
    "the value passed to fn::open is an object (a non-object that the schema accepts makes evaluateBuiltinOpen panic; "
    "that is C07's finding)",
]
TRUSTED = ["python jsonschema (tooling venv) only cross-validates vspec in the thorough tier; it never decides a case"]

# ------------------------------------------------------------------------------------------------
# JSON -> wire
TWO64 = 1 << 64


def sx(s):
    return C.sx(s)


def num_parts(x):
    """(z, form) of a JSON number in a case: ints are canonical; floats are integral and spelled '<z>.0'."""
    if isinstance(x, bool):
        raise ValueError
    if isinstance(x, int):
        return x, 0
    if isinstance(x, float) and x == int(x):
        return int(x), 1
    raise ValueError("non-integral number %r" % (x,))


def j_sexp(v, canon=False):
    if v is None:
        return "n"
    if v is True:
        return "t"
    if v is False:
        return "f"
    if isinstance(v, (int, float)):
        z, f = num_parts(v)
        return "(i %d %d)" % (z, 0 if canon else f)
    if isinstance(v, str):
        return "(s %s)" % sx(v)
    if isinstance(v, list):
        return "(a%s)" % "".join(" " + j_sexp(x, canon) for x in v)
    if isinstance(v, dict):
        items = sorted(v.items(), key=lambda kv: kv[0].encode("utf-8"))
        return "(o%s)" % "".join(" (%s %s)" % (sx(k), j_sexp(x, canon)) for k, x in items)
    raise ValueError(v)


def optZ(s, k):
    if k not in s:
        return "-"
    z, f = num_parts(s[k])
    if f != 0:
        raise ValueError("non-canonical numeral in a bound")
    return "%d" % z


def optN(s, k):
    if k not in s:
        return "-"
    n = s[k]
    if not isinstance(n, int) or isinstance(n, bool) or n < 0:
        raise ValueError
    return "%d" % n


KNOWN_KEYS = {"$ref", "$defs", "anyOf", "oneOf", "prefixItems", "items", "additionalProperties", "properties", "type",
              "const", "enum", "multipleOf", "maximum", "exclusiveMaximum", "minimum", "exclusiveMinimum", "maxLength",
              "minLength", "pattern", "maxItems", "minItems", "uniqueItems", "maxProperties", "minProperties",
              "required", "dependentRequired"}


def s_sexp(s):
    if s is True:
        return "T"
    if s is False:
        return "F"
    assert isinstance(s, dict) and set(s) <= KNOWN_KEYS, s
    ref = "-"
    if "$ref" in s:
        assert s["$ref"].startswith("#/$defs/")
        ref = sx(s["$ref"][len("#/$defs/"):])
    lst = lambda k: "(%s)" % " ".join(s_sexp(t) for t in s.get(k, []))
    opt = lambda k: s_sexp(s[k]) if k in s else "-"
    props = sorted(s.get("properties", {}).items(), key=lambda kv: kv[0].encode("utf-8"))
    props = "(%s)" % " ".join("(%s %s)" % (sx(k), s_sexp(t)) for k, t in props)
    const = "(c %s)" % j_sexp(s["const"]) if "const" in s else "-"
    enum = "(%s)" % " ".join(j_sexp(e) for e in s.get("enum", []))
    pat = sx(s["pattern"]) if s.get("pattern") else "-"
    req = "(%s)" % " ".join(sx(r) for r in s.get("required", []))
    dep = sorted(s.get("dependentRequired", {}).items(), key=lambda kv: kv[0].encode("utf-8"))
    dep = "(%s)" % " ".join("(%s (%s))" % (sx(k), " ".join(sx(r) for r in rs)) for k, rs in dep)
    kw = "(k %s %s %s %s %s %s %s %s %s %s %s %s %s %s %s %s %s %s)" % (
        s.get("type", "-"), const, enum, optZ(s, "multipleOf"), optZ(s, "maximum"), optZ(s, "exclusiveMaximum"),
        optZ(s, "minimum"), optZ(s, "exclusiveMinimum"), optN(s, "maxLength"), optN(s, "minLength"), pat,
        optN(s, "maxItems"), optN(s, "minItems"), "t" if s.get("uniqueItems") else "f", optN(s, "maxProperties"),
        optN(s, "minProperties"), req, dep)
    return "(S %s %s %s %s %s %s %s %s)" % (ref, lst("anyOf"), lst("oneOf"), lst("prefixItems"), opt("items"),
                                           opt("additionalProperties"), props, kw)


def root_sexp(schema):
    """(defs, schema) of a root schema"""
    if isinstance(schema, dict):
        d = sorted(schema.get("$defs", {}).items(), key=lambda kv: kv[0].encode("utf-8"))
        body = {k: v for k, v in schema.items() if k != "$defs"}
        return "(%s)" % " ".join("(%s %s)" % (sx(k), s_sexp(t)) for k, t in d), s_sexp(body)
    return "()", s_sexp(schema)


def line(c, o):
    try:
        d, s = root_sexp(c["schema"])
        v = j_sexp(c["value"], canon=(c.get("via", "literal") != "fromjson"))
    except (ValueError, AssertionError):
        return None
    if "crash" in o or "panic" in o or o.get("res") != "ok" or o.get("opens", 0) > 1:
        ob = "crash"          # crashed, failed to load, or opened the provider more than once
    else:
        ob = "(r %s %s)" % ("t" if o.get("opens", 0) >= 1 else "f", "t" if o.get("diag") else "f")
    return "(case %s %s %s %s)" % (d, s, v, ob)


def spec_line(c):
    d, s = root_sexp(c["schema"])
    return "(spec %s %s %s)" % (d, s, j_sexp(c["value"], canon=(c.get("via", "literal") != "fromjson")))


def prepare(c):
    r = {"schema": c["schema"], "value": c["value"], "via": c.get("via", "literal")}
    if "layers" in c:
        r["layers"] = c["layers"]
    return r


PATTERNS3 = [(1, 0, 0), (0, 1, 0), (0, 0, 1), (1, 0, 1), (1, 1, 0), (0, 1, 1), (1, 1, 1)]   # (bottom, middle, top)


def split_layers(rng, value, depth=1, force=None):
    """three objects whose merge (bottom, middle, top) is `value`: every key goes to a non-empty subset of the layers
    (all copies equal), object values present in all three layers may be split recursively"""
    layers = [{}, {}, {}]
    for j, (k, v) in enumerate(value.items()):
        pat = force[j % len(force)] if force else rng.choice(PATTERNS3)
        if isinstance(v, dict) and v and depth > 0 and pat == (1, 1, 1) and rng.chance(1, 2):
            subs = split_layers(rng, v, depth - 1)
            for i in range(3):
                layers[i][k] = subs[i]
        else:
            for i in range(3):
                if pat[i]:
                    layers[i][k] = v
    return layers


def mk_merged(rng, schema, value, force=None):
    c = mk(schema, value, "merged")
    c["layers"] = split_layers(rng, value, 1, force)
    return c


# ------------------------------------------------------------------------------------------------
# generator
CHARS = ["a", "b", "z", "0", "7", "\u00e9", "\u00df", "\u20ac", "\u4e2d", "\U0001F600", "e\u0301", " ", "_"]
STRS = ["", "a", "ab", "abc", "\u00e9", "\u00e9\u00e9", "a\u00e9", "\u20ac", "\U0001F600", "e\u0301", "a\U0001F600b",
        "foo1", "foo", "\u4e2d\u6587", "zz\u00df", "hello world"]
KEYS = ["a", "b", "c", "é", "k1", "", "zz"]
NUMS = [0, 1, -1, 2, 3, 4, 5, 6, 7, 10, -2, -3, 12, 100, (1 << 31), (1 << 53), (1 << 53) + 1, (1 << 63) - 1, (1 << 63),
        (1 << 64) - 1, -(1 << 63), -(1 << 63) + 1]
TYPES = ["null", "boolean", "number", "string", "array", "object"]
PATTERNS = ["a", "^a", "a$", "^a$", "^ab", "b.", "^.$", "^..$", "é", "^é$", "^.é", "foo1", "^$", ".",
            "^...$", "o.1$"]


def lit_ok(n):
    """an integer the YAML literal path carries unchanged (int64 / uint64)"""
    return -(1 << 63) <= n < (1 << 64)


def rstr(rng, n=None):
    if n is None:
        if rng.chance(1, 2):
            return rng.choice(STRS)
        n = rng.below(5)
    return "".join(rng.choice(CHARS) for _ in range(n))


def rvalue(rng, depth=2):
    k = rng.below(9 if depth > 0 else 6)
    if k == 0:
        return None
    if k == 1:
        return rng.chance(1, 2)
    if k in (2, 3):
        return rng.choice(NUMS[:14]) if rng.chance(3, 4) else rng.choice(NUMS)
    if k in (4, 5):
        return rstr(rng)
    if k in (6, 7):
        return [rvalue(rng, depth - 1) for _ in range(rng.below(4))]
    return {rng.choice(KEYS): rvalue(rng, depth - 1) for _ in range(rng.below(4))}


class Gen:
    def __init__(self, rng):
        self.rng = rng
        self.defs = {}

    def small_json(self, depth=1):
        return rvalue(self.rng, depth)

    def schema(self, depth, refs=()):
        r = self.rng
        k = r.below(24)
        if k == 0:
            return True
        if k == 1:
            return False
        if k == 2 and refs:
            s = {"$ref": "#/$defs/" + r.choice(list(refs))}
            if r.chance(1, 3):
                s.update(self.assertions(r.choice(TYPES)))
            return s
        if k in (3, 4) and depth > 0:
            kw = r.choice(["anyOf", "oneOf"])
            s = {kw: [self.schema(depth - 1, refs) for _ in range(1 + r.below(3))]}
            if r.chance(1, 4):
                other = "oneOf" if kw == "anyOf" else "anyOf"
                s[other] = [self.schema(depth - 1, refs) for _ in range(1 + r.below(2))]
            if r.chance(1, 4):
                s.update(self.assertions(r.choice(TYPES)))
            return s
        if k == 5:
            return {}
        t = r.choice(TYPES)
        s = {}
        if r.chance(3, 4):
            s["type"] = t
        s.update(self.assertions(t))
        if r.chance(1, 6):                       # keywords of another type: must be ignored for this instance type
            s.update(self.assertions(r.choice(TYPES)))
        if t == "array" and depth > 0:
            if r.chance(1, 2):
                s["prefixItems"] = [self.schema(depth - 1, refs) for _ in range(1 + r.below(3))]
            if r.chance(1, 2):
                s["items"] = self.schema(depth - 1, refs) if r.chance(3, 4) else False
        if t == "object" and depth > 0:
            if r.chance(3, 4):
                s["properties"] = {r.choice(KEYS): self.schema(depth - 1, refs) for _ in range(1 + r.below(3))}
            if r.chance(1, 2):
                s["additionalProperties"] = self.schema(depth - 1, refs) if r.chance(1, 2) else False
        return s

    def assertions(self, t):
        r = self.rng
        s = {}
        if r.chance(1, 8):
            s["const"] = self.small_json()
            if s["const"] is None and not r.chance(1, 6):
                s["const"] = 0
        if r.chance(1, 8):
            s["enum"] = [self.small_json() for _ in range(1 + r.below(3))]
        if t == "number":
            for kw in ("minimum", "exclusiveMinimum", "maximum", "exclusiveMaximum"):
                if r.chance(1, 4):
                    s[kw] = r.choice(NUMS)
            if r.chance(1, 3):
                s["multipleOf"] = r.choice([1, 2, 3, 5, 7, 10, 4, (1 << 31), (1 << 53) + 1, (1 << 63) - 1])
        if t == "string":
            if r.chance(1, 2):
                s["minLength"] = r.below(4)
            if r.chance(1, 2):
                s["maxLength"] = r.below(5)
            if r.chance(1, 4):
                s["pattern"] = r.choice(PATTERNS)
        if t == "array":
            if r.chance(1, 3):
                s["minItems"] = r.below(4)
            if r.chance(1, 3):
                s["maxItems"] = r.below(4)
            if r.chance(1, 6):
                s["uniqueItems"] = True       # known finding C08-unique-items: must not excuse the OTHER array keywords
        if t == "object":
            if r.chance(1, 3):
                s["minProperties"] = r.below(3)
            if r.chance(1, 3):
                s["maxProperties"] = r.below(4)
            if r.chance(1, 3):
                s["required"] = r.shuffle(KEYS)[: 1 + r.below(2)]
            if r.chance(1, 5):
                s["dependentRequired"] = {r.choice(KEYS): r.shuffle(KEYS)[: 1 + r.below(2)] for _ in range(1 + r.below(2))}
        return s

    def make_defs(self):
        """$defs: d0 refers to nothing, d1 may refer to d0, d2 to d0/d1 (no unguarded cycles); 'tree' and 'list' are
        guarded recursive definitions (recursion only below properties / items)."""
        r = self.rng
        defs = {}
        names = []
        for i in range(r.below(4)):
            n = "d%d" % i
            defs[n] = self.schema(1, tuple(names))
            names.append(n)
        if r.chance(1, 4):
            defs["tree"] = {"type": "object", "properties": {"v": {"type": "number"}, "c": {"type": "array", "items": {"$ref": "#/$defs/tree"}}},
                            "additionalProperties": False}
            names.append("tree")
        if r.chance(1, 6):
            defs["list"] = {"anyOf": [{"type": "null"}, {"type": "object", "required": ["h"],
                                                        "properties": {"h": self.schema(0), "t": {"$ref": "#/$defs/list"}}}]}
            names.append("list")
        self.defs = defs
        return names

    # ---- values generated from the schema ----
    def value_for(self, s, depth=4):
        r = self.rng
        if depth <= 0 or isinstance(s, bool):
            return rvalue(r, 1)
        if "const" in s and r.chance(3, 4):
            return s["const"]
        if s.get("enum") and r.chance(3, 4):
            return r.choice(s["enum"])
        if "$ref" in s and r.chance(3, 4):
            t = self.defs.get(s["$ref"][len("#/$defs/"):])
            if t is not None:
                return self.value_for(t, depth - 1)
        for kw in ("anyOf", "oneOf"):
            if s.get(kw) and r.chance(2, 3):
                return self.value_for(r.choice(s[kw]), depth - 1)
        t = s.get("type")
        if t is None:
            hints = [k for k, ty in (("minimum", "number"), ("maximum", "number"), ("multipleOf", "number"),
                                     ("minLength", "string"), ("maxLength", "string"), ("pattern", "string"),
                                     ("items", "array"), ("prefixItems", "array"), ("minItems", "array"),
                                     ("properties", "object"), ("required", "object"), ("additionalProperties", "object"))
                     if k in s]
            t = {"minimum": "number", "maximum": "number", "multipleOf": "number", "minLength": "string",
                 "maxLength": "string", "pattern": "string", "items": "array", "prefixItems": "array",
                 "minItems": "array", "properties": "object", "required": "object",
                 "additionalProperties": "object"}[r.choice(hints)] if hints and r.chance(3, 4) else r.choice(TYPES)
        if t == "null":
            return None
        if t == "boolean":
            return r.chance(1, 2)
        if t == "number":
            cands = [0, 1]
            for kw in ("minimum", "exclusiveMinimum", "maximum", "exclusiveMaximum"):
                if kw in s:
                    cands += [s[kw] - 1, s[kw], s[kw] + 1]
            if "multipleOf" in s:
                m = s["multipleOf"]
                q = r.below(6) - 2
                cands += [m * q, m * q + 1, m, m - 1, 2 * m]
                for kw in ("minimum", "maximum"):
                    if kw in s:
                        cands.append((s[kw] // m) * m)
                        cands.append((s[kw] // m + 1) * m)
            cands.append(r.choice(NUMS))
            return r.choice(cands)
        if t == "string":
            ns = [r.below(4)]
            for kw in ("minLength", "maxLength"):
                if kw in s:
                    ns += [max(0, s[kw] - 1), s[kw], s[kw] + 1]
            n = r.choice(ns)
            if s.get("pattern") and r.chance(2, 3):
                core = s["pattern"].strip("^$").replace(".", r.choice(CHARS)[:1] if r.chance(1, 2) else "é")
                if r.chance(1, 2):
                    return core
                return (rstr(r, 1) if not s["pattern"].startswith("^") or r.chance(1, 4) else "") + core + \
                       (rstr(r, 1) if not s["pattern"].endswith("$") or r.chance(1, 4) else "")
            return rstr(r, n)
        if t == "array":
            pre = s.get("prefixItems", [])
            ns = [r.below(4), len(pre), len(pre) + 1, max(0, len(pre) - 1)]
            for kw in ("minItems", "maxItems"):
                if kw in s:
                    ns += [max(0, s[kw] - 1), s[kw], s[kw] + 1]
            n = min(r.choice(ns), 6)
            out = []
            for i in range(n):
                sub = pre[i] if i < len(pre) else s.get("items", True)
                out.append(self.value_for(sub, depth - 1))
            if s.get("uniqueItems") and out and r.chance(1, 2):
                out.append(out[0])
            return out
        # object
        props = s.get("properties", {})
        out = {}
        for k, sub in props.items():
            if r.chance(3, 4) or k in s.get("required", []):
                out[k] = self.value_for(sub, depth - 1)
        for k in s.get("required", []):
            if k not in out and r.chance(4, 5):
                out[k] = rvalue(r, 1)
        for k, deps in s.get("dependentRequired", {}).items():
            if k in out or r.chance(1, 2):
                out.setdefault(k, rvalue(r, 0))
                for d in deps:
                    if r.chance(3, 4):
                        out.setdefault(d, rvalue(r, 0))
        extra = r.below(3) if r.chance(1, 3) else 0
        for kw in ("minProperties", "maxProperties"):
            if kw in s and r.chance(1, 2):
                extra = max(0, s[kw] + r.below(3) - 1 - len(out))
        for _ in range(extra):
            k = r.choice(KEYS + ["x", "y"])
            if k not in out:
                ap = s.get("additionalProperties", True)
                out[k] = self.value_for(ap, depth - 1) if k not in props else self.value_for(props[k], depth - 1)
        return out

    def mutate(self, v, depth=2):
        r = self.rng
        k = r.below(6)
        if isinstance(v, list) and v and k < 3 and depth > 0:
            i = r.below(len(v))
            w = list(v)
            if k == 0:
                w[i] = self.mutate(v[i], depth - 1)
            elif k == 1:
                del w[i]
            else:
                w.append(rvalue(r, 1))
            return w
        if isinstance(v, dict) and k < 4 and depth > 0:
            w = dict(v)
            if v and k == 0:
                kk = r.choice(sorted(v))
                w[kk] = self.mutate(v[kk], depth - 1)
            elif v and k == 1:
                del w[r.choice(sorted(v))]
            else:
                w[r.choice(KEYS + ["x"])] = rvalue(r, 1)
            return w
        if isinstance(v, str) and k < 3:
            return v + r.choice(CHARS) if k == 0 else (v[:-1] if k == 1 else r.choice(CHARS) + v)
        if isinstance(v, int) and not isinstance(v, bool) and k < 3:
            return v + r.choice([1, -1, 2])
        return rvalue(r, 1)


def wrap(schema, value, defs):
    """fn::open takes a map: an object value goes in directly (half of the time), anything else as {v: value}."""
    if isinstance(schema, dict) and "$defs" in schema:
        raise ValueError
    root = {"type": "object", "properties": {"v": schema}, "required": ["v"]}
    if defs:
        root["$defs"] = defs
    return root, {"v": value}


def direct(schema, value, defs):
    root = dict(schema)
    if defs:
        root["$defs"] = defs
    return root, value


def fix_numbers_literal(v):
    """the YAML literal path only carries int64/uint64 integers unchanged"""
    if isinstance(v, bool) or v is None or isinstance(v, str):
        return v
    if isinstance(v, int):
        return v if lit_ok(v) else (v % (1 << 63))
    if isinstance(v, float):
        return int(v)
    if isinstance(v, list):
        return [fix_numbers_literal(x) for x in v]
    return {k: fix_numbers_literal(x) for k, x in v.items()}


# exhaustive small family -------------------------------------------------------------------------
FAMILY_SCHEMAS = [
    True, False, {},
    {"type": "null"}, {"type": "boolean"}, {"type": "number"}, {"type": "string"}, {"type": "array"}, {"type": "object"},
    {"minLength": 1}, {"minLength": 2}, {"maxLength": 1}, {"maxLength": 0}, {"minLength": 1, "maxLength": 1},
    {"pattern": "^.$"}, {"pattern": "é"},
    {"minimum": 0}, {"exclusiveMinimum": 0}, {"maximum": 0}, {"exclusiveMaximum": 1}, {"multipleOf": 2}, {"multipleOf": 3},
    {"minItems": 1}, {"maxItems": 1}, {"items": False}, {"items": {"type": "number"}},
    {"prefixItems": [{"type": "string"}], "items": False}, {"prefixItems": [{"type": "number"}, {"type": "number"}]},
    {"minProperties": 1}, {"maxProperties": 1}, {"required": ["a"]}, {"dependentRequired": {"a": ["b"]}},
    {"properties": {"a": False}}, {"properties": {"a": {"type": "number"}}, "additionalProperties": False},
    {"additionalProperties": False}, {"additionalProperties": {"type": "number"}},
    {"const": 1}, {"const": "a"}, {"const": [1, 1]}, {"const": {"a": 1}}, {"const": []}, {"const": {}}, {"const": False},
    {"enum": [None, 1, "é"]}, {"enum": [[], {}]},
    {"anyOf": [{"type": "number"}, {"type": "string"}]}, {"anyOf": [False]}, {"anyOf": [False, True]},
    {"oneOf": [{"type": "number"}, {"minimum": 1}]}, {"oneOf": [True, True]}, {"oneOf": [False]}, {"oneOf": [True, False]},
    {"oneOf": [{"type": "string"}, {"maxLength": 1}, {"minLength": 1}]},
    {"$ref": "#/$defs/n"}, {"$ref": "#/$defs/n", "minimum": 2}, {"$ref": "#/$defs/no"},
    {"type": "string", "minimum": 5, "minItems": 3, "required": ["a"]},
    {"type": "number", "minLength": 5, "maxItems": 0, "maxProperties": 0},
]
FAMILY_DEFS = {"n": {"type": "number"}, "no": False}
FAMILY_VALUES = [None, True, False, 0, 1, -1, 2, 3, "", "a", "\u00e9", "ab", "a\u00e9", "\U0001F600", "e\u0301",
                 [], [1], [1, 1], ["a", 1], ["a"], {}, {"a": 1}, {"a": 1, "b": 2}, {"b": "x"}]

# regression corpus: every defect / observation found while building this check, first in every run
REGRESSION = [
    # string length is counted in characters, not bytes (fixed: utf8.RuneCountInString)
    {"schema": {"type": "object", "properties": {"v": {"type": "string", "maxLength": 1}}}, "value": {"v": "é"}},
    {"schema": {"type": "object", "properties": {"v": {"minLength": 2}}}, "value": {"v": "é"}},
    {"schema": {"type": "object", "properties": {"v": {"maxLength": 1}}}, "value": {"v": "\U0001F600"}},
    {"schema": {"type": "object", "properties": {"v": {"minLength": 2, "maxLength": 2}}}, "value": {"v": "é"}},
    # a false subschema rejects with an error diagnostic (fixed: evaluateTypedExpr reports silent rejections)
    {"schema": {"type": "object", "properties": {"v": False}}, "value": {"v": 1}},
    {"schema": False, "value": {"v": 3}},
    {"schema": {"type": "object", "additionalProperties": False}, "value": {"v": "x"}},
    {"schema": {"type": "object", "properties": {"v": {"type": "array", "items": False}}}, "value": {"v": [1]}},
    {"schema": {"type": "object", "properties": {"v": {"$ref": "#/$defs/a"}}, "$defs": {"a": False}}, "value": {"v": [1]}},
    {"schema": {"type": "object", "properties": {"v": {"type": "array", "prefixItems": [{"type": "string"}, {"type": "number"}],
                                                       "items": False}}}, "value": {"v": ["hello", 42, True]}},
    # known finding classes
    {"schema": {"type": "object", "properties": {"v": {"const": None}}}, "value": {"v": 1}},
    {"schema": {"type": "object", "properties": {"v": {"type": "array", "uniqueItems": True}}}, "value": {"v": [1, 1]}},
    {"schema": {"type": "object", "properties": {"v": {"const": 1.0}}}, "value": {"v": 1}},
    {"schema": {"type": "object", "properties": {"v": {"const": 1}}}, "value": {"v": 1.0}, "via": "fromjson"},
    {"schema": {"type": "object", "properties": {"v": {"enum": [2.0, 3]}}}, "value": {"v": 2}},
    {"schema": {"type": "object", "properties": {"v": {"maximum": 18446744073709551616}}},
     "value": {"v": 18446744073709551617}, "via": "fromjson"},
    {"schema": {"type": "object", "properties": {"v": {"exclusiveMinimum": 18446744073709551616}}},
     "value": {"v": 18446744073709551617}, "via": "fromjson"},
    # agreement on things that looked suspicious
    {"schema": {"type": "object", "properties": {"v": {"const": {"a": 1, "b": [True, None]}}}},
     "value": {"v": {"b": [True, None], "a": 1}}},
    {"schema": {"type": "object", "properties": {"v": {"const": 0}}}, "value": {"v": 0}},
    {"schema": {"type": "object", "properties": {"v": {"multipleOf": 3}}}, "value": {"v": 18446744073709551613}},
    {"schema": {"type": "object", "properties": {"v": {"multipleOf": 3}}}, "value": {"v": 18446744073709551615}},
    {"schema": {"type": "object", "properties": {"v": {"multipleOf": 9223372036854775807}}}, "value": {"v": 18446744073709551614}},
    {"schema": {"type": "object", "properties": {"v": {"multipleOf": 9223372036854775807}}}, "value": {"v": 18446744073709551615}},
    {"schema": {"type": "object", "properties": {"v": {"oneOf": [True, True, {"$ref": "#/$defs/x"}]}}, "$defs": {"x": {}}}, "value": {"v": 1}},
    {"schema": {"$defs": {"tree": {"type": "object", "properties": {"c": {"type": "array", "items": {"$ref": "#/$defs/tree"}}},
                                   "additionalProperties": False}}, "$ref": "#/$defs/tree"},
     "value": {"c": [{"c": []}, {"c": [{"c": [{}]}]}]}},
    {"schema": {"$defs": {"tree": {"type": "object", "properties": {"c": {"type": "array", "items": {"$ref": "#/$defs/tree"}}},
                                   "additionalProperties": False}}, "$ref": "#/$defs/tree"},
     "value": {"c": [{"c": []}, {"c": [{"c": [{"d": 1}]}]}]}},
]


def mk(schema, value, via="literal"):
    return {"schema": schema, "value": value, "via": via}


def gen(rng, tier):
    thorough = tier == "thorough"
    cases = [dict(c) for c in REGRESSION]
    for c in cases:
        c.setdefault("via", "literal")

    # exhaustive family
    for s in FAMILY_SCHEMAS:
        for v in FAMILY_VALUES:
            uses = json.dumps(s)
            defs = {k: t for k, t in FAMILY_DEFS.items() if ("#/$defs/" + k + '"') in uses}
            if isinstance(v, dict) and isinstance(s, dict):
                sc, val = direct(s, v, defs)
                cases.append(mk(sc, val))
            sc, val = wrap(s, v, defs)
            cases.append(mk(sc, val))

    # random stream: values generated from the schema, then mutated
    n_random = 100000 if thorough else 900
    g = Gen(rng.fork("random"))
    for _ in range(n_random):
        names = g.make_defs()
        s = g.schema(3 if g.rng.chance(1, 2) else 2, tuple(names))
        v = g.value_for(s) if isinstance(s, dict) else rvalue(g.rng, 2)
        if g.rng.chance(1, 3):
            v = g.mutate(v)
        v = fix_numbers_literal(v)
        used = json.dumps(s)
        defs = dict(g.defs)
        if isinstance(v, dict) and isinstance(s, dict) and g.rng.chance(1, 2):
            sc, val = direct(s, v, defs)
        else:
            sc, val = wrap(s, v, defs)
        cases.append(mk(sc, val))

    # the value reaches the gate by REFERENCE to an object merged from three layers (two imports and the environment): keys
    # in every subset of the layers, in particular top-and-bottom-but-not-middle; property counts at the boundary
    gm3 = rng.fork("merged")
    for n in (1, 2, 3, 4, 5):
        obj = {("k%d" % i): (i if i % 2 else "s%d" % i) for i in range(n)}
        for kw in ("minProperties", "maxProperties"):
            for lim in (n - 1, n, n + 1):
                if lim < 0:
                    continue
                for force in ([(1, 0, 1)], [(1, 0, 1), (0, 1, 0)], [(1, 1, 1)], None, None):
                    cases.append(mk_merged(gm3, {"type": "object", kw: lim}, obj, force))
                    sc, val = wrap({"type": "object", kw: lim}, obj, {})
                    c = mk(sc, val, "merged")
                    inner = split_layers(gm3, obj, 0, force)
                    c["layers"] = [{"v": inner[0]}, {"v": inner[1]}, {"v": inner[2]}]
                    cases.append(c)
    for _ in range(3000 if thorough else 250):
        names = g.make_defs()
        sch = g.schema(2, tuple(names))
        if not isinstance(sch, dict):
            continue
        v = g.value_for(dict(sch, type="object")) if True else None
        v = fix_numbers_literal(v)
        if not isinstance(v, dict) or not v:
            continue
        sc, val = direct(sch, v, dict(g.defs))
        cases.append(mk_merged(gm3, sc, val))
    # uniqueItems together with every other array keyword (the recorded finding concerns uniqueItems alone)
    for other in ({"minItems": 2}, {"maxItems": 1}, {"items": {"type": "number"}}, {"prefixItems": [{"type": "string"}]},
                  {"minItems": 1, "maxItems": 2}, {"items": False}):
        for v in ([], [1], [1, 1], [1, 2], ["a", 1], [1, 2, 3], ["a"], [[1], [1]]):
            sc, val = wrap(dict({"type": "array", "uniqueItems": True}, **other), v, {})
            cases.append(mk(sc, val))
    # definition names that are not plain words (a '+' must stay a '+': the reference is a URI fragment, not a query string)
    for nm in ("opt+in", "a.b", "a-b", "x_y", "\u00e9t\u00e9", "1", "A+B+C", "plus+", "+"):
        for dsch, vals in (({"type": "string", "maxLength": 3}, ["abc", "toolong", 1]), ({"enum": ["yes", "no"]}, ["yes", "maybe"])):
            for v in vals:
                sc, val = wrap({"$ref": "#/$defs/" + nm}, v, {nm: dsch})
                cases.append(mk(sc, val))
    # numeric keywords in COMBINATION: multipleOf with each kind of bound, both sides of the bound, quotient on the other
    # side of the bound than the value (an in-place division would show)
    nb = rng.fork("numcombo")
    for m in (2, 3, 5, 10):
        for kw in ("minimum", "maximum", "exclusiveMinimum", "exclusiveMaximum"):
            for bnd in (1, 2, 5, 10, 12, 100):
                for v in (0, 1, 2, 3, 4, 5, 6, 9, 10, 12, 15, 20, 50, 100, 101):
                    if not thorough and not nb.chance(1, 3) and not (v % m == 0 and (v >= bnd) != (v // m >= bnd)):
                        continue
                    sc, val = wrap({"type": "number", "multipleOf": m, kw: bnd}, v, {})
                    cases.append(mk(sc, val))
    sc, val = wrap({"multipleOf": 5, "minimum": 10, "maximum": 100}, 10, {})
    cases.append(mk(sc, val))
    # chains of $ref through definitions that carry SIBLING keywords (each hop adds a constraint; none may be dropped)
    sib = [({"maxLength": 3}, ["abc", "toolong"]), ({"minLength": 2}, ["a", "ab"]), ({"pattern": "^a"}, ["ab", "ba"]),
           ({"minimum": 10}, [9, 10]), ({"maximum": 5}, [5, 6]), ({"multipleOf": 2}, [3, 4]),
           ({"enum": ["x", 1]}, ["x", "y", 1, 2]), ({"const": "k"}, ["k", "l"]),
           ({"required": ["q"]}, [{"q": 1}, {"r": 1}]), ({"minProperties": 1}, [{}, {"a": 1}]),
           ({"properties": {"q": {"type": "string"}}}, [{"q": "s"}, {"q": 1}]), ({"minItems": 1}, [[], [1]]),
           ({"items": {"type": "number"}}, [[1], ["s"]])]
    ends = [{"type": "string"}, {"type": "number"}, {}, {"type": "object"}, {"type": "array"}, True]
    for end in ends:
        for (k1, vals1) in sib:
            for (k2, vals2) in [({}, [])] + (sib if thorough else nb.shuffle(sib)[:3]):
                for hops in (1, 2, 3):
                    defs = {"end": end, "h1": dict({"$ref": "#/$defs/end"}, **k1)}
                    top = "h1"
                    if hops >= 2:
                        defs["h2"] = dict({"$ref": "#/$defs/h1"}, **k2)
                        top = "h2"
                    if hops >= 3:
                        defs["h3"] = {"$ref": "#/$defs/h2"}
                        top = "h3"
                    for v in list(vals1) + list(vals2):
                        sc, val = wrap({"$ref": "#/$defs/" + top}, v, defs)
                        cases.append(mk(sc, val))
    # multipleOf with operands up to 2^64-1 (inside the theorems; the Go code divides big.Floats with a 64-bit mantissa)
    gm = rng.fork("bigmul")
    for _ in range(4000 if thorough else 120):
        m = gm.choice([3, 5, 7, 9, 10, (1 << 31) - 1, (1 << 32) + 1, (1 << 53) + 1, (1 << 63) - 1, 2 + gm.below(1 << 40),
                       1 + gm.below(1 << 62)])
        top = ((1 << 64) - 1) // m
        q = gm.choice([top, top - 1, gm.below(top + 1), gm.below(min(top, 1000) + 1)])
        n = q * m + gm.choice([0, 0, 1, -1, m // 2])
        if gm.chance(1, 4):
            n = -n
        n = max(-(1 << 63), min((1 << 64) - 1, n))
        sc, val = wrap({"multipleOf": m}, n, {})
        cases.append(mk(sc, val))

    # finding classes and the fromJSON channel: non-canonical numerals, numerals >= 2^64, const null, uniqueItems
    g2 = Gen(rng.fork("classes"))
    r = g2.rng
    for _ in range(6000 if thorough else 150):
        k = r.below(5)
        if k == 0:
            z = r.choice([0, 1, 2, 3, -1, 10])
            s = r.choice([{"const": float(z)}, {"enum": [float(z), "a"]}, {"const": z}, {"const": [float(z)]}])
            v = r.choice([z, float(z), z + 1, [z], [float(z)]])
            sc, val = wrap(s, v, {})
            cases.append(mk(sc, val, r.choice(["literal", "fromjson"])))
        elif k == 1:
            b = TWO64 + r.below(5) - 2
            kw = r.choice(["maximum", "exclusiveMaximum", "minimum", "exclusiveMinimum"])
            v = b + r.below(5) - 2
            sc, val = wrap({kw: b}, v, {})
            cases.append(mk(sc, val, "fromjson" if not lit_ok(v) or r.chance(1, 2) else "literal"))
        elif k == 2:
            s = r.choice([{"const": None}, {"const": None, "type": "number"}, {"anyOf": [{"const": None}, {"type": "string"}]}])
            sc, val = wrap(s, rvalue(r, 1), {})
            cases.append(mk(sc, fix_numbers_literal(val)))
        elif k == 3:
            items = [rvalue(r, 1) for _ in range(r.below(4))]
            if items and r.chance(1, 2):
                items.append(r.choice(items))
            sc, val = wrap({"type": "array", "uniqueItems": True}, items, {})
            cases.append(mk(sc, fix_numbers_literal(val)))
        else:
            # ordinary pairs through the fromJSON channel (must behave exactly like literals)
            g2.make_defs()
            s = g2.schema(2, tuple(g2.defs))
            v = fix_numbers_literal(g2.value_for(s) if isinstance(s, dict) else rvalue(r, 2))
            sc, val = wrap(s, v, dict(g2.defs))
            cases.append(mk(sc, val, "fromjson"))
    return cases


# ------------------------------------------------------------------------------------------------
def shrink(c):
    s, v = c["schema"], c["value"]

    def with_(ns=None, nv=None):
        d = dict(c)
        if ns is not None:
            d["schema"] = ns
        if nv is not None:
            d["value"] = nv
        return d

    # drop unused $defs, then keywords, then shrink the value
    if isinstance(s, dict):
        for k in list(s.get("$defs", {})):
            nd = {kk: t for kk, t in s["$defs"].items() if kk != k}
            ns = {kk: t for kk, t in s.items() if kk != "$defs"}
            if nd:
                ns["$defs"] = nd
            if ("#/$defs/" + k + '"') not in json.dumps(ns):
                yield with_(ns=ns)
        yield from (with_(ns=x) for x in shrink_schema(s))
    yield from (with_(nv=x) for x in shrink_value(v) if isinstance(x, dict))


def shrink_schema(s):
    if not isinstance(s, dict):
        return
    for k in list(s):
        if k == "$defs":
            for dk, dt in s["$defs"].items():
                for x in shrink_schema(dt):
                    nd = dict(s["$defs"])
                    nd[dk] = x
                    yield dict(s, **{"$defs": nd})
            continue
        if k not in ("type", "properties", "required") or len(s) > 3:
            yield {kk: t for kk, t in s.items() if kk != k}
    for k in ("anyOf", "oneOf", "prefixItems"):
        if k in s:
            for i in range(len(s[k])):
                if len(s[k]) > 1:
                    yield dict(s, **{k: s[k][:i] + s[k][i + 1:]})
                for x in shrink_schema(s[k][i]):
                    yield dict(s, **{k: s[k][:i] + [x] + s[k][i + 1:]})
    for k in ("items", "additionalProperties"):
        if k in s:
            for x in shrink_schema(s[k]):
                yield dict(s, **{k: x})
    if "properties" in s:
        for pk, pt in s["properties"].items():
            for x in shrink_schema(pt):
                np_ = dict(s["properties"])
                np_[pk] = x
                yield dict(s, properties=np_)


def shrink_value(v):
    if isinstance(v, list):
        for i in range(len(v)):
            yield v[:i] + v[i + 1:]
            for x in shrink_value(v[i]):
                yield v[:i] + [x] + v[i + 1:]
    elif isinstance(v, dict):
        for k in v:
            if k != "v" or len(v) > 1:
                yield {kk: x for kk, x in v.items() if kk != k}
            for x in shrink_value(v[k]):
                yield dict(v, **{k: x})
    elif isinstance(v, str) and v:
        yield v[1:]
        yield v[:-1]
    elif isinstance(v, int) and not isinstance(v, bool) and v not in (0, 1):
        yield 0
        yield 1


def describe(c):
    d = {"schema": c["schema"], "value": c["value"], "via": c.get("via", "literal")}
    if "layers" in c:
        d["layers"] = c["layers"]
    return d


def distribution(cases, r):
    d = {}
    for c, o in zip(cases, r["obs"]):
        if "crash" in o or "panic" in o:
            k = "crash"
        elif o.get("res") != "ok":
            k = str(o.get("res"))
        else:
            k = ("opened" if o.get("opens") else "rejected") + ("+diag" if o.get("diag") else "")
        k = c.get("via", "literal") + ":" + k
        d[k] = d.get(k, 0) + 1
    kws = {}
    for c in cases:
        for kw in KNOWN_KEYS:
            if ('"%s"' % kw) in json.dumps(c["schema"]):
                kws[kw] = kws.get(kw, 0) + 1
    d["keyword_usage"] = kws
    d["non_ascii_values"] = sum(1 for c in cases if any(ord(ch) > 127 for ch in json.dumps(c["value"], ensure_ascii=False)))
    return d


def search(rng, info):
    """targeted search when an obligation or the correspondence breaks: the regression corpus, the exhaustive family and
    boundary strings/`false` placements around the disagreeing cases"""
    cases = [dict(c, via=c.get("via", "literal")) for c in REGRESSION]
    for n in range(0, 4):
        for ch in ["a", "é", "€", "\U0001F600"]:
            for kw in ("minLength", "maxLength"):
                for lim in range(0, 4):
                    sc, val = wrap({kw: lim}, ch * n, {})
                    cases.append(mk(sc, val))
    for s in FAMILY_SCHEMAS:
        for v in FAMILY_VALUES:
            defs = {k: t for k, t in FAMILY_DEFS.items() if ("#/$defs/" + k + '"') in json.dumps(s)}
            sc, val = wrap(s, v, defs)
            cases.append(mk(sc, val))
    return cases


# ------------------------------------------------------------------------------------------------
# thorough tier: cross-validate the Coq specification [vspec] against python jsonschema (never the decider of a case)
PY_CHECK = r'''
import json, sys
from jsonschema import Draft202012Validator
out = []
for line in sys.stdin:
    c = json.loads(line)
    try:
        ok = Draft202012Validator(c["schema"]).is_valid(c["value"])
        out.append("t" if ok else "f")
    except Exception as e:
        out.append("e")
print(" ".join(out))
'''


def in_theorem_scope(c):
    """pairs on which vspec and python jsonschema are both expected to implement 2020-12: no non-canonical numerals
    (python compares 1.0 == 1 like the standard, so those are fine too) — everything the generator makes."""
    return True


def extra_checks(ctx):
    if ctx["tier"] != "thorough":
        return []
    cases = ctx["cases"]
    exe, log = C.build_modelrun(ID)
    if exe is None:
        return [{"kind": "spec-cross-validation", "concrete": False, "detail": "no extracted runner: " + log}]
    lines, idx = [], []
    for i, c in enumerate(cases):
        try:
            lines.append(spec_line(c))
            idx.append(i)
        except (ValueError, AssertionError):
            pass
    coq = C.run_model_lines(exe, lines)
    py = []
    step = 5000
    for a in range(0, len(idx), step):
        chunk = [cases[i] for i in idx[a:a + step]]
        inp = "".join(json.dumps({"schema": c["schema"], "value": c["value"]}) + "\n" for c in chunk)
        try:
            p = subprocess.run(["python3-vt", "-c", PY_CHECK], input=inp, stdout=subprocess.PIPE, stderr=subprocess.PIPE,
                               text=True, timeout=900)
            res = p.stdout.split()
        except (OSError, subprocess.TimeoutExpired):
            res = []
        if len(res) != len(chunk):
            res = ["e"] * len(chunk)
        py.extend(res)
    agree = dis = skipped = 0
    first = None
    for j, i in enumerate(idx):
        if coq[j] is None or coq[j] >= 16 or py[j] == "e":
            skipped += 1
            continue
        if (coq[j] & 1 == 1) == (py[j] == "t"):
            agree += 1
        else:
            dis += 1
            if first is None:
                first = {"case": describe(cases[i]), "coq_vspec_valid": coq[j] & 1 == 1, "python_jsonschema_valid": py[j] == "t"}
    EXTRA["spec_cross_validation"] = {"pairs": len(idx), "agree": agree, "disagree": dis, "skipped": skipped}
    if dis:
        return [dict(first, kind="spec-cross-validation", concrete=False,
                     detail="Coq vspec and python jsonschema disagree on %d of %d pairs" % (dis, len(idx)))]
    return []


EXTRA = {}


def extra_evidence():
    return dict(EXTRA)
