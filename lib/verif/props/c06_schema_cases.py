"""C06, schema clause: "when providers return exactly what their output schema declares, the schema reported by check
accepts the value the opened environment produces".

This module holds what the clause needs on the Python side:
  * conforms(schema, const)    does a constant provider output satisfy its declared output schema (the out-schema language of
                               evalgen / ev.go: type names, always/never, {"t":"array",...}, {"t":"object",...}, and the JSON
                               form {"t":"json","schema":<JSON Schema>} that only the C06S handler understands)
  * loosen(rng, const)         a schema the constant satisfies that is NOT the exact closed record/tuple: bare types, partial
                               records with optional / undeclared members, open tuples, typed additionalProperties / items
  * fix_world(rng, case)       re-declares the deliberately loose schemas RichGen attaches without looking at the constant so
                               that most of them conform (a fraction is left non-conforming: those cases must be excluded
                               by the hypothesis, and they test exactly that)
  * consumer_world(rng)        one provider output consumed in many ways (access, interpolation, join, toJSON/toString/
                               toBase64, arrays, nested objects, merged under / over literal objects of imports, passed on
                               as inputs of a second provider, secret outputs)
  * literal_world(rng)         literal-only import graphs (the schema of a literal is const-style)
  * union_world(rng)           providers whose declared schema is an anyOf / oneOf of records ("json" form; the evaluator model
                               has no such schemas, these cases carry the schema oracle only)
  * history_world(rng)         closed / map-like / nested provider records that are not opened, merged under and over literals
                               in up to four environments, with references before and after their targets: the border of
                               Corr/C06Schema.hist_class (schemas that depend on how often a value has been merged), where
                               the model's schema is compared with the implementation's outside the class and measured inside
  * history_regressions()      the minimal programs of that class and their neighbours outside it
  * schema_part(case, obs)     the wire form of what the oracle in Corr/C06Schema.v looks at
  * cmp_line(...)              measurement lines: the model's schema against the implementation's
"""
import json

from .. import common as C
from .. import evalgen as G
from . import c08 as S8          # the JSON-schema / JSON-value wire printers of C08 (read by Corr/C08.dec_schema, dec_json)

# ---------------------------------------------------------------------------------------------------------------
# conformance of a constant against a declared output schema


def tname(v):
    x = v["v"]
    if x is None:
        return "null"
    if isinstance(x, bool):
        return "boolean"
    if isinstance(x, str):
        return "string"
    if isinstance(x, list):
        return "array"
    if "n" in x:
        return "number"
    return "object"


def plain(v):
    """value spec -> plain python JSON (numbers as int when integral text, else float)"""
    x = v["v"]
    if x is None or isinstance(x, (bool, str)):
        return x
    if isinstance(x, list):
        return [plain(e) for e in x]
    if "n" in x:
        t = x["n"]
        try:
            return int(t)
        except ValueError:
            return float(t)
    return {k: plain(e) for k, e in x["o"].items()}


def json_valid(s, v):
    """JSON Schema 2020-12 validity for the keywords the union family uses (type, properties, required,
    additionalProperties, prefixItems, items, anyOf, oneOf, const, true/false).  Only used to compute the `conform' flag."""
    if s is True:
        return True
    if s is False:
        return False
    t = s.get("type")
    if t:
        ty = ("null" if v is None else "boolean" if isinstance(v, bool) else "number" if isinstance(v, (int, float)) else
              "string" if isinstance(v, str) else "array" if isinstance(v, list) else "object")
        if ty != t:
            return False
    if "const" in s and s["const"] != v:
        return False
    if "anyOf" in s and not any(json_valid(a, v) for a in s["anyOf"]):
        return False
    if "oneOf" in s and sum(1 for a in s["oneOf"] if json_valid(a, v)) != 1:
        return False
    if isinstance(v, list):
        pre = s.get("prefixItems", [])
        for i, e in enumerate(v):
            if i < len(pre):
                if not json_valid(pre[i], e):
                    return False
            elif "items" in s and not json_valid(s["items"], e):
                return False
    if isinstance(v, dict):
        props = s.get("properties", {})
        for k, e in v.items():
            if k in props:
                if not json_valid(props[k], e):
                    return False
            elif "additionalProperties" in s and not json_valid(s["additionalProperties"], e):
                return False
        if any(k not in v for k in s.get("required", [])):
            return False
    return True


def conforms(s, v):
    if v.get("u"):
        return False
    if isinstance(s, str):
        if s == "always":
            return True
        if s == "never":
            return False
        return tname(v) == s
    if s["t"] == "json":
        return json_valid(s["schema"], plain(v))
    x = v["v"]
    if s["t"] == "array":
        if tname(v) != "array":
            return False
        pre = s.get("prefix", [])
        for i, e in enumerate(x):
            sub = pre[i] if i < len(pre) else s.get("items")
            if sub is not None and not conforms(sub, e):
                return False
        return True
    if s["t"] == "object":
        if tname(v) != "object":
            return False
        o = x["o"]
        for k, e in o.items():
            sub = s["props"][k] if k in s["props"] else s.get("addl")
            if sub is not None and not conforms(sub, e):
                return False
        if any(k not in o for k in s.get("required", [])):
            return False
        for k, deps in (s.get("depreq") or {}).items():
            if k in o and any(d not in o for d in deps):
                return False
        return True
    return False


def providers_conform(case, obs_open):
    """every provider the OPEN run really opened returned a value its declared output schema accepts.
    echo providers declare `always'; a failing provider returns nothing (the run then has a diagnostic)."""
    opened = set(e[1] for e in (obs_open.get("log") or []) if e[0] == "open")
    for n in opened:
        p = case.get("provs", {}).get(n)
        if p is None:
            return False
        if p["beh"] == "const" and not conforms(p["out"], p["const"]):
            return False
        if p["beh"] == "echo" and p["out"] != "always":
            return False
    return True


# ---------------------------------------------------------------------------------------------------------------
# conforming schemas that are looser than the value
OPT = [("opt", "string"), ("zopt", "number"), ("extra", {"t": "object", "props": {"k": "string"}, "required": ["k"]}),
       ("more", {"t": "array", "prefix": ["string"], "items": "never"})]


def loosen(r, v, depth=3, declared_only=False):
    """declared_only: every member of the value is declared or covered by a non-absent items / additionalProperties (no
    member whose schema check derives as `false`).  No family asks for it any more: the implementation rejects an unknown
    value of schema `false` WITHOUT a diagnostic (eval_validate.go:191-193) and Model/Eval.v `silent_never` says the same, so
    such members are fed into the typed built-ins like any other."""
    t = tname(v)
    k = r.below(9)
    if k == 0 or depth <= 0:
        return "always"
    if t not in ("array", "object"):
        return t
    x = v["v"]
    absent = [] if declared_only else [None]
    if t == "array":
        if k == 1 and not declared_only:
            return "array"
        n = r.below(len(x) + 1)
        pre = [loosen(r, e, depth - 1, declared_only) if r.chance(2, 3) else G.out_schema_of(e) for e in x[:n]]
        rest = x[n:]
        if not rest:
            items = r.choice([None, "never", "always", "string"])
        else:
            ts = set(tname(e) for e in rest)
            items = r.choice(absent + ["always"] + ([ts.pop()] if len(ts) == 1 else []))
            if items in ("array", "object"):
                items = "always"
        return {"t": "array", "prefix": pre, "items": items}
    o = x["o"]
    if k == 1 and not declared_only:
        return "object"
    keys = sorted(o)
    chosen = [kk for kk in keys if r.chance(2, 3)]
    props = {kk: (loosen(r, o[kk], depth - 1, declared_only) if r.chance(2, 3) else G.out_schema_of(o[kk])) for kk in chosen}
    for kk, sch in OPT:
        if kk not in o and r.chance(1, 3):
            props[kk] = sch                     # declared, optional, absent from the value
    required = [kk for kk in chosen if r.chance(1, 2)]
    others = [kk for kk in keys if kk not in chosen]
    if not others:
        addl = r.choice([None, None, "always", "never", "string"])
    else:
        ts = set(tname(o[kk]) for kk in others)
        addl = r.choice(absent + ["always"] + ([ts.pop()] if len(ts) == 1 else []))
        if addl in ("array", "object"):
            addl = "always"
    d = {"t": "object", "props": props, "required": sorted(required)}
    if addl is not None:
        d["addl"] = addl
    return d


def fix_world(r, case, keep_bad=4):
    """RichGen picks bare / partial schemas without looking at the constant; re-declare most of the non-conforming ones"""
    for n, p in sorted(case.get("provs", {}).items()):
        if p["beh"] != "const":
            continue
        if not conforms(p["out"], p["const"]):
            if not r.chance(1, keep_bad):
                p["out"] = loosen(r, p["const"])
        elif p["out"] != "always" and r.chance(1, 4):
            p["out"] = loosen(r, p["const"])
    return case


# ---------------------------------------------------------------------------------------------------------------
# the consumer family
STRS = ["x", "hello", "us-west-2", "", "a b", "tok3n"]
OKEYS = ["user", "pass", "tok", "a", "list"]


def rand_const(r, depth, top=True):
    k = r.below(10)
    sec = r.chance(1, 6)
    if top or (depth > 0 and 4 <= k < 8):
        n = (2 + r.below(3)) if top else (1 + r.below(3))
        m = {kk: rand_const(r, depth - 1, False) for kk in r.shuffle(OKEYS)[:n]}
        return {"s": sec and not top, "u": False, "v": {"o": m}}
    if depth > 0 and k >= 8:
        if r.chance(1, 2):
            els = [{"s": False, "u": False, "v": r.choice(STRS)} for _ in range(r.below(4))]
        else:
            els = [rand_const(r, depth - 1, False) for _ in range(r.below(3))]
        return {"s": sec, "u": False, "v": els}
    v = r.choice([r.choice(STRS), r.choice(STRS), {"n": r.choice(["0", "7", "42", "-3"])}, True, False, None])
    return {"s": sec, "u": False, "v": v}


def paths(v, pre=()):
    """all access paths into a constant: [(path, sub-value)]"""
    out = [(list(pre), v)]
    x = v["v"]
    if isinstance(x, list):
        for i, e in enumerate(x):
            out += paths(e, pre + (("idx", i),))
    elif isinstance(x, dict) and "o" in x:
        for k, e in sorted(x["o"].items()):
            out += paths(e, pre + ((r_acc(k)),))
    return out


def r_acc(k):
    return ("name", k)


def lit_expr(r, depth=1):
    k = r.below(8)
    if depth > 0 and k == 0:
        return ("obj", [(kk, lit_expr(r, depth - 1)) for kk in r.shuffle(["a", "user", "z"])[: 1 + r.below(2)]])
    if depth > 0 and k == 1:
        return ("arr", [lit_expr(r, 0) for _ in range(r.below(3))])
    return r.choice([("str", r.choice(STRS)), ("num", r.choice(["1", "42", "0", "-7"])), ("bool", r.chance(1, 2)), ("null",)])


def declared_path(s, path):
    """does the declared output schema give every step of the path a schema (a declared member, or one covered by items /
    additionalProperties)?  Otherwise check derives `false` for the member (finding C06-schema-absent-is-never)."""
    for kind, k in path:
        if s is None:
            return False
        if isinstance(s, str):
            if s == "always":
                return True
            return False
        if s["t"] == "json":
            return True
        if s["t"] == "array":
            pre = s.get("prefix", [])
            s = pre[k] if kind == "idx" and k < len(pre) else s.get("items")
        else:
            s = s["props"][k] if k in s["props"] else s.get("addl")
    return s is not None


def consumers(r, root, const, n, out_s="always"):
    """n expressions consuming the value named by path `root' whose (opened) value is `const'.  The typed built-ins
    (fn::join, fn::toBase64) read members whether or not the declared schema `out_s' gives them a schema: a member it does
    not (declared_path(out_s, p) false) is an unknown of schema `false` while checking, rejected without a diagnostic."""
    ps = paths(const)
    strs = [p for p, v in ps if tname(v) == "string"]
    strlists = [p for p, v in ps if tname(v) == "array" and all(tname(e) == "string" for e in v["v"])]
    objs = [p for p, v in ps if tname(v) == "object"]
    out = []
    for _ in range(n):
        p, v = r.choice(ps)
        ref = ("sym", root + p)
        k = r.below(14)
        if k == 0:
            e = ref
        elif k == 1:
            e = G.norm_interp([("pre-", root + p), ("-post", None)])
        elif k == 2 and strs:
            els = [("sym", root + r.choice(strs)) if r.chance(2, 3) else ("str", r.choice(STRS)) for _ in range(1 + r.below(3))]
            e = ("join", ("str", r.choice([",", "-", ""])), ("arr", els))
        elif k == 3 and strlists:
            e = ("join", ("str", ","), ("sym", root + r.choice(strlists)))
        elif k == 4:
            e = ("tojson", ref)
        elif k == 5:
            e = ("tostring", ref)
        elif k == 6 and strs:
            e = ("tob64", ("sym", root + r.choice(strs)))
        elif k == 7:
            e = ("tob64", ("tostring", ref))
        elif k == 8:
            e = ("arr", [ref, lit_expr(r, 0), ("sym", root + r.choice(ps)[0])][: 1 + r.below(3)])
        elif k == 9:
            e = ("obj", [("in", ref), ("lit", lit_expr(r, 1)), ("deep", ("obj", [("x", ("arr", [ref]))]))][: 1 + r.below(3)])
        elif k == 10 and objs:
            # a literal object with the SAME keys as (part of) the output, next to an access into it
            q = r.choice(objs)
            e = ("obj", [("o", ("sym", root + q)), ("first", ("sym", root + r.choice(ps)[0]))])
        elif k == 11 and strs:
            e = G.norm_interp([("", root + r.choice(strs)), ("/", root + r.choice(strs)), ("", None)])
        elif k == 12:
            e = ("fromjson", ("tojson", ref))
        else:
            e = ref
        out.append(e)
    return out


def consumer_world(r):
    const = rand_const(r, 2 + r.below(2))
    k = r.below(10)
    out_s = G.out_schema_of(const) if k < 4 else "always" if k == 4 else loosen(r, const)
    provs = {"p": {"in": "always", "out": out_s, "beh": "const", "const": const},
             "echo": {"in": "always", "out": "always", "beh": "echo"}}
    shape = r.below(7)
    envs = {}
    opn = ("open", "p", ("obj", [("region", ("str", "x"))] if r.chance(1, 2) else []))
    okeys = sorted(const["v"]["o"])
    over = [(kk, lit_expr(r, 1)) for kk in r.shuffle(okeys + ["a", "zz"])[: 1 + r.below(3)]]
    if shape == 0:
        # the output consumed where it is defined
        vals = [("o", opn)]
        root_o = [("name", "o")]
    elif shape == 1:
        # defined in an import, consumed in the importer; a literal object merged OVER it
        envs["base"] = {"imports": [], "values": [("o", opn), ("cfg", opn if r.chance(1, 2) else ("sym", [("name", "o")]))]}
        vals = [("cfg", ("obj", over))]
        root_o = r.choice([[("name", "o")], [("name", "cfg")], [("name", "imports"), ("name", "base"), ("name", "o")]])
    elif shape == 2:
        # a literal object in an import, the output merged over it (the output is the top layer)
        envs["base"] = {"imports": [], "values": [("o", ("obj", over))]}
        vals = [("o", opn)]
        root_o = [("name", "o")]
    elif shape == 3:
        # two imports defining the same key: provider output and literal, either order; the root adds a third layer
        a = {"imports": [], "values": [("o", opn)]}
        b = {"imports": [], "values": [("o", ("obj", over))]}
        envs["base"], envs["lits"] = a, b
        vals = [("o", ("obj", [("added", lit_expr(r, 0))]))] if r.chance(1, 2) else []
        root_o = [("name", "o")]
    elif shape == 4:
        # nested: the output below a literal object / inside an array
        vals = [("w", ("obj", [("inner", opn), ("n", ("num", "1"))])), ("arr", ("arr", [opn if r.chance(1, 2) else ("sym", [("name", "w"), ("name", "inner")]), ("str", "t")]))]
        root_o = r.choice([[("name", "w"), ("name", "inner")], [("name", "arr"), ("idx", 0)]])
    elif shape == 6:
        # two provider outputs merged: an import defines the key with one provider, the importer with another
        const2 = rand_const(r, 2)
        k2 = r.below(6)
        provs["p2"] = {"in": "always", "out": G.out_schema_of(const2) if k2 < 2 else "always" if k2 == 2 else loosen(r, const2),
                       "beh": "const", "const": const2}
        envs["base"] = {"imports": [], "values": [("o", ("open", "p2", ("obj", [])))]}
        vals = [("o", opn)]
        root_o = [("name", "o")]
    else:
        # passed on as inputs of a second provider (echo returns its inputs), then consumed
        ps = paths(const)
        ins = [("x", ("sym", [("name", "o")] + r.choice(ps)[0])), ("y", lit_expr(r, 1)), ("z", ("sym", [("name", "o")]))][: 1 + r.below(3)]
        vals = [("o", opn), ("q", ("open", "echo", ("obj", ins)))]
        root_o = [("name", "o")]
        # consume q as well: its opened value is the inputs
    imports = [(n, True) for n in (r.shuffle(sorted(envs)) if shape == 3 else sorted(envs))]
    # the value the consumers see under root_o when the environment is opened: only needed to pick valid paths; with a
    # literal merged over / under it the keys of the constant still exist (values may differ), arrays are replaced:
    seen = const
    if shape == 6:
        # the top layer's scalars and arrays win; objects merge with the other output's: only non-object members are read
        seen = {"s": False, "u": False, "v": {"o": {kk: vv for kk, vv in const["v"]["o"].items() if tname(vv) != "object"}}}
    if shape in (1, 2, 3):
        seen = {"s": False, "u": False, "v": {"o": {kk: vv for kk, vv in const["v"]["o"].items()
                                                    if not any(o[0] == kk for o in over)}}}
        if not seen["v"]["o"]:
            seen = {"s": False, "u": False, "v": {"o": {}}}
    cons = consumers(r, root_o, seen, 2 + r.below(5), out_s)
    if shape == 5:
        cons += [("sym", [("name", "q"), ("name", ins[0][0])]), ("tojson", ("sym", [("name", "q")]))][: 1 + r.below(2)]
    vals = vals + [("c%d" % i, e) for i, e in enumerate(cons)]
    if r.chance(1, 8):
        vals.append(("bad", ("sym", [("name", "o"), ("name", "nope")])))       # a diagnostic: outside the hypothesis
    envs["root"] = {"imports": imports, "values": vals}
    c = G.case_from_graph(envs, "root")
    c["provs"] = provs
    c["sites"] = []
    c["family"] = "consumer/%d" % shape
    return c


def literal_world(r):
    nenv = 1 + r.below(3)

    def valgen(rr, i):
        return [(k, lit_expr(rr, 2)) for k in rr.shuffle(["a", "b", "c"])[: 1 + rr.below(3)]]
    envs = G.gen_graph(r, nenv, valgen=valgen)
    root = "e%d" % (nenv - 1)
    vals = envs[root]["values"]
    names = [k for k, _ in vals]
    if names and r.chance(2, 3):
        vals.append(("ref", ("sym", [("name", r.choice(names))])))
        vals.append(("s", G.norm_interp([("v=", [("name", r.choice(names))]), ("", None)])))
    if r.chance(1, 3):
        vals.append(("sec", ("secret", "hunter2")))
    c = G.case_from_graph(envs, root)
    c["provs"] = {}
    c["sites"] = []
    c["family"] = "literal"
    return c


# ---------------------------------------------------------------------------------------------------------------
# providers declaring unions (anyOf / oneOf of records): schema oracle only
def js_of(v, exact=True):
    """JSON Schema (closed record / tuple / type) of a plain python value"""
    if v is None:
        return {"type": "null"}
    if isinstance(v, bool):
        return {"type": "boolean"}
    if isinstance(v, (int, float)):
        return {"type": "number"}
    if isinstance(v, str):
        return {"type": "string"}
    if isinstance(v, list):
        return {"type": "array", "prefixItems": [js_of(e) for e in v], "items": False}
    d = {"type": "object", "properties": {k: js_of(e) for k, e in v.items()}, "required": sorted(v)}
    if exact:
        d["additionalProperties"] = False
    return d


def union_world(r):
    const = rand_const(r, 2)
    pv = plain(const)
    me = js_of(pv, exact=r.chance(1, 2))
    # alternatives that do not accept the constant at the top (another discriminating member), but declare some of the same
    # property names with the same or another type
    alts = []
    for i in range(1 + r.below(2)):
        other = {"type": "object", "properties": {"kind%d" % i: {"type": "string"}}, "required": ["kind%d" % i]}
        for k in sorted(pv):
            if r.chance(1, 2):
                other["properties"][k] = js_of(pv[k]) if r.chance(1, 2) else r.choice([{"type": "string"}, {"type": "number"}, True])
        alts.append(other)
    kw = r.choice(["anyOf", "oneOf"])
    members = r.shuffle([me] + alts)
    sch = {kw: members}
    if not r.chance(1, 4):
        sch["type"] = "object"      # without it check reports "receiver must be an array or an object" on every access
    provs = {"p": {"in": "always", "out": {"t": "json", "schema": sch}, "beh": "const", "const": const}}
    cons = consumers(r, [("name", "o")], const, 2 + r.below(4))
    vals = [("o", ("open", "p", ("obj", [])))] + [("c%d" % i, e) for i, e in enumerate(cons)]
    c = G.case_from_graph({"root": {"imports": [], "values": vals}}, "root")
    c["provs"] = provs
    c["sites"] = []
    c["family"] = "union/" + kw
    c["schema_only"] = True
    return c


# ---------------------------------------------------------------------------------------------------------------
# wire
ANNOTATIONS = ("title", "description", "default", "deprecated", "examples", "secret")


class Unsupported(Exception):
    pass


def clean_schema(s, root=True):
    """esc's schema JSON -> the vocabulary of Model/Schema.v.  Dropped: the annotation keywords (title, description, default,
    deprecated, examples and esc's `secret'), which assert nothing, and `"type": ""`, which is how esc prints a schema without
    `type' (the Go field has no omitempty).  Anything else that Model/Schema.v has no place for is Unsupported."""
    if isinstance(s, bool):
        return s
    if not isinstance(s, dict):
        raise Unsupported("schema is neither boolean nor object")
    out = {}
    for k, v in s.items():
        if k in ANNOTATIONS:
            continue
        if k == "type":
            if v == "":
                continue
            if v not in S8.TYPES:
                raise Unsupported("type %r" % (v,))
            out[k] = v
        elif k in ("properties",):
            out[k] = {kk: clean_schema(x, False) for kk, x in v.items()}
        elif k in ("anyOf", "oneOf", "prefixItems"):
            out[k] = [clean_schema(x, False) for x in v]
        elif k in ("items", "additionalProperties"):
            out[k] = clean_schema(v, False)
        elif k in ("$ref", "$defs"):
            raise Unsupported(k)                    # the evaluator never produces them; provider schemas here have none
        elif k in S8.KNOWN_KEYS:
            out[k] = v
        else:
            raise Unsupported("keyword %r" % k)
    return out


def schema_wire(text):
    if not text:
        return "none"
    try:
        s = clean_schema(json.loads(text))
        d, b = S8.root_sexp(s)
        return "(s %s %s)" % (d, b)
    except (Unsupported, ValueError, AssertionError, KeyError, TypeError):
        return "unsup"


def value_wire(text):
    if not text:
        return "none"
    try:
        return S8.j_sexp(json.loads(text), canon=True)
    except (ValueError, AssertionError, TypeError):
        return "unsup"


def tf(b):
    return "t" if b else "f"


def out_to_json(s):
    """declared output schema (evalgen's language, as harness/cmd/implrun/ev.go schemaFrom builds it) -> JSON Schema"""
    if isinstance(s, str):
        return True if s == "always" else False if s == "never" else {"type": s}
    if s["t"] == "json":
        return s["schema"]
    if s["t"] == "array":
        d = {"type": "array", "prefixItems": [out_to_json(p) for p in s.get("prefix", [])]}
        if s.get("items") is not None:
            d["items"] = out_to_json(s["items"])
        return d
    d = {"type": "object", "properties": {k: out_to_json(p) for k, p in s["props"].items()}}
    if isinstance(s.get("required"), list):
        d["required"] = list(s["required"])
    if s.get("addl") is not None:
        d["additionalProperties"] = out_to_json(s["addl"])
    if s.get("depreq"):
        d["dependentRequired"] = {k: list(v) for k, v in s["depreq"].items()}
    return d


def provs_wire(case):
    out = []
    for n, p in sorted(case.get("provs", {}).items()):
        try:
            d, b = S8.root_sexp(clean_schema(out_to_json(p["out"])))
            sw = "(s %s %s)" % (d, b)
        except (Unsupported, ValueError, AssertionError, KeyError, TypeError):
            sw = "unsup"
        cw = "none"
        if p["beh"] == "const":
            try:
                cw = S8.j_sexp(plain(p["const"]), canon=True)
            except (ValueError, AssertionError, TypeError):
                cw = "none"
        out.append("(p %s %s %s)" % (G.sx(n), sw, cw))
    return "(%s)" % " ".join(out)


def schema_part(case, m):
    """(sch conform open_errors open_unknowns <schema of check> <schema of check+show> <opened value> <providers>
    <schema of the open run>)"""
    if len(m) == 3 and any(("crash" in x or "panic" in x) for x in m):
        return None                       # a crashed / panicked run is never "outside the hypothesis": the caller fails the case
    if len(m) != 3 or any(x.get("loaderr") for x in m):
        return "(sch f t t none none none ())"
    op = m[2]
    s1, s2 = schema_wire(m[0].get("schema")), schema_wire(m[1].get("schema"))
    if s2 == s1 and s1.startswith("("):
        s2 = "same"
    return "(sch %s %s %s %s %s %s %s %s)" % (tf(providers_conform(case, op)), tf(op.get("errors") is not False),
                                            tf(op.get("unknowns") is not False), s1, s2, value_wire(op.get("json")),
                                            provs_wire(case), schema_wire(op.get("schema")))


# ---------------------------------------------------------------------------------------------------------------
# measurements for the evidence (never part of the verdict): classification of every case with respect to the clause, and
# the evaluator model's schema against the implementation's
EXTRA = {}
CLASSES = {0: "outside_hypothesis", 1: "inside_accepted", 2: "inside_rejected_new", 3: "inside_rejected_known_several_classes",
           4: "inside_vocabulary_not_covered", 5: "inside_rejected_known_merge_required",
           6: "inside_rejected_known_merge_additional", 7: "inside_rejected_known_absent_is_never",
           8: "inside_rejected_known_union_oneof", 9: "inside_rejected_known_merge_open_base",
           10: "inside_rejected_known_merge_through_cut", 11: "inside_rejected_known_merge_optional_member"}
CMP = {0: "agree", 1: "disagree", 2: "impl_schema_outside_model_vocabulary", 3: "no_model_schema",
       4: "agree_only_without_the_final_merge_of_evalEnvironment",
       5: "disagree_inside_history_class", 6: "agree_inside_history_class"}


def all_defs(c):
    return [c["def"]] + [e["def"] for _, e in sorted(c.get("envs", {}).items()) if e["kind"] == "def"]


def measure(prop, cases, r):
    exe, log = C.build_modelrun(prop)
    if exe is None:
        return {"error": "no extracted runner: " + log[-300:]}
    qlines, qidx, clines, cidx = [], [], [], []
    for i, (c, o) in enumerate(zip(cases, r["obs"])):
        m = o.get("multi") or []
        if "crash" in o or "panic" in o or len(m) != 3:
            continue
        if schema_part(c, m) is None:
            continue
        if c.get("schema_only"):
            qlines.append("(c06q (%s) %s)" % (" ".join(G.w_envdef(d) for d in all_defs(c)), schema_part(c, m)))
            qidx.append(i)
            continue
        # with the world: class F (merge-through-cut) is decided on the evaluator model
        qlines.append("(c06qw %s %s %s %s)" % (G.sx(c["name"]), G.w_envdef(c["def"]), G.w_world(c), schema_part(c, m)))
        qidx.append(i)
        for k, (chk, show) in enumerate([(True, False), (True, True), (False, False)]):
            if "crash" in m[k] or "panic" in m[k] or m[k].get("loaderr"):
                continue
            clines.append("(c06cmp %s %s %s %s %s %s)" % (G.sx(c["name"]), G.w_envdef(c["def"]), G.w_world(c), tf(chk), tf(show),
                                                         schema_wire(m[k].get("schema"))))
            cidx.append((i, ("check", "check+show", "open")[k]))
    qv = C.run_model_lines(exe, qlines)
    cv = C.run_model_lines(exe, clines)
    per_family = {}
    tot = {v: 0 for v in CLASSES.values()}
    reasons = {"open_run_has_diagnostics": 0, "open_value_has_unknowns": 0, "a_called_provider_does_not_conform": 0}
    for i, v in zip(qidx, qv):
        name = CLASSES.get(v, "no_verdict")
        fam = (cases[i].get("family") or "general").split("/")[0]
        per_family.setdefault(fam, {})
        per_family[fam][name] = per_family[fam].get(name, 0) + 1
        tot[name] = tot.get(name, 0) + 1
        if v == 0:
            op = r["obs"][i]["multi"][2]
            if op.get("errors") is not False:
                reasons["open_run_has_diagnostics"] += 1
            elif op.get("unknowns") is not False:
                reasons["open_value_has_unknowns"] += 1
            else:
                reasons["a_called_provider_does_not_conform"] += 1
    cmp_tot = {}
    first = {}
    for (i, mode), v in zip(cidx, cv):
        name = CMP.get(v, "no_verdict")
        cmp_tot.setdefault(mode, {})
        cmp_tot[mode][name] = cmp_tot[mode].get(name, 0) + 1
        if v == 1 and mode not in first:
            first[mode] = {"root": G.render_env(cases[i]["def"]), "implementation_schema": r["obs"][i]["multi"][("check", "check+show", "open").index(mode)].get("schema")}
    EXTRA["schema_model_vs_impl"] = {"runs_compared": len(clines), "by_mode": cmp_tot, "first_disagreement": first,
                                     "projection": "type / prefixItems+items / properties+additionalProperties / oneOf / true / false; "
                                                   "const and required (and annotations) projected away"}
    return {"cases_classified": len(qlines), "totals": tot, "outside_because": reasons, "by_family": per_family}


# ---------------------------------------------------------------------------------------------------------------
# schemas that depend on the merge HISTORY (Corr/C06Schema.v hist_class): values that absorb a non-nil additionalProperties
# of their base (closed / map-like provider records that are not opened) and are merged again - by a reference, by the parent's
# re-merge, by a further import.  The family aims at the border of the class from both sides: the same shapes without a
# reference, without an absorbing layer, with the reference evaluated before / after its target's parent.
# The family serves the comparison of the MODEL's schema with the implementation's only ("schema_cmp_only": wire kind c06h,
# value / diagnostics flag / call log are not compared: the model's repeated unknown layers read a typed
# additionalProperties as `true`, which can change a diagnostic - selftest/witness/C06-model-repeated-unknown-layer.replay.json).
# The schema clause's oracle judges this family as well (wire kind c06h carries the schema part): its references over null /
# scalar layers of imports are where finding C06-schema-merge-through-cut was first seen.
HKEYS = ["a", "b", "k", "z"]


def _hist_out(r, depth=2):
    """declared output: record with declared members, additionalProperties nil / false / a type / true, nested records"""
    if depth == 0 or r.chance(1, 4):
        return r.choice(["string", "number", "boolean", "always", "object"])
    props = {}
    for k in r.shuffle(HKEYS + ["val"])[: r.below(3)]:
        props[k] = _hist_out(r, depth - 1)
    d = {"t": "object", "props": props, "required": sorted(props)[: r.below(len(props) + 1)]}
    a = r.below(5)
    if a == 0:
        d["addl"] = "never"
    elif a == 1:
        d["addl"] = "string"
    elif a == 2:
        d["addl"] = "always"
    elif a == 3:
        d["addl"] = _hist_out(r, depth - 1)
    return d


def _hist_lit(r, depth):
    if depth == 0 or r.chance(1, 3):
        return r.choice([("num", "1"), ("str", "x"), ("bool", True), ("null",)])
    return ("obj", [(k, _hist_lit(r, depth - 1)) for k in r.shuffle(HKEYS)[: r.below(3)]])


def _hist_conform(r, out):
    """a constant the declared output accepts (records: the declared members, sometimes an additional one)"""
    if isinstance(out, str):
        return G.xspec({"string": "x", "number": ("num", "1"), "boolean": True, "always": "x", "object": {}}.get(out, "x"))
    m = {k: _hist_conform(r, v) for k, v in out["props"].items()}
    ad = out.get("addl")
    if ad not in (None, "never") and r.chance(1, 2):
        m["more"] = _hist_conform(r, ad)
    return G.xspec(m)


def history_world(r):
    nprov = 1 + r.below(2)
    provs = {}
    for i in range(nprov):
        out = _hist_out(r, 2 + r.below(2))
        beh = r.choice(["fail", "fail", "echo", "const"])
        provs["h%d" % i] = {"in": "always", "out": out, "beh": beh}
        if beh == "const":
            provs["h%d" % i]["const"] = _hist_conform(r, out)
            if not isinstance(provs["h%d" % i]["const"]["v"], dict) or "o" not in provs["h%d" % i]["const"]["v"]:
                provs["h%d" % i]["beh"] = "fail"
                del provs["h%d" % i]["const"]
    nenv = 1 + r.below(3)
    names = ["e%d" % i for i in range(nenv)] + ["root"]
    with_refs = r.chance(3, 4)
    opn = lambda: ("open", r.choice(sorted(provs)), ("obj", []))
    envs = {}
    for i, n in enumerate(names):
        imports = []
        if i > 0:
            for m in r.shuffle(names[:i])[: 1 + r.below(min(i, 2))]:
                imports.append((m, not r.chance(1, 8)))
        keys = r.shuffle(HKEYS)[: 1 + r.below(len(HKEYS))]
        vals = []
        for k in keys:
            c = r.below(12)
            if c < 3:
                e = opn()
            elif c < 5:
                inner = [(kk, opn() if r.chance(1, 2) else _hist_lit(r, 1)) for kk in r.shuffle(HKEYS)[: 1 + r.below(2)]]
                if r.chance(1, 4):
                    inner = [(kk, ("obj", [(r.choice(HKEYS), v)]) if r.chance(1, 2) else v) for kk, v in inner]
                e = ("obj", inner)
            elif c < 8 or not with_refs:
                e = _hist_lit(r, 2)
            elif c == 8:
                e = ("arr", [opn() if r.chance(1, 2) else _hist_lit(r, 1), _hist_lit(r, 1)][: 1 + r.below(2)])
            else:
                e = None
            vals.append((k, e))
        # references: to a sibling key (declared here or only in an import), to a member, forwards and backwards
        out = []
        for k, e in vals:
            if e is None:
                tgt = r.choice(HKEYS)
                path = [("name", tgt)] + [("name", r.choice(HKEYS + ["val"])) for _ in range(r.below(3))]
                if tgt == k and len(path) == 1:
                    path = [("name", r.choice([x for x in HKEYS if x != k]))]
                e = ("sym", path)
                if r.chance(1, 6):
                    e = ("obj", [(r.choice(HKEYS), e), (r.choice(HKEYS), _hist_lit(r, 1))][: 1 + r.below(2)])
            out.append((k, e))
        if with_refs and r.chance(1, 3):
            out.append(("r%d" % i, ("sym", [("name", r.choice(HKEYS))] + ([("name", r.choice(HKEYS))] if r.chance(1, 2) else []))))
        if with_refs and r.chance(1, 6) and imports:
            out.append(("i%d" % i, ("sym", [("name", "imports"), ("name", imports[0][0]), ("name", r.choice(HKEYS))])))
        seen, ded = set(), []
        for k, e in out:
            if k not in seen and not (e[0] == "obj" and len(set(x[0] for x in e[1])) != len(e[1])):
                seen.add(k)
                ded.append((k, e))
        envs[n] = {"imports": imports, "values": r.shuffle(ded)}
    c = _world(envs, provs, "history/" + ("refs" if with_refs else "norefs"))
    c["schema_cmp_only"] = True
    return c


def history_regressions():
    """the minimal programs of the two ways the merge history shows (both inside hist_class: measured, never a mismatch) and
    their neighbours outside the class (compared)"""
    closed = {"t": "object", "props": {"val": "boolean"}, "required": ["val"], "addl": "never"}
    p = {"p": {"in": "always", "out": closed, "beh": "fail"}}
    opn = ("open", "p", ("obj", []))
    one = ("num", "1")
    sym = lambda *n: ("sym", [("name", x) for x in n])
    out = []
    # 1: a reference copies a value whose schema already absorbed its base's additionalProperties, then merges it again
    out.append(_world({"e1": {"imports": [], "values": [("v1", opn), ("v2", one)]},
                       "root": {"imports": [("e1", True)], "values": [("v1", ("obj", [])), ("v2", sym("v1"))]}}, p, "history/min1"))
    # ... the neighbours: no base at the referencing key; no reference
    out.append(_world({"e1": {"imports": [], "values": [("v1", opn)]},
                       "root": {"imports": [("e1", True)], "values": [("v1", ("obj", [])), ("v2", sym("v1"))]}}, p, "history/min1n"))
    out.append(_world({"e1": {"imports": [], "values": [("v1", opn), ("v2", one)]},
                       "root": {"imports": [("e1", True)], "values": [("v1", ("obj", [])), ("v2", ("obj", []))]}}, p, "history/min1n"))
    # 2: the parent's merge re-merges an already evaluated member in place; a reference evaluated AFTER it sees the re-merged
    #    schema, one evaluated BEFORE it (a0 sorts before z) does not
    out.append(_world({"e1": {"imports": [], "values": [("a", ("obj", [("x", opn)]))]},
                       "root": {"imports": [("e1", True)], "values": [("a", ("obj", [("x", ("obj", []))])), ("b", sym("a", "x"))]}},
                      p, "history/min2"))
    out.append(_world({"e1": {"imports": [], "values": [("z", ("obj", [("x", opn)]))]},
                       "root": {"imports": [("e1", True)], "values": [("z", ("obj", [("x", ("obj", []))])), ("a0", sym("z", "x"))]}},
                      p, "history/min2n"))
    for c in out:
        c["schema_cmp_only"] = True
    return out


# ---------------------------------------------------------------------------------------------------------------
# regression corpus of the clause: the minimal programs of the five findings (selftest/witness/C06-schema-*.json) and their
# neighbours that must be accepted
def _world(envs, provs, family, schema_only=False):
    c = G.case_from_graph(envs, "root")
    c["provs"] = provs
    c["sites"] = []
    c["family"] = family
    if schema_only:
        c["schema_only"] = True
    return c


def regression_worlds():
    opn = ("open", "p", ("obj", []))
    const = G.xspec({"user": "tok3n"})
    partial = {"t": "object", "props": {"user": "string", "more": "string"}, "required": ["user"]}
    exact = G.out_schema_of(const)
    out = []
    # A merge-required: importing is enough
    for sch in (partial, exact, "always", "object"):
        p = {"p": {"in": "always", "out": sch, "beh": "const", "const": const}}
        out.append(_world({"base": {"imports": [], "values": [("o", opn)]},
                           "root": {"imports": [("base", True)], "values": [("x", ("num", "1"))]}}, p, "regression/A"))
        out.append(_world({"base": {"imports": [], "values": [("o", opn)]},
                           "root": {"imports": [("base", True)], "values": [("o", ("obj", [("a", ("num", "1"))]))]}}, p, "regression/A"))
        out.append(_world({"root": {"imports": [], "values": [("o", opn)]}}, p, "regression/A"))
    # B merge-additional: the provider output (top) supplies a key its schema does not declare, the base literal declares it
    cb = G.xspec({"a": "x", "tok": "t"})
    for sch in ("object", {"t": "object", "props": {"tok": "string"}, "required": ["tok"], "addl": "string"}, G.out_schema_of(cb)):
        p = {"p": {"in": "always", "out": sch, "beh": "const", "const": cb}}
        out.append(_world({"base": {"imports": [], "values": [("o", ("obj", [("a", ("bool", True))]))]},
                           "root": {"imports": [("base", True)], "values": [("o", opn)]}}, p, "regression/B"))
    # C absent-is-never: access to a member the schema neither declares nor forbids
    cc = G.xspec({"user": "tok3n", "list": ["a", "b"]})
    for sch in ("object", {"t": "object", "props": {"list": "array"}, "required": []}, G.out_schema_of(cc), "always"):
        p = {"p": {"in": "always", "out": sch, "beh": "const", "const": cc}}
        out.append(_world({"root": {"imports": [], "values": [("o", opn), ("c", ("sym", [("name", "o"), ("name", "user")])),
                                                              ("d", ("sym", [("name", "o"), ("name", "list"), ("idx", 1)]))]}},
                          p, "regression/C"))
    # E merge-open-base: a closed provider output merged over a provider output declared `true` / `{type: object}`
    for sch2 in ("always", "object", G.out_schema_of(G.xspec({"extra": ("num", "1")}))):
        p = {"p": {"in": "always", "out": exact, "beh": "const", "const": const},
             "p2": {"in": "always", "out": sch2, "beh": "const", "const": G.xspec({"extra": ("num", "1")})}}
        out.append(_world({"base": {"imports": [], "values": [("o", ("open", "p2", ("obj", [])))]},
                           "root": {"imports": [("base", True)], "values": [("o", opn)]}}, p, "regression/E"))
    # the other arm of E: the BASE's additionalProperties survives a top that has none (a bare `type: object` supplies members
    # of any type); seen through a reader of such a member, and in the merged object itself
    for sch2, c2 in (({"t": "object", "props": {}, "required": [], "addl": "boolean"}, G.xspec({"flag": True})),
                     ({"t": "object", "props": {}, "required": [], "addl": "boolean"}, G.xspec({})),
                     ({"t": "object", "props": {}, "required": [], "addl": "always"}, G.xspec({"flag": True})),
                     ("object", G.xspec({"flag": True}))):
        for sch in ("object", "always", {"t": "object", "props": {}, "required": [], "addl": "number"}):
            p = {"p": {"in": "always", "out": sch, "beh": "const", "const": G.xspec({"user": ("num", "7")})},
                 "p2": {"in": "always", "out": sch2, "beh": "const", "const": c2}}
            out.append(_world({"base": {"imports": [], "values": [("o", ("open", "p2", ("obj", [])))]},
                               "root": {"imports": [("base", True)],
                                        "values": [("o", opn), ("c", ("sym", [("name", "o"), ("name", "user")]))]}}, p, "regression/E2"))
    # F merge-through-cut: a reference copies its target with its chain; a non-object layer in that chain cuts the merge with
    # the base of the referencing key, the parent's schema merge does not see it.  Cut layers: null, number, array, a provider
    # output; one and two levels deep; and the neighbours that must be accepted (no reference: the fold sees the cut;
    # no cut: the reference merges through; no base at the referencing key)
    one, tru = ("num", "1"), ("bool", True)
    sym = lambda *n: ("sym", [("name", x) for x in n])
    for cut in (("null",), ("num", "0"), ("arr", [("obj", [])]), ("str", "s")):
        out.append(_world({"e0": {"imports": [], "values": [("a", cut), ("z", ("obj", [("k", one)]))]},
                           "root": {"imports": [("e0", True)], "values": [("a", ("obj", [("val", tru)])), ("z", sym("a"))]}},
                          {}, "regression/F"))
    out.append(_world({"e0": {"imports": [], "values": [("a", ("null",)), ("w", ("obj", [("z", ("obj", [("k", one)]))]))]},
                       "root": {"imports": [("e0", True)],
                                "values": [("a", ("obj", [("val", tru)])), ("w", ("obj", [("z", sym("a"))]))]}}, {}, "regression/F"))
    out.append(_world({"e0": {"imports": [], "values": [("a", ("null",)), ("z", ("obj", [("k", ("obj", [("x", one)])), ("y", one)]))]},
                       "root": {"imports": [("e0", True)],
                                "values": [("a", ("obj", [("k", ("obj", [("val", tru)]))])), ("z", sym("a"))]}}, {}, "regression/F"))
    # ... a second reference reads the referencing key (its own schema is right: only the PARENT's merge is wrong)
    out.append(_world({"e0": {"imports": [], "values": [("a", ("null",)), ("z", ("obj", [("k", one)]))]},
                       "root": {"imports": [("e0", True)],
                                "values": [("a", ("obj", [("val", tru)])), ("z", sym("a")), ("y", sym("z")), ("s", ("tojson", sym("z")))]}},
                      {}, "regression/F"))
    # ... the cut two imports down, the reference in the middle one
    out.append(_world({"e0": {"imports": [], "values": [("a", ("null",)), ("z", ("obj", [("k", one)]))]},
                       "e1": {"imports": [("e0", True)], "values": [("a", ("obj", [("val", tru)])), ("z", sym("a"))]},
                       "root": {"imports": [("e1", True)], "values": [("z", ("obj", [("top", one)]))]}}, {}, "regression/F"))
    # ... a provider output above the cut
    pf = {"p": {"in": "always", "out": {"t": "object", "props": {}, "required": [], "addl": "always"}, "beh": "const",
                "const": G.xspec({"more": "x"})}}
    out.append(_world({"e0": {"imports": [], "values": [("a", ("arr", [])), ("z", ("obj", [("k", one)]))]},
                       "root": {"imports": [("e0", True)], "values": [("a", opn), ("z", sym("a"))]}}, pf, "regression/F"))
    # ... neighbours
    out.append(_world({"e0": {"imports": [], "values": [("z", ("obj", [("k", one)]))]},
                       "e1": {"imports": [], "values": [("z", ("null",))]},
                       "root": {"imports": [("e0", True), ("e1", True)], "values": [("z", ("obj", [("val", tru)]))]}},
                      {}, "regression/Fn"))
    out.append(_world({"e0": {"imports": [], "values": [("a", ("obj", [("j", one)])), ("z", ("obj", [("k", one)]))]},
                       "root": {"imports": [("e0", True)], "values": [("a", ("obj", [("val", tru)])), ("z", sym("a"))]}},
                      {}, "regression/Fn"))
    out.append(_world({"e0": {"imports": [], "values": [("a", ("null",))]},
                       "root": {"imports": [("e0", True)], "values": [("a", ("obj", [("val", tru)])), ("z", sym("a"))]}},
                      {}, "regression/Fn"))
    # G merge-optional-member: a literal merged over a member the base MAY have (an optional declared property / a member
    # admitted by additionalProperties) inherits what that member's schema requires, although the provider returns no such member
    inner = {"t": "object", "props": {"x": "string"}, "required": ["x"]}
    for sch, cst in (({"t": "object", "props": {"opt": inner}, "required": []}, {}),
                     ({"t": "object", "props": {}, "required": [], "addl": inner}, {}),
                     ({"t": "object", "props": {"opt": inner}, "required": []}, {"opt": {"x": "s"}}),
                     ({"t": "object", "props": {"opt": inner}, "required": ["opt"]}, {"opt": {"x": "s"}})):
        p = {"p": {"in": "always", "out": sch, "beh": "const", "const": G.xspec(cst)}}
        out.append(_world({"base": {"imports": [], "values": [("o", opn)]},
                           "root": {"imports": [("base", True)], "values": [("o", ("obj", [("opt", ("obj", [("y", one)]))]))]}},
                          p, "regression/G"))
    # providers that do NOT return what they declare: check's schema rejects the opened value, the hypothesis excludes the case
    for sch in ("array", {"t": "object", "props": {"user": "number"}, "required": ["user"], "addl": "never"}):
        p = {"p": {"in": "always", "out": sch, "beh": "const", "const": const}}
        out.append(_world({"root": {"imports": [], "values": [("o", opn)]}}, p, "regression/nonconforming"))
    # D union-oneof: two alternatives declare the member with the same schema
    alt1 = {"type": "object", "properties": {"kind": {"type": "string"}, "user": {"type": "string"}}, "required": ["kind"]}
    alt2 = {"type": "object", "properties": {"user": {"type": "string"}}, "required": ["user"], "additionalProperties": False}
    for kw in ("anyOf", "oneOf"):
        p = {"p": {"in": "always", "out": {"t": "json", "schema": {"type": "object", kw: [alt1, alt2]}}, "beh": "const", "const": const}}
        out.append(_world({"root": {"imports": [], "values": [("o", opn), ("c", ("sym", [("name", "o"), ("name", "user")]))]}},
                          p, "regression/D", schema_only=True))
    return out
