"""C01 — imports compose by ordered JSON merge patch."""
from .. import common as C
from .. import evalgen as G

ID = "C01"
impl_prop = "EV"
SRC_FACTS = []
COQ_SAMPLE = 60
RULE = ("acyclic import graphs of literal environments (2..6 envs quick, ..10 thorough; repetition, diamonds, merge:false 1 in 5) "
        "over keys {a,b,c}, depth <= 3, each environment of each graph taken as root; plus the exhaustive family "
        "'three layers x five shapes x four nestings' at one key.  Per case the implementation evaluates the root and each "
        "import on its own; spec = left fold of merge patch over the imports' observed values then the own literal. "
        "non-trivial = the root has at least one import")
ASSUMPTIONS = ["own values are literals (references and built-ins are C02's domain); key alphabet {a,b,c}",
               "the fold is checked one level at a time (every environment of every graph is also a root), which "
               "covers every depth by induction"]
TRUSTED = ["Python YAML rendering of generated ASTs (JSON-flavoured YAML)"]

SHAPES = [("null",), ("num", "5"), ("arr", [("num", "1")]), ("obj", [("p", ("num", "1"))]), ("obj", [("q", ("num", "2"))])]
# shapes with a shared nested key: object / scalar / object alternation must cut at EVERY depth
DEEP = [("obj", [("b", ("obj", [("y", ("num", "2"))])), ("z", ("num", "9"))]), ("str", "s"), ("obj", [("b", ("obj", [("x", ("num", "1"))]))]),
        ("obj", [("b", ("num", "7"))]), ("obj", [("b", ("obj", [("y", ("num", "3")), ("x", ("num", "4"))]))])]


def nest(e, n):
    for _ in range(n):
        e = ("obj", [("w", e)])
    return e


def gen(rng, tier):
    cases = []
    thorough = tier == "thorough"
    # exhaustive: three layers (two imports + own, or a chain of imports) x five shapes x four nestings at key x
    for n in range(4):
        for s0 in SHAPES:
            for s1 in SHAPES:
                for s2 in SHAPES:
                    # flat: root imports [A, B]
                    envs = {"A": {"imports": [], "values": [("x", nest(s0, n))]},
                            "B": {"imports": [], "values": [("x", nest(s1, n))]},
                            "R": {"imports": [("A", True), ("B", True)], "values": [("x", nest(s2, n))]}}
                    cases.append(G.case_from_graph(envs, "R"))
                    # nested: B imports A, root imports [B] (B's group has two layers)
                    envs = {"A": {"imports": [], "values": [("x", nest(s0, n))]},
                            "B": {"imports": [("A", True)], "values": [("x", nest(s1, n))]},
                            "F": {"imports": [], "values": [("x", nest(s2, n))]},
                            "R": {"imports": [("F", True), ("B", True)], "values": []}}
                    if thorough or rng.chance(1, 3):
                        cases.append(G.case_from_graph(envs, "R"))
    for s0 in DEEP:
        for s1 in DEEP:
            for s2 in DEEP:
                envs = {"A": {"imports": [], "values": [("o", s0)]}, "B": {"imports": [], "values": [("o", s1)]},
                        "C": {"imports": [], "values": [("o", s2)]},
                        "R": {"imports": [("A", True), ("B", True), ("C", True)], "values": []}}
                cases.append(G.case_from_graph(envs, "R"))
                envs = {"A": {"imports": [], "values": [("o", s0)]}, "B": {"imports": [], "values": [("o", s1)]},
                        "R": {"imports": [("A", True), ("B", True)], "values": [("o", s2)]}}
                cases.append(G.case_from_graph(envs, "R"))
    # a leaf imported after a merged sibling and again later in the closure (shared cache entry must not be mutated)
    for s0 in DEEP[:3]:
        for s1 in DEEP[:3]:
            for order in ([("x", True), ("b", True), ("y", True), ("c", True)], [("b", True), ("x", True), ("c", True)],
                          [("x", True), ("b", True), ("c", False)], [("x", True), ("c", True), ("b", True)]):
                envs = {"x": {"imports": [], "values": [("k", ("num", "1")), ("o", s0)]},
                        "b": {"imports": [], "values": [("o", s1)]}, "y": {"imports": [], "values": [("k", ("num", "3"))]},
                        "c": {"imports": [("b", True)], "values": []},
                        "R": {"imports": order, "values": [("seen", ("sym", [("name", "imports"), ("name", "c")]))] if not order[-1][1] else []}}
                c = G.case_from_graph(envs, "R")
                if not order[-1][1]:
                    continue      # own values must be literals for the fold oracle; the merge:false variant is C10's
                cases.append(c)
    # an import that is itself a chain of >= 2 links, layered onto a non-empty running base: a key present only in
    # some links of the chain (in particular only in a middle link) must still merge key-wise with the earlier import
    opts = [None, DEEP[0], DEEP[2], DEEP[4]]
    mk = lambda s: [("o", s)] if s is not None else [("k", ("num", "1"))]
    for sa in (DEEP[0], DEEP[4]):
        for sc in (None, DEEP[2]):
            for sd in opts:
                for sb in opts:
                    for se in opts + ["absent"]:
                        leaves = {"A": {"imports": [], "values": mk(sa)}, "d": {"imports": [], "values": mk(sd)},
                                  "b": {"imports": [], "values": mk(sb)}}
                        if se == "absent":
                            forms = [{"c": {"imports": [("d", True), ("b", True)], "values": mk(sc)}}]
                        else:
                            leaves["e"] = {"imports": [], "values": mk(se)}
                            forms = [{"c": {"imports": [("d", True), ("b", True), ("e", True)], "values": mk(sc)}},
                                     {"c": {"imports": [("b2", True)], "values": mk(sc)},
                                      "b2": {"imports": [("d2", True)], "values": mk(sb)},
                                      "d2": {"imports": [("e", True)], "values": mk(sd)}}]
                        for f in forms:
                            if not thorough and se != "absent" and not rng.chance(1, 3):
                                continue
                            envs = dict(leaves, **f)
                            envs["R"] = {"imports": [("A", True), ("c", True)], "values": []}
                            cases.append(G.case_from_graph(envs, "R"))
    # imports whose definitions alias their own objects (k: ${obj}): the fold is over the imports' VALUES, so it must hold
    # whatever expressions produced them; in-place merging through an alias shows up as a key nobody else defines changing
    from . import c10 as _c10
    for c in _c10.alias_family() + _c10.sparse_nesting_family():
        d = dict(c["def"])
        own_lit = [(k, e) for k, e in d["values"] if not k.startswith("seen_")]
        cases.append(dict(c, **{"def": {"imports": d["imports"], "values": own_lit}}))
    # the cut of C01-assoc travelling through a reference (C01g_hidden_cut) and variations: the middle value is a
    # scalar / null / array / unknown-by-dangling-reference, the alias is direct or nested, the order of the imports varies
    for mid in (("num", "5"), ("null",), ("arr", [("num", "1")]), ("str", "s"), ("obj", [("z", ("num", "1"))])):
        for alias in (("sym", [("name", "y")]), ("obj", [("w", ("sym", [("name", "y")]))])):
            for order in (["G", "E"], ["E", "G"]):
                for e_imports in ([("F", True)], []):
                    envs = {"F": {"imports": [], "values": [("y", mid)]},
                            "E": {"imports": e_imports, "values": [("y", ("obj", [("c", ("num", "3"))])), ("x", alias)]},
                            "G": {"imports": [], "values": [("x", ("obj", [("b", ("num", "2")), ("w", ("obj", [("b", ("num", "2"))]))]))]},
                            "D": {"imports": [(m, True) for m in order], "values": []}}
                    cases.append(G.case_from_graph(envs, "D"))
    # own values of the root that are ALIASES (a reference to a base-less own object, a read of imports.<x>) placed on a
    # key where a merged import holds an object, nested one to three levels: the alias must merge key-wise like a literal
    for depth in (1, 2, 3):
        for form in range(4):
            inner_imp = nest(("obj", [("host", ("str", "h")), ("port", ("num", "1"))]), 0)
            inner_own = ("obj", [("user", ("str", "u"))])
            imp_val, own_val = inner_imp, inner_own
            for k in ["db", "conn", "z"][:depth - 1][::-1]:
                imp_val, own_val = ("obj", [(k, imp_val), ("keep", ("num", "1"))]), ("obj", [(k, own_val)])
            envs = {"A": {"imports": [], "values": [("cfg", imp_val), ("other", ("num", "1"))]},
                    "M": {"imports": [], "values": [("part", own_val)]}}
            if form == 0:
                root = {"imports": [("A", True)], "values": [("src", own_val), ("cfg", ("sym", [("name", "src")]))]}
            elif form == 1:
                root = {"imports": [("A", True), ("M", False)], "values": [("cfg", ("sym", [("name", "imports"), ("name", "M"), ("name", "part")]))]}
            elif form == 2:
                root = {"imports": [("M", False), ("A", True)], "values": [("cfg", ("sym", [("name", "imports"), ("name", "M"), ("name", "part")])),
                                                                            ("other", ("sym", [("name", "imports"), ("name", "A"), ("name", "cfg")]))]}
            else:
                root = {"imports": [("A", True)], "values": [("zsrc", own_val), ("cfg", ("sym", [("name", "zsrc")])), ("cfg2", ("sym", [("name", "zsrc")]))]}
            envs["R"] = root
            cases.append(G.case_from_graph(envs, "R"))
    # the REFERENCE route through the fold: a key that only the k-th layer below defines (k = 1..4), read from the root by
    # ${t}, ${x.k}, ${x.o.d} and inside an interpolation, with the layers as sibling imports or as a chain of imports, the
    # root with or without an own layer on the same keys (learnt from seeded change C01-l: the lookup of a reference stopped
    # one layer below the nearest one while the exported fold stayed right)
    for n in (2, 3, 4):
        for chain in (False, True):
            for own in (False, True):
                envs = {}
                for i in range(1, n + 1):
                    envs["L%d" % i] = {"imports": [("L%d" % (i - 1), True)] if chain and i > 1 else [],
                                       "values": [("t%d" % i, ("str", "top%d" % i)),
                                                  ("x", ("obj", [("k%d" % i, ("num", str(i))),
                                                                 ("o", ("obj", [("d%d" % i, ("num", str(10 * i)))]))]))]}
                reads = []
                for i in range(1, n + 1):
                    reads += [("r_t%d" % i, ("sym", [("name", "t%d" % i)])),
                              ("r_k%d" % i, ("sym", [("name", "x"), ("name", "k%d" % i)])),
                              ("r_d%d" % i, ("sym", [("name", "x"), ("name", "o"), ("name", "d%d" % i)])),
                              ("r_i%d" % i, G.norm_interp([("<", [("name", "x"), ("name", "o"), ("name", "d%d" % i)]), (">", None)]))]
                ownv = [("x", ("obj", [("mine", ("bool", True)), ("o", ("obj", [("mine", ("bool", True))]))]))] if own else []
                envs["R"] = {"imports": [("L%d" % n, True)] if chain else [("L%d" % i, True) for i in range(1, n + 1)],
                             "values": ownv + reads}
                cases.append(G.case_from_graph(envs, "R"))
    # the ERROR path: an import that cannot be loaded / does not exist / does not parse, listed before, between and after good
    # imports: the good ones are still folded in listed order and stay readable under imports.<name> (seeded change C01-m:
    # nothing after the first failing import was evaluated)
    for bad in ({"kind": "fail"}, None, {"kind": "noparse", "text": "values: [1, 2\n"}):
        for pos in (0, 1, 2, 3):
            goods = [("A", True), ("B", True), ("C", False)]
            listing = goods[:pos] + [("bad", True)] + goods[pos:]
            envs = {"A": {"imports": [], "values": [("x", ("obj", [("a", ("num", "1"))])), ("fromA", ("str", "a"))]},
                    "B": {"imports": [], "values": [("x", ("obj", [("b", ("num", "2"))])), ("fromB", ("str", "b"))]},
                    "C": {"imports": [], "values": [("fromC", ("str", "c"))]},
                    "R": {"imports": listing, "values": [("own", ("sym", [("name", "imports"), ("name", "C"), ("name", "fromC")])),
                                                         ("x", ("obj", [("r", ("num", "3"))]))]}}
            c = G.case_from_graph(envs, "R")
            if bad is not None:
                c["envs"]["bad"] = bad
            cases.append(c)
    # random graphs
    ngraphs = 1500 if thorough else 220
    for _ in range(ngraphs):
        nenv = 2 + rng.below(9 if thorough else 5)
        envs = G.gen_graph(rng, nenv, depth=1 + rng.below(3))
        for i in range(nenv):
            if envs["e%d" % i]["imports"] or rng.chance(1, 4):
                cases.append(G.case_from_graph(envs, "e%d" % i))
    # the SPELLING of a merged import: the plain name, the object form without a merge key (`- b: {}`) and the explicit
    # `merge: true` are the same import (seeded change C01-k: the object form without the key was read as merge: false)
    def respell(d, k):
        forms = ["empty", "explicit", True]
        return {"imports": [(n, forms[(k + i) % 3] if m is True else m) for i, (n, m) in enumerate(d["imports"])], "values": d["values"]}
    for j, c in enumerate(cases):
        if j % 5 == 2:
            c["def"] = respell(c["def"], j)
            c["envs"] = {n: (dict(e, **{"def": respell(e["def"], j + 1)}) if e.get("kind") == "def" else e) for n, e in c["envs"].items()}
    # the fold is the same while CHECKING (these worlds have no providers and no ciphertexts, so nothing is unknown): every
    # fourth case runs in check mode, with or without showSecrets
    for j, c in enumerate(cases):
        if j % 4 == 3:
            c["check"] = True
            c["show"] = j % 8 == 3
    return cases


def prepare(c):
    also = sorted(set(n for n, m in c["def"]["imports"]))
    return G.request(c, also=also)


def line(c, o):
    ims = []
    for n in sorted(set(n for n, m in c["def"]["imports"])):
        ob = (o.get("also") or {}).get(n)
        if ob is None:
            ob = {"crash": "missing"}
        ims.append("(%s %s)" % (G.sx(n), G.w_obs(ob)))
    return "(c01 %s (%s))" % (G.w_case(c, o), " ".join(ims))


def describe(c):
    return {"root": c["name"], "yaml": G.render_env(c["def"]),
            "imports": {n: G.render_env(e["def"]) for n, e in c["envs"].items() if e["kind"] == "def"}}


def shrink(c):
    # drop an import, drop a value, drop an unused environment
    d = c["def"]
    for i in range(len(d["imports"])):
        yield dict(c, **{"def": {"imports": d["imports"][:i] + d["imports"][i + 1:], "values": d["values"]}})
    for i in range(len(d["values"])):
        yield dict(c, **{"def": {"imports": d["imports"], "values": d["values"][:i] + d["values"][i + 1:]}})
    for n, e in c["envs"].items():
        if e["kind"] == "def":
            dd = e["def"]
            for i in range(len(dd["values"])):
                envs = dict(c["envs"])
                envs[n] = {"kind": "def", "def": {"imports": dd["imports"], "values": dd["values"][:i] + dd["values"][i + 1:]}}
                yield dict(c, envs=envs)
            for i in range(len(dd["imports"])):
                envs = dict(c["envs"])
                envs[n] = {"kind": "def", "def": {"imports": dd["imports"][:i] + dd["imports"][i + 1:], "values": dd["values"]}}
                yield dict(c, envs=envs)


def distribution(cases, r):
    d = {"roots_with_imports": 0, "max_envs": 0, "merge_false": 0, "crash_or_panic": 0, "has_error": 0}
    for c, o in zip(cases, r["obs"]):
        if c["def"]["imports"]:
            d["roots_with_imports"] += 1
        d["max_envs"] = max(d["max_envs"], len(c["envs"]) + 1)
        d["merge_false"] += sum(1 for n, m in c["def"]["imports"] if not m)
        if "crash" in o or "panic" in o:
            d["crash_or_panic"] += 1
        if o.get("errors"):
            d["has_error"] += 1
    return d
