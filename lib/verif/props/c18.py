"""C18 — evaluation results survive the JSON API unchanged."""
import base64
import json
import os
import re
import resource

from .. import common as C

# Lines of this check reach ~100 kB; coqc needs more than the default 8 MB stack to read such a string literal in
# the in-Coq (vm_compute) sample.  Child processes inherit the soft limit raised here.
try:
    _soft, _hard = resource.getrlimit(resource.RLIMIT_STACK)
    _want = 2 << 30
    if _hard != resource.RLIM_INFINITY:
        _want = min(_want, _hard)
    if _soft != resource.RLIM_INFINITY and _soft < _want:
        resource.setrlimit(resource.RLIMIT_STACK, (_want, _hard))
except (ValueError, OSError):
    pass

ID = "C18"
SRC_FACTS = ["apijson_tables", "apijson_custom_methods"]
COQ_SAMPLE = 40
BATCH = 300
RULE = ("direct: for every struct of the API tables and every field, the field alone set to each scalar class / nil / "
        "empty-non-nil / one element (exhaustive per field), every Value payload class x secret x unknown x base "
        "at top level, in an array, in an object and in the base; random typed trees of Value/Schema/Expr/Environment "
        "(numbers: 0, -0, big integers, decimals, exponents, YAML's +Inf/-Inf/NaN texts; strings: empty, ASCII, "
        "multi-byte, JSON-escaped, invalid UTF-8 of every kind); raw: JSON documents aimed at each type (nulls, "
        "wrong kinds, unknown keys, boolean schemas, numbers as strings, duplicate map keys); eval: generated "
        "programs (literals incl. special floats, lists/objects incl. empty, interpolation, references, all "
        "builtins, secrets, an import, fn::open in check mode for unknowns) and, exhaustively, every YAML number "
        "spelling of NUMBER_SPELLINGS (leading/trailing dot, signs, underscores, exponent forms, hex/octal/binary, "
        "leading zeros, sexagesimal, huge/tiny exponents, 64-bit boundaries) as a top-level value, inside arrays and "
        "objects, as provider input echoed back, under toJSON/toString/interpolation and merged over an import, "
        "through eval.EvalEnvironment/CheckEnvironment; size families at 2^k-1, 2^k, 2^k+1 (string payload / number text / "
        "map key length up to 8 KiB quick, 128 KiB thorough; array elements up to 512 quick, 8 Ki thorough; object keys up to 512 / 2 Ki (programs 256 / 1 Ki: the model's maps are quadratic); as "
        "direct trees and as programs).  Every document is also decoded into values that are NOT fresh: once more into the "
        "object just decoded, into a copy of the original, and into a value of the same shape with every string / number / "
        "integer changed (all must give what a fresh decode gives, the last two up to nil-vs-empty).  A panic, fatal crash or "
        "hang of json.Marshal / json.Unmarshal is a failing case (for programs a second process evaluates alone to tell the "
        "evaluator from the JSON layer).  non-trivial = a non-nil original / any raw document; distinct by case content")
ASSUMPTIONS = [
    "Go values are observed through a reflection dump written for this check (exported fields, nil vs empty, dynamic "
    "types of interfaces, exact bytes), not through encoding/json",
    "the evaluator only stores non-nil slices/maps in Value.Value (it builds them with make: eval/value.go export); "
    "a nil slice inside the interface is outside 'well-formed'",
    "schema.Schema is marshalled through a pointer (every use in the API types is *Schema), so its MarshalJSON applies",
    "equal = the same Go value, except that a non-nil EMPTY slice/map in one of the 13 omitempty fields where nil and empty "
    "mean the same to every reader (len / range / index / lookup only: Environment.Exprs/Properties, "
    "EvaluatedExecutionContext.Properties, Expr.KeyRanges, Schema.$defs/anyOf/oneOf/prefixItems/properties/enum/required/"
    "dependentRequired/examples) may come back nil (Corr/C18.v nilify_h; theorem C18_roundtrip_tidy); in the 5 fields whose "
    "being nil is information (Expr.List/Object/Interpolate/Symbol, Interpolation.Value) it may not: known finding",
    "the text layer of encoding/json (escaping, whitespace, float formatting) is exercised, not modelled: a float64 "
    "matches a float64 whatever its digits; JSON documents with duplicate keys for struct fields, keys differing "
    "from the tag only by case, and numbers outside float64 range are not generated for the raw stream",
]
TRUSTED = ["the reflection dump/build in harness/cmd/implrun/c18.go (cross-checked: dump(build(d)) = d on every direct case)",
           "python json parser used to turn Go's JSON text into a tree (object order and number text preserved)"]

SAFE = re.compile(rb"^[A-Za-z0-9_.:+\-$/=]*$")

# ------------------------------------------------------------------------------------------------
# tables
_T = None


def tables():
    global _T
    if _T is None:
        p = os.path.join(C.COQ, "Src", "SrcApiJson.tables.json")
        t = json.load(open(p))
        _T = {s["name"]: s for s in t["structs"]}
    return _T


def is_named(t, name=None):
    return isinstance(t, list) and t[0] == "named" and (name is None or t[1] == name)


# ------------------------------------------------------------------------------------------------
# wire
def atom(b):
    if isinstance(b, str):
        b = b.encode("utf-8")
    if SAFE.match(b):
        return "'" + b.decode("ascii")
    return "x" + b.hex()


def ty_sx(t):
    if isinstance(t, str):
        return t
    if t[0] == "named":
        return "(named %s)" % atom(t[1])
    return "(%s %s)" % (t[0], ty_sx(t[1]))


def desc_sx(d):
    if d is None:
        return "nil"
    if d is True:
        return "t"
    if d is False:
        return "f"
    if "i" in d:
        return "(i %s)" % d["i"]
    if "s" in d:
        return "(s %s)" % atom(bytes.fromhex(d["s"]))
    if "n" in d:
        return "(n %s)" % atom(bytes.fromhex(d["n"]))
    if "f" in d:
        return "(fl %s)" % atom(d["f"])
    if "p" in d:
        return "(p %s)" % desc_sx(d["p"])
    if "l" in d:
        return "(l%s)" % "".join(" " + desc_sx(x) for x in d["l"])
    if "m" in d:
        return "(m%s)" % "".join(" (%s %s)" % (atom(bytes.fromhex(k)), desc_sx(x)) for k, x in d["m"])
    if "st" in d:
        return "(st%s)" % "".join(" " + desc_sx(x) for x in d["st"])
    if "a" in d:
        return "(a %s %s)" % (ty_sx(d["a"][0]), desc_sx(d["a"][1]))
    raise ValueError("bad descriptor %r" % (d,))


class Num(str):
    pass


class Obj(list):
    """JSON object as list of (key, value) in document order"""


def parse_json(text):
    return json.loads(text, object_pairs_hook=Obj, parse_int=Num, parse_float=Num, parse_constant=Num)


def jtree_sx(j):
    if j is None:
        return "null"
    if j is True:
        return "t"
    if j is False:
        return "f"
    if isinstance(j, Num):
        return "(n %s)" % atom(str(j))
    if isinstance(j, str):
        return "(s %s)" % atom(j.encode("utf-8", "surrogatepass"))
    if isinstance(j, Obj):
        return "(o%s)" % "".join(" (%s %s)" % (atom(k.encode("utf-8", "surrogatepass")), jtree_sx(v)) for k, v in j)
    if isinstance(j, list):
        return "(a%s)" % "".join(" " + jtree_sx(x) for x in j)
    raise ValueError("bad json tree")


def jtree_text(j):
    """JSON text of a tree (number text verbatim, duplicate keys kept)"""
    if j is None:
        return "null"
    if j is True:
        return "true"
    if j is False:
        return "false"
    if isinstance(j, Num):
        return str(j)
    if isinstance(j, str):
        return json.dumps(j)
    if isinstance(j, Obj):
        return "{" + ",".join(json.dumps(k) + ":" + jtree_text(v) for k, v in j) + "}"
    return "[" + ",".join(jtree_text(x) for x in j) + "]"


def opt_json(o, key):
    t = o.get(key)
    if not isinstance(t, str):
        return "err"
    return "(ok %s)" % jtree_sx(parse_json(t))


def opt_desc(o, key):
    t = o.get(key)
    if not isinstance(t, dict):
        return "err"
    return "(ok %s)" % desc_sx(t["v"])


# ------------------------------------------------------------------------------------------------
# descriptor construction
def S(s):
    if isinstance(s, str):
        s = s.encode("utf-8")
    return {"s": s.hex()}


def N(s):
    return {"n": s.encode("utf-8").hex()}


def I(n):
    return {"i": str(n)}


def A(t, d):
    return {"a": [t, d]}


TV = ["named", "Value"]

GOOD_NUMS = ["0", "-0", "1", "-1", "42", "12345678901234567890", "123456789012345678901234567890", "9007199254740993",
             "1.5", "1.50", "0.1", "-0.0", "1e3", "1E3", "1e+06", "1e-07", "-1.5e-10", "1e300", "2.5E-300", "0e0"]
BAD_NUMS = ["+Inf", "-Inf", "NaN", "1.", "01", ".5", "0x10", "1e", "--1", "1 ", "1e+", "Infinity", "1_000", "١"]
GOOD_STRS = [b"", b"a", b"abc", "é".encode(), "€".encode(), "\U0001f600".encode(), b"<&>", b"\x00", b"\"\\/",
             "  ".encode(), b"line\nbreak\ttab", "�".encode(), b"[secret]", b"null", b"0", b"true",
             "퟿".encode(), "\U0010ffff".encode(), b"\x7f", "\u0080".encode(), "߿ࠀ".encode()]
BAD_STRS = [b"\xff", b"a\xffb", b"\xc0\xaf", b"\xe2\x82", b"\xed\xa0\x80", b"\xf4\x90\x80\x80", b"\x80", b"\xc2",
            b"\xe0\x80\x80", b"\xf0\x80\x80\x80", b"\xf5\x80\x80\x80", b"\xc1\xbf", b"\xe2\x28\xa1", b"\xf0\x9f\x98",
            b"ok\xe2\x82\xac\xfe"]
KEYS = [b"", b"a", b"b", b"ab", b"A", "é".encode(), b"z z", b"$defs", b"0", b"a.b", b"\"", b"<k>"]
INTS = [0, 1, -1, 7, 2147483648, 9223372036854775807, -9223372036854775808]


class Gen:
    def __init__(self, rng, bad=True):
        self.r = rng
        self.bad = bad      # allow invalid UTF-8 / invalid number text / empty-non-nil in omitempty positions

    def string(self):
        if self.bad and self.r.chance(1, 14):
            return S(self.r.choice(BAD_STRS))
        return S(self.r.choice(GOOD_STRS))

    def num(self, allow_empty=False):
        if allow_empty and self.r.chance(1, 2):
            return N("")
        if self.bad and self.r.chance(1, 14):
            return N(self.r.choice(BAD_NUMS))
        return N(self.r.choice(GOOD_NUMS))

    def keys(self, n):
        ks = set()
        for _ in range(n):
            if self.bad and self.r.chance(1, 20):
                ks.add(self.r.choice(BAD_STRS))
            else:
                ks.add(self.r.choice(KEYS))
        return sorted(ks)

    def size(self, depth):
        if depth <= 0:
            return 0
        return self.r.choice([0, 1, 1, 2, 3])

    def val(self, t, depth, where="plain"):
        """where: 'value' for the Value.Value field, 'plain' otherwise"""
        r = self.r
        if t == "bool":
            return r.chance(1, 2)
        if t == "int":
            return I(r.choice(INTS))
        if t == "str":
            return self.string()
        if t == "num":
            return self.num(allow_empty=True)
        if t == "any":
            return self.any_value(depth) if where == "value" else self.any_plain(depth)
        if t[0] == "ptr":
            if depth <= 0 or r.chance(1, 3):
                return None
            return {"p": self.val(t[1], depth - 1)}
        if t[0] == "slice":
            if r.chance(1, 4):
                return None
            if self.bad is False and depth <= 0:
                return None
            return {"l": [self.val(t[1], depth - 1) for _ in range(self.size(depth))]}
        if t[0] == "map":
            if r.chance(1, 4):
                return None
            if self.bad is False and depth <= 0:
                return None
            return {"m": [[k.hex(), self.val(t[1], depth - 1)] for k in self.keys(self.size(depth))]}
        if t[0] == "named":
            return self.struct(t[1], depth)
        raise ValueError(t)

    def any_plain(self, depth):
        r = self.r
        k = r.below(7 if depth > 0 else 5)
        if k == 0:
            return None
        if k == 1:
            return A("bool", r.chance(1, 2))
        if k in (2, 3):
            return A("num", self.num())
        if k == 4:
            return A("str", self.string())
        if k == 5:
            return A(["slice", "any"], {"l": [self.any_plain(depth - 1) for _ in range(self.size(depth))]})
        return A(["map", "any"], {"m": [[kk.hex(), self.any_plain(depth - 1)] for kk in self.keys(self.size(depth))]})

    def any_value(self, depth):
        r = self.r
        k = r.below(7 if depth > 0 else 5)
        if k == 0:
            return None
        if k == 1:
            return A("bool", r.chance(1, 2))
        if k in (2, 3):
            return A("num", self.num())
        if k == 4:
            return A("str", self.string())
        if k == 5:
            return A(["slice", TV], {"l": [self.struct("Value", depth - 1) for _ in range(self.size(depth))]})
        return A(["map", TV], {"m": [[kk.hex(), self.struct("Value", depth - 1)] for kk in self.keys(self.size(depth))]})

    def struct(self, name, depth):
        sd = tables()[name]
        r = self.r
        if name == "Schema":
            k = r.below(8)
            if k < 2:
                return schema_flag("Never" if k == 0 else "Always")
        out = []
        for f in sd["fields"]:
            t = f["ty"]
            if f["skip"]:
                out.append(False)
                continue
            where = "value" if (name == "Value" and f["go"] == "Value") else "plain"
            # sparse structs: most optional fields stay zero
            if f["omit"] and name in ("Schema", "Expr") and not r.chance(1, 5):
                out.append(zero(t))
                continue
            if f["omit"] and r.chance(1, 3):
                out.append(zero(t))
                continue
            out.append(self.val(t, depth - 1, where))
        return {"st": out}


def zero(t):
    if t == "bool":
        return False
    if t == "int":
        return I(0)
    if t == "str":
        return S(b"")
    if t == "num":
        return N("")
    if isinstance(t, list) and t[0] == "named":
        return {"st": [zero(f["ty"]) for f in tables()[t[1]]["fields"]]}
    return None


def schema_flag(go):
    sd = tables()["Schema"]
    return {"st": [True if f["go"] == go else zero(f["ty"]) for f in sd["fields"]]}


def with_fields(name, **kw):
    sd = tables()[name]
    out = []
    for f in sd["fields"]:
        out.append(kw[f["go"]] if f["go"] in kw else zero(f["ty"]))
    return {"st": out}


def pos(l, c, b):
    return with_fields("Pos", Line=I(l), Column=I(c), Byte=I(b))


def rng_(env="env"):
    return with_fields("Range", Environment=S(env), Begin=pos(1, 2, 3), End=pos(1, 9, 10))


def trace(base=None):
    return with_fields("Trace", Def=rng_(), Base=base)


def value(payload, secret=False, unknown=False, tr=None):
    return with_fields("Value", Value=payload, Secret=secret, Unknown=unknown, Trace=tr if tr is not None else trace())


def payloads():
    return [None, A("bool", False), A("bool", True), A("num", N("0")), A("num", N("12345678901234567890")),
            A("num", N("-1.50e-7")), A("str", S(b"")), A("str", S(b"x")), A(["slice", TV], {"l": []}),
            A(["map", TV], {"m": []})]


def field_variants(t, name, go):
    """values a single field is set to in the exhaustive per-field family"""
    g0 = Gen(C.Rng(1), bad=False)
    if t == "bool":
        return [False, True]
    if t == "int":
        return [I(x) for x in INTS]
    if t == "str":
        return [S(b""), S(b"a"), S("€".encode()), S(b"\xff")]
    if t == "num":
        return [N(""), N("0"), N("1.50"), N("12345678901234567890"), N("+Inf"), N("NaN")]
    if t == "any":
        if name == "Value" and go == "Value":
            return payloads() + [A("num", N("-Inf")), A("str", S(b"\xe2\x82")),
                                 A(["slice", TV], {"l": [value(p) for p in payloads()[:4]]}),
                                 A(["map", TV], {"m": [[b"k".hex(), value(A("num", N("0")))]]})]
        return [None, A("bool", False), A("bool", True), A("num", N("0")), A("num", N("12345678901234567890")),
                A("num", N("1e-07")), A("num", N("NaN")), A("str", S(b"")), A("str", S(b"s")), A("str", S(b"\xff")),
                A(["slice", "any"], {"l": []}), A(["slice", "any"], {"l": [None, A("num", N("1"))]}),
                A(["map", "any"], {"m": []}), A(["map", "any"], {"m": [[b"k".hex(), A("bool", False)]]})]
    if t[0] == "ptr":
        inner = field_variants(t[1], name, go) if not is_named(t[1]) else [elem_sample(t[1])]
        return [None] + [{"p": x} for x in inner[:3]]
    if t[0] == "slice":
        e = elem_sample(t[1])
        return [None, {"l": []}, {"l": [e]}, {"l": [e, zero(t[1])]}]
    if t[0] == "map":
        e = elem_sample(t[1])
        return [None, {"m": []}, {"m": [[b"k".hex(), e]]}, {"m": [[b"".hex(), zero(t[1])], [b"k".hex(), e]]},
                {"m": [[b"\xff".hex(), e]]}]
    if t[0] == "named":
        return [zero(t), elem_sample(t)]
    raise ValueError(t)


def elem_sample(t):
    if t == "bool":
        return True
    if t == "int":
        return I(5)
    if t == "str":
        return S(b"e")
    if t == "num":
        return N("7")
    if t == "any":
        return A("str", S(b"e"))
    if t[0] == "ptr":
        return {"p": elem_sample(t[1])}
    if t[0] == "slice":
        return {"l": [elem_sample(t[1])]}
    if t[0] == "map":
        return {"m": [[b"k".hex(), elem_sample(t[1])]]}
    name = t[1]
    if name == "Pos":
        return pos(3, 4, 5)
    if name == "Range":
        return rng_()
    if name == "Trace":
        return trace()
    if name == "Value":
        return value(A("str", S(b"v")), True, False)
    if name == "Schema":
        return with_fields("Schema", Type=S(b"string"), Const=A("str", S(b"c")))
    if name == "Expr":
        return with_fields("Expr", Range=rng_(), Literal=A("str", S(b"lit")))
    sd = tables()[name]
    return {"st": [zero(f["ty"]) if f["omit"] or f["skip"] else shallow(f["ty"]) for f in sd["fields"]]}


def shallow(t):
    if isinstance(t, list) and t[0] == "named":
        return elem_sample(t) if t[1] in ("Pos", "Range", "Trace") else zero(t)
    if isinstance(t, list):
        return None
    return elem_sample(t)


# ------------------------------------------------------------------------------------------------
# raw JSON documents aimed at a type
def raw_for(g, t, depth):
    r = g.r
    k = r.below(30)
    if k <= 2:
        return None
    if k == 3:
        return r.choice([True, False, Num("0"), Num("1.5"), "s", [], Obj()])
    if t == "bool":
        return r.chance(1, 2)
    if t == "int":
        return Num(r.choice(["0", "-0", "7", "-1", "9223372036854775807", "9223372036854775808", "1.0", "1e2", "-9223372036854775808"]))
    if t == "str":
        return r.choice(["", "a", "€", "<&>", "�"])
    if t == "num":
        return r.choice([Num("0"), Num("1.50"), Num("1e-07"), Num("12345678901234567890"), "12", "1.5e3", "abc", ""])
    if t == "any":
        return raw_any(g, depth)
    if t[0] == "ptr":
        return raw_for(g, t[1], depth - 1)
    if t[0] == "slice":
        return [raw_for(g, t[1], depth - 1) for _ in range(g.size(depth))]
    if t[0] == "map":
        ks = [r.choice(["", "a", "b", "A", "é", "k"]) for _ in range(g.size(depth))]   # duplicates allowed
        return Obj((k_, raw_for(g, t[1], depth - 1)) for k_ in ks)
    name = t[1]
    if name == "Schema" and r.chance(1, 4):
        return r.chance(1, 2)
    sd = tables()[name]
    fs = [f for f in sd["fields"] if not f["skip"]]
    chosen = [f for f in fs if r.chance(1, 3 if len(fs) > 6 else 2)]
    chosen = r.shuffle(chosen)
    out = Obj()
    for f in chosen:
        if depth <= 0 and isinstance(f["ty"], list):
            out.append((f["json"], None if r.chance(1, 2) else raw_for(g, f["ty"], 0)))
        else:
            out.append((f["json"], raw_for(g, f["ty"], depth - 1)))
    if r.chance(1, 5):
        out.insert(r.below(len(out) + 1), (r.choice(["unknownKey", "Never", "x-ext", "VALUE2"]), raw_any(g, 1)))
    return out


def raw_any(g, depth):
    r = g.r
    k = r.below(8 if depth > 0 else 6)
    if k == 0:
        return None
    if k == 1:
        return r.chance(1, 2)
    if k in (2, 3):
        return Num(r.choice(GOOD_NUMS))
    if k in (4, 5):
        return r.choice(["", "a", "€", "1"])
    if k == 6:
        return [raw_any(g, depth - 1) for _ in range(g.size(depth))]
    return Obj((r.choice(["a", "b", "", "a"]), raw_any(g, depth - 1)) for _ in range(g.size(depth)))


# ------------------------------------------------------------------------------------------------
# programs
SPECIAL = [".inf", "-.inf", ".nan", ".Inf", "-.INF", ".NaN"]


def Raw(t):
    """YAML scalar emitted verbatim"""
    return {"$raw": t}


def yaml_text(x):
    if isinstance(x, dict) and "$raw" in x:
        return x["$raw"]
    if x is None:
        return "null"
    if x is True:
        return "true"
    if x is False:
        return "false"
    if isinstance(x, str):
        return json.dumps(x)
    if isinstance(x, list):
        return "[" + ", ".join(yaml_text(e) for e in x) + "]"
    if isinstance(x, dict):
        return "{" + ", ".join(json.dumps(k) + ": " + yaml_text(v) for k, v in x.items()) + "}"
    raise ValueError(x)


def prog_expr(r, depth, earlier, special):
    k = r.below(22 if depth > 0 else 12)
    if k == 0:
        return None
    if k == 1:
        return r.chance(1, 2)
    if k in (2, 3):
        return Raw(r.choice(["0", "-0", "1", "-7", "12345678901234567890", "18446744073709551615", "1.5", "1.50", "0.1",
                             "1e3", "1e-7", "1.0e+21", "123456789012345678901234567890", "0x10", "0o17", "-0.0", "1e400"]
                            + NUMBER_SPELLINGS))
    if k == 4 and special:
        return Raw(r.choice(SPECIAL))
    if k in (4, 5):
        return r.choice(["", "a", "hello world", "€", "<&>", " ", "tab\there", "[secret]", "12", "true", "null"])
    if k == 6 and earlier:
        return "${%s}" % r.choice(earlier)
    if k == 7 and earlier:
        return "pre ${%s} post ${%s}" % (r.choice(earlier), r.choice(earlier))
    if k == 8:
        return {"fn::secret": r.choice(["", "hunter2", "€"])}
    if k == 9:
        return {"fn::toBase64": r.choice(["", "abc", "€"])}
    if k == 10:
        b = r.choice([b"", b"abc", b"\xff", b"\xe2\x82\xac", b"\xe2\x82", r.bytes(1 + r.below(4))])
        return {"fn::fromBase64": base64.b64encode(b).decode()}
    if k == 11:
        return {"fn::fromJSON": r.choice(['{"a":[1,2.50,1e-07,12345678901234567890],"b":{},"c":[],"d":null,"e":""}',
                                           "0", "[]", "{}", "null", '"s"', "1.0", "[[],[{}]]", "false"])}
    if k in (12, 13):
        return [prog_expr(r, depth - 1, earlier, special) for _ in range(r.below(4))]
    if k in (14, 15):
        return {kk: prog_expr(r, depth - 1, earlier, special) for kk in
                sorted(set(r.choice(["a", "b", "c", "k", "é", "x y"]) for _ in range(r.below(4))))}
    if k == 16:
        return {"fn::toJSON": prog_expr(r, depth - 1, earlier, special)}
    if k == 17:
        return {"fn::toString": prog_expr(r, depth - 1, earlier, special)}
    if k == 18:
        return {"fn::join": [r.choice([",", "", " "]), [r.choice(["a", "", "b"]) for _ in range(r.below(3))]]}
    if k == 19:
        return {"fn::open::echo": {"k": prog_expr(r, depth - 1, earlier, False), "n": Raw("1")}}
    if k == 20 and earlier:
        return "${%s}" % r.choice(earlier)
    return r.choice(["s", Raw("2"), None])


def gen_program(r, special=True):
    keys = ["a", "b", "c", "d", "e"]
    n = 1 + r.below(4)
    values = {}
    earlier = []
    for k in keys[:n]:
        values[k] = prog_expr(r, 2, list(earlier), special)
        earlier.append(k)
    case = {"kind": "eval", "check": r.chance(1, 3), "values": values}
    if r.chance(1, 3):
        base_vals = {}
        for k in r.shuffle(keys)[:1 + r.below(3)]:
            base_vals[k] = prog_expr(r, 1, [], False)
        case["base"] = base_vals
    return case


def program_text(c):
    """(main, envs) of an eval case"""
    if "main" in c:
        return c["main"], c.get("envs", {})
    main = "values: " + yaml_text(c["values"]) + "\n"
    if c.get("base") is not None:
        return "imports: [base]\n" + main, {"base": "values: " + yaml_text(c["base"]) + "\n"}
    return main, {}


# YAML number spellings (yaml.v3 resolves most of them to int/float; the rest stay strings): every one is put at
# several positions of a program; whatever the loader makes of them, the evaluation result must be serialisable
# and round-trip.
NUMBER_SPELLINGS = [
    "0", "-0", "+0", "7", "-7", "+7", "007", "010", "-010", "0.0", "-0.0", "+0.0", "0.5", ".5", "-.5", "+.5", "5.", "-5.", "+5.",
    "5.e3", "5.E3", ".5e3", "-.5e-3", "5.e+3", "1.50", "1.0", "3.14", "010.5", "00.5", "-010.5", "1e3", "1E3", "1e+3", "1E+3", "1e-3",
    "1E-3", "+1e3", "-1e3", "1.5e3", "1.5E+03", "1e03", "1e+003", "1e", "1e+", "e3", ".e3", "1.e", "1_000", "1_000.25", "+1_000.25",
    "-1_000.5e1_0", "1__0", "_1", "1_", "1_.5", "._5", "0x1F", "0X1F", "-0x1f", "+0x1F", "0x", "0x1_F", "0o17", "0O17", "-0o17", "0o8",
    "0b101", "-0b11", "017", "1e308", "1.7976931348623157e308", "1.8e308", "1e309", "-1e309", "1e400", "1e-308", "5e-324", "1e-400",
    "-1e-400", "0e0", "0e999", "12345678901234567890", "18446744073709551615", "18446744073709551616", "-9223372036854775808",
    "-9223372036854775809", "123456789012345678901234567890", "0.1234567890123456789", "1.0000000000000000000001",
    "9007199254740993", "9007199254740993.0", "1:30", "1:30:00", "190:20:30.15", "1,000", "١٢", "1.5.2", "--1", "+-1", "+", "-", ".",
    "..5", "~", "0.", "-0.", "0.e0", "1.e-2", "+.5e+2", "6.02e23", "6.02E23", "6.02e+23", "-6.02e-23",
    # integers beyond 64 bits with a sign or leading zeros, explicit tags
    "+123456789012345678901234567890", "000123456789012345678901234567890", "-000123456789012345678901234567890",
    "+36893488147419103232", "+18446744073709551616", "0018446744073709551616", "-0018446744073709551616",
    "!!float +5", "!!float 007", "!!float -007", "!!int +7", "!!int 007", "!!float .5", "!!float 1_0", "!!float 123456789012345678901234567890",
    "!!float +123456789012345678901234567890",
    # other explicit tags: whatever the loader makes of them must serialise and read back equal
    "!!binary /w==", "!!binary aGVsbG8=", "!!binary \"/w==\"", "!!binary ''", "!!timestamp 2001-12-14", "!!str /w==", "!!null ''", "!!bool yes",
    "!!merge <<", "!!seq []", "!!map {}"]


def spelling_programs(lit):
    raw = Raw(lit)
    yield {"kind": "eval", "fam": "spelling", "check": False, "values": {"n": raw}}
    yield {"kind": "eval", "fam": "spelling", "check": False,
           "values": {"l": [raw, [raw]], "o": {"k": raw, "deep": {"k": [raw]}}}}
    yield {"kind": "eval", "fam": "spelling", "check": False,
           "values": {"p": {"fn::open::echo": {"n": raw, "l": [raw]}}, "j": {"fn::toJSON": {"n": raw}},
                      "s": {"fn::toString": raw}, "r": "${p.n}"}}
    yield {"kind": "eval", "fam": "spelling", "check": True,
           "values": {"n": raw, "p": {"fn::open::echo": {"n": raw}}, "i": "x ${n} y"},
           "base": {"n": raw, "m": {"k": raw}}}


def zero_programs():
    """null, false, 0, "", [] and {} (and absence) in an IMPORTED environment, alone and nested, each overridden by the importer
    with each of them / left alone: exported more than once (as a property and inside the trace of the merged object)"""
    zeros = ["null", "false", "0", '""', "[]", "{}", "[[]]", "{k: []}", "{k: {}}", "[{}]"]
    overs = [None, "{}", "[]", "null", "5", "{k: 1}", '""']
    for z in zeros:
        for o in overs:
            base = "values: {t: %s, keep: {t: %s, l: [%s]}, other: 1}\n" % (z, z, z)
            own = [] if o is None else ["t: %s" % o]
            own.append("keep: {m: 1}")
            own.append("ref: ${keep}")
            for check in (False, True):
                yield {"kind": "eval", "fam": "zeros", "envs": {"base": base},
                       "main": "imports: [base]\nvalues: {%s}\n" % ", ".join(own), "check": check}
        yield {"kind": "eval", "fam": "zeros", "envs": {"base": "values: {t: %s}\n" % z, "mid": "imports: [base]\nvalues: {u: %s}\n" % z},
               "main": "imports: [mid, base]\nvalues: {w: [\"${t}\", \"${u}\"], x: \"${imports.mid}\"}\n", "check": False}


def pow2_sizes(limit):
    out = []
    k = 0
    while (1 << k) <= limit:
        for n in ((1 << k) - 1, 1 << k, (1 << k) + 1):
            if 0 <= n <= limit + 1 and n not in out:
                out.append(n)
        k += 1
    return sorted(out)


def size_cases(thorough):
    lim_len = (1 << 17) if thorough else (1 << 13)
    lim_cnt = (1 << 13) if thorough else (1 << 9)
    # the model's maps are association lists (sorted_keys / map_of_entries are quadratic: 8 Ki keys take 3 minutes per line),
    # so objects stop at 2 Ki keys (programs: 1 Ki, their result carries the keys five times); arrays go on to 8 Ki
    lim_obj = (1 << 11) if thorough else (1 << 9)
    lim_prog = (1 << 10) if thorough else (1 << 8)
    for n in pow2_sizes(lim_len):
        txt = ("lorem ipsum \u20ac " * (n // 14 + 1))[:n]
        yield {"kind": "direct", "ty": "Value", "d": value(A("str", S(txt)), n % 2 == 1, False), "fam": "size-string"}
        digits = ("1234567890" * (n // 10 + 1))[:n] or "0"
        yield {"kind": "direct", "ty": "Value", "d": value(A("num", N(digits.lstrip("0") or "0"))), "fam": "size-number"}
        yield {"kind": "direct", "ty": "Value", "d": value(A(["map", TV], {"m": [[("k" * n).encode().hex(), value(A("bool", True))]]})),
               "fam": "size-key"}
        if n <= 4097 or thorough:
            yield {"kind": "eval", "fam": "size", "check": False, "values": {"s": "x" * n, "n": Raw(digits.lstrip("0") or "0")}}
    for n in pow2_sizes(lim_cnt):
        yield {"kind": "direct", "ty": "Value", "fam": "size-array",
               "d": value(A(["slice", TV], {"l": [value(A("num", N(str(i)))) for i in range(n)]}))}
        if n <= lim_obj + 1:
            yield {"kind": "direct", "ty": "Value", "fam": "size-object",
                   "d": value(A(["map", TV], {"m": sorted([[("k%d" % i).encode().hex(), value(None)] for i in range(n)])}))}
        if n <= lim_prog + 1:
            yield {"kind": "eval", "fam": "size", "check": False, "values": {"l": [Raw(str(i)) for i in range(n)],
                                                                            "o": {"k%d" % i: "" for i in range(n)}}}


REGRESSION = [
    {"kind": "eval", "main": "values: {a: .inf}\n", "check": False},
    {"kind": "eval", "main": "values: {a: [1, -.INF, .NaN]}\n", "check": False},
    {"kind": "eval", "main": "values: {a: 12345678901234567890}\n", "check": False},
    {"kind": "eval", "main": "values: {a: 0}\n", "check": False},
    {"kind": "eval", "main": "values: {a: []}\n", "check": False},
    {"kind": "eval", "main": "values: {a: {}}\n", "check": False},
    {"kind": "eval", "main": "values: {a: {\"fn::fromBase64\": \"/w==\"}}\n", "check": False},
    {"kind": "eval", "main": "values: {a: null, b: false, c: 0, d: \"\", e: [], f: {}}\n", "check": False},
    {"kind": "eval", "main": "values: {a: {\"fn::fromJSON\": \"[1.50, 1e-07, 12345678901234567890]\"}}\n", "check": False},
    {"kind": "eval", "main": "values: {a: {\"fn::secret\": \"p\"}, o: {\"fn::open::echo\": {q: 1}}, r: \"${a} ${o.q}\"}\n", "check": True},
    {"kind": "eval", "envs": {"base": "values: {a: {x: 1, y: [1]}, b: 2}\n"},
     "main": "imports: [base]\nvalues: {a: {x: 3, z: \"${b}\"}}\n", "check": False},
]


# ------------------------------------------------------------------------------------------------
def gen(rng, tier):
    thorough = tier == "thorough"
    cases = []
    T = tables()

    def direct(ty, d, fam):
        cases.append({"kind": "direct", "ty": ty, "d": d, "fam": fam})

    # --- exhaustive: every Value payload class x flags x base, at top level / in array / in object / as base -----
    for p in payloads():
        for s in (False, True):
            for u in (False, True):
                for base in (None, {"p": value(A("num", N("1")), True, True)}):
                    v = value(p, s, u, trace(base))
                    direct("Value", v, "payload")
                    if base is None:
                        direct("Value", value(A(["slice", TV], {"l": [v, value(None)]})), "payload-in-array")
                        direct("Value", value(A(["map", TV], {"m": [[b"k".hex(), v]]})), "payload-in-object")
                        direct("Value", value(A("str", S(b"top")), tr=trace({"p": v})), "payload-in-base")
    # --- regression corpus (the reproduced defects; all inside known-finding classes today) ----------------------
    cases.extend(dict(c) for c in REGRESSION)
    # --- exhaustive: every field of every struct alone ------------------------------------------------------------
    for name, sd in T.items():
        for i, f in enumerate(sd["fields"]):
            if f["skip"]:
                continue
            for var in field_variants(f["ty"], name, f["go"]):
                st = zero(["named", name])
                st["st"][i] = var
                direct(name, st, "field")
    direct("Schema", schema_flag("Never"), "field")
    direct("Schema", schema_flag("Always"), "field")
    both = schema_flag("Never")
    both["st"] = [True if f["go"] in ("Never", "Always") else x for f, x in zip(T["Schema"]["fields"], both["st"])]
    direct("Schema", both, "field")
    noncanon = with_fields("Schema", Always=True, Title=S(b"t"))
    direct("Schema", noncanon, "field")
    # every pair of any-classes in Schema.Enum / Examples (any inside a slice), and nested
    anys = field_variants("any", "Schema", "Const")
    for a in anys:
        direct("Schema", with_fields("Schema", Enum={"l": [a, None]}), "field")
        direct("Schema", with_fields("Schema", Default=A(["map", "any"], {"m": [[b"k".hex(), a]]})), "field")
        direct("Expr", with_fields("Expr", Range=rng_(), Builtin={"p": with_fields(
            "BuiltinExpr", Name=S(b"fn::toJSON"), NameRange=rng_(), ArgSchema={"p": schema_flag("Always")},
            Arg=with_fields("Expr", Range=rng_(), Literal=a))}), "field")

    # --- sizes: powers of two +- 1 (length of a string payload / of a number text / of a map key, number of array
    #     elements / of object keys), as direct trees and as programs ------------------------------------------------
    for c in size_cases(thorough):
        cases.append(c)

    # --- random typed trees ---------------------------------------------------------------------------------------
    roots = [("Value", 5), ("Value", 3), ("Schema", 4), ("Expr", 4), ("Environment", 5)]
    n_clean = 15000 if thorough else 500
    n_bad = 15000 if thorough else 500
    g = Gen(rng.fork("clean"), bad=False)
    for i in range(n_clean):
        ty, depth = roots[i % len(roots)]
        direct(ty, g.struct(ty, depth), "random-clean")
    g = Gen(rng.fork("bad"), bad=True)
    for i in range(n_bad):
        ty, depth = roots[i % len(roots)]
        direct(ty, g.struct(ty, depth), "random-any")
    # nil slice/map inside an interface, a float64 never: outside well-formed, correspondence only
    direct("Value", value(A(["slice", TV], None)), "illformed")
    direct("Value", value(A(["map", TV], None)), "illformed")
    direct("Schema", with_fields("Schema", Const=A(["slice", "any"], None)), "illformed")

    # --- raw documents ----------------------------------------------------------------------------------------------
    g = Gen(rng.fork("raw"), bad=False)
    raw_roots = ["Value", "Schema", "Expr", "Environment", "Trace", "Range", "Pos", "Accessor", "AccessExpr",
                 "BuiltinExpr", "Interpolation", "PropertyAccessor", "EvaluatedExecutionContext"]
    fixed = [("Value", "null"), ("Value", "{}"), ("Value", '{"value":null}'), ("Value", '{"value":false}'),
             ("Value", '{"value":0}'), ("Value", '{"value":""}'), ("Value", '{"value":[]}'), ("Value", '{"value":{}}'),
             ("Value", '{"value":[null]}'), ("Value", '{"value":{"a":null}}'), ("Value", '{"value":1.50e+3,"secret":null}'),
             ("Value", "[]"), ("Value", "5"), ("Value", '"s"'), ("Value", '{"trace":null}'), ("Value", '{"trace":{"base":null}}'),
             ("Value", '{"value":{"a":{"value":1},"a":{"value":2}}}'), ("Value", '{"secret":"yes"}'), ("Value", '{"value":[5]}'),
             ("Schema", "null"), ("Schema", "true"), ("Schema", "false"), ("Schema", "{}"), ("Schema", "5"), ("Schema", '"x"'),
             ("Schema", '{"const":null}'), ("Schema", '{"const":0,"enum":[],"default":1.50,"examples":[1e-07,{"a":[2]}]}'),
             ("Schema", '{"items":null,"properties":{"a":true,"b":false,"c":null,"d":{}}}'), ("Schema", '{"minimum":"12"}'),
             ("Schema", '{"minimum":"x"}'), ("Schema", '{"minimum":null}'), ("Schema", '{"type":null}'), ("Schema", '{"Never":true}'),
             ("Schema", '{"required":null}'), ("Schema", '{"required":[null,"a"]}'), ("Schema", '{"dependentRequired":{"a":null,"b":[]}}'),
             ("Expr", "null"), ("Expr", "{}"), ("Expr", '{"literal":0}'), ("Expr", '{"literal":12345678901234567890}'),
             ("Expr", '{"literal":null}'), ("Expr", '{"literal":[1,{"a":2}]}'), ("Expr", '{"list":[]}'), ("Expr", '{"list":null}'),
             ("Expr", '{"list":[null,{}]}'), ("Expr", '{"object":{}}'), ("Expr", '{"schema":{"const":1}}'),
             ("Expr", '{"access":{"receiver":{},"accessors":null}}'), ("Expr", '{"access":{"accessors":[{"index":3},{"key":"k"},{"index":null}]}}'),
             ("Expr", '{"access":{"accessors":[{"index":1.5}]}}'), ("Expr", '{"builtin":{"arg":null,"argSchema":null}}'),
             ("Expr", '{"symbol":[{"key":"a","value":{"environment":"e"}}]}'),
             ("Environment", "null"), ("Environment", "{}"), ("Environment", '{"properties":{}}'), ("Environment", '{"properties":null,"exprs":{}}'),
             ("Environment", '{"schema":true,"executionContext":{}}'), ("Environment", '{"properties":{"a":{"value":1},"a":{"value":"2"}}}'),
             ("Pos", '{"line":1,"column":2,"byte":3}'), ("Pos", '{"line":"1"}'), ("Pos", '{"line":9223372036854775808}'), ("Pos", '{"line":-0}')]
    for ty, txt in fixed:
        cases.append({"kind": "raw", "ty": ty, "json": txt})
    for i in range(20000 if thorough else 800):
        ty = raw_roots[i % len(raw_roots)] if i % 3 else raw_roots[i % 4]
        cases.append({"kind": "raw", "ty": ty, "json": jtree_text(raw_for(g, ["named", ty], 3))})

    # --- programs: every YAML number spelling at every position (exhaustive family, both tiers) -------------------
    for lit in NUMBER_SPELLINGS:
        cases.extend(spelling_programs(lit))
    cases.extend(zero_programs())
    # --- programs: random ---------------------------------------------------------------------------------------------
    r = rng.fork("eval")
    for i in range(10000 if thorough else 300):
        cases.append(gen_program(r, special=(i % 4 == 0)))
    return cases


def prepare(c):
    k = c["kind"]
    if k == "direct":
        return {"op": "round", "ty": c["ty"], "d": c["d"]}
    if k == "raw":
        return {"op": "raw", "ty": c["ty"], "json": c["json"]}
    main, envs = program_text(c)
    return {"op": "eval", "main": main, "envs": envs, "check": bool(c.get("check"))}


def line(c, o):
    try:
        return _line(c, o)
    except Exception as e:      # a harness problem must not look like a pass
        return "(line-error %s)" % atom(repr(e)[:80])


STATS = {"eval:evaluator-died": 0, "json-layer-died": 0}


def _b(o, key):
    return "t" if o.get(key) is True else "f"


def crash_line(c, o):
    """json.Marshal / json.Unmarshal panicked, killed the process or hung: a failing line that carries the input."""
    STATS["json-layer-died"] += 1
    if c["kind"] == "raw":
        return "(crash raw %s)" % ty_sx(["named", c["ty"]])
    if c["kind"] == "direct":
        return "(crash direct %s %s)" % (ty_sx(["named", c["ty"]]), desc_sx(c["d"]))
    return "(crash eval (named 'Environment) %s)" % desc_sx(o["orig"]["v"])


def _line(c, o):
    k = c["kind"]
    if k == "eval" and ("crash" in o or "panic" in o):
        # the process died (fatal stack overflow / hang) somewhere between evaluation and the second json.Marshal.
        # Evaluate alone in a fresh process: if that dies too, the evaluator is at fault (C07's subject; the case stays
        # unjudged and the driver reports it); if it answers, the JSON layer killed the process: a failure of "everything
        # the evaluator can return is serialisable" with the program as replay.
        main, envs = program_text(c)
        e = C.run_impl(ID, [{"op": "evalonly", "main": main, "envs": envs, "check": bool(c.get("check")), "id": 0}],
                       batch=1, timeout=120)[0]
        if "crash" in e or "panic" in e or "orig" not in e:
            STATS["eval:evaluator-died"] += 1
            return None
        o["crash_followup"] = "evaluation alone succeeds"
        return crash_line(c, e)
    if "crash" in o or "panic" in o:
        return crash_line(c, o)
    if "badcase" in o:
        return "(badcase)"
    if "rt_panic" in o:
        return crash_line(c, o)
    if k == "raw":
        return "(raw %s %s %s %s %s)" % (ty_sx(["named", c["ty"]]), jtree_sx(parse_json(c["json"])), opt_desc(o, "rt"),
                                         opt_json(o, "j2"), _b(o, "again") if isinstance(o.get("rt"), dict) else "t")
    if k == "direct":
        if o.get("orig", {}).get("v") != c["d"]:
            return "(harness-dump-differs)"
        return "(round direct %s %s %s %s %s %s %s)" % (ty_sx(["named", c["ty"]]), desc_sx(c["d"]), opt_json(o, "j1"),
                                                        opt_desc(o, "rt"), opt_json(o, "j2"), _b(o, "again"), _b(o, "into_orig"))
    if "skip" in o:
        return None
    main, envs = program_text(c)
    uses_b64 = "fromBase64" in main or any("fromBase64" in t for t in envs.values())
    return "(round %s (named 'Environment) %s %s %s %s %s %s)" % ("evalb64" if uses_b64 else "eval", desc_sx(o["orig"]["v"]), opt_json(o, "j1"),
                                                                    opt_desc(o, "rt"), opt_json(o, "j2"),
                                                                    _b(o, "again"), _b(o, "into_orig"))


def describe(c):
    c = dict(c)
    c.pop("id", None)
    s = json.dumps(c, sort_keys=True)
    if len(s) > 600:
        return {"kind": c["kind"], "ty": c.get("ty"), "fam": c.get("fam"), "size": len(s)}
    return c


# ------------------------------------------------------------------------------------------------
def _shrink_desc(d):
    """smaller descriptors of the same type: drop list/map elements, nil out pointers/interfaces/slices/maps"""
    if not isinstance(d, dict):
        return
    if "p" in d:
        yield None
        for x in _shrink_desc(d["p"]):
            yield {"p": x}
    elif "a" in d:
        yield None
        for x in _shrink_desc(d["a"][1]):
            yield {"a": [d["a"][0], x]}
    elif "l" in d:
        yield None
        l = d["l"]
        for i in range(len(l)):
            yield {"l": l[:i] + l[i + 1:]}
        for i in range(len(l)):
            for x in _shrink_desc(l[i]):
                yield {"l": l[:i] + [x] + l[i + 1:]}
    elif "m" in d:
        yield None
        l = d["m"]
        for i in range(len(l)):
            yield {"m": l[:i] + l[i + 1:]}
        for i in range(len(l)):
            for x in _shrink_desc(l[i][1]):
                yield {"m": l[:i] + [[l[i][0], x]] + l[i + 1:]}
    elif "st" in d:
        l = d["st"]
        for i in range(len(l)):
            for x in _shrink_desc(l[i]):
                yield {"st": l[:i] + [x] + l[i + 1:]}
    elif "s" in d and d["s"]:
        yield {"s": ""}
    elif "n" in d and d["n"] not in ("", "30"):
        yield {"n": "30"}


def shrink(c):
    k = c["kind"]
    if k == "direct":
        n = 0
        for d in _shrink_desc(c["d"]):
            yield dict(c, d=d)
            n += 1
            if n >= 60:
                return
    elif k == "eval" and "values" in c:
        if c.get("base") is not None:
            yield dict(c, base=None)
            for kk in c["base"]:
                yield dict(c, base={a: b for a, b in c["base"].items() if a != kk})
        for kk in reversed(list(c["values"])):
            if len(c["values"]) > 1:
                yield dict(c, values={a: b for a, b in c["values"].items() if a != kk})
        for kk, v in c["values"].items():
            if isinstance(v, list) and v:
                for i in range(len(v)):
                    yield dict(c, values=dict(c["values"], **{kk: v[:i] + v[i + 1:]}))
            elif isinstance(v, dict) and "$raw" not in v:
                for k2 in v:
                    if not k2.startswith("fn::"):
                        yield dict(c, values=dict(c["values"], **{kk: {a: b for a, b in v.items() if a != k2}}))
                    else:
                        yield dict(c, values=dict(c["values"], **{kk: v[k2]}))


def distribution(cases, r):
    d = {}
    for c, o in zip(cases, r["obs"]):
        if c["kind"] == "direct":
            k = "direct:%s:%s" % (c["ty"], "marshal-error" if o.get("j1") is None else "ok")
        elif c["kind"] == "raw":
            k = "raw:%s:%s" % (c["ty"], "error" if o.get("rt") is None else "ok")
        else:
            k = "eval%s:%s" % ("-" + c["fam"] if c.get("fam") else "",
                               o.get("skip") and "skipped-" + o["skip"] or ("marshal-error" if o.get("j1") is None else "ok"))
        if "crash" in o or "panic" in o or "rt_panic" in o:
            k = c["kind"] + ":CRASH"
        d[k] = d.get(k, 0) + 1
    lines = r.get("lines", {})
    d["ESCAPE:skipped:program-does-not-load-or-evaluator-returns-nil"] = sum(
        1 for c, o in zip(cases, r["obs"]) if c["kind"] == "eval" and "skip" in o)
    d["ESCAPE:skipped:evaluator-died(unjudged: reported by the driver)"] = sum(
        1 for i, (c, o) in enumerate(zip(cases, r["obs"])) if c["kind"] == "eval" and ("crash" in o or "panic" in o) and i not in lines)
    d["JUDGED:json-layer-crash-as-failure"] = sum(1 for i, l in lines.items() if l.startswith("(crash"))
    d["ESCAPE:excused:known-C18-empty-omitted(lossy fields)+C18-non-utf8"] = len(r.get("spec_fail_known", []))
    d["ESCAPE:outside:direct-trees-invalid-number-text(correspondence+crash only)"] = sum(
        1 for c in cases if c["kind"] == "direct" and _has_bad_number(c["d"]))
    d["ESCAPE:outside:direct-trees-ill-formed-by-construction(correspondence+crash only)"] = sum(
        1 for c in cases if c["kind"] == "direct" and c.get("fam") == "illformed") + 2     # + the two non-canonical boolean schemas
    return d


JSON_NUMBER = re.compile(r"^-?(0|[1-9][0-9]*)(\.[0-9]+)?([eE][+-]?[0-9]+)?$")


def _has_bad_number(d):
    """a json.Number whose text is not a JSON number somewhere in the descriptor (Corr/C18.v valid_numbers is what
    decides; this only COUNTS the escape hatch for the evidence)"""
    if isinstance(d, dict):
        if "n" in d:
            t = bytes.fromhex(d["n"]).decode("utf-8", "replace")
            return t != "" and not JSON_NUMBER.match(t)
        return any(_has_bad_number(v) for v in d.values())
    if isinstance(d, list):
        return any(_has_bad_number(v) for v in d)
    return False


def search(rng, info):
    """targeted search when an obligation or the correspondence breaks: the exhaustive per-field family again plus
    more special-float / literal programs"""
    out = [dict(c) for c in REGRESSION]
    r = rng.fork("s")
    for i in range(300):
        out.append(gen_program(r, special=True))
    g = Gen(rng.fork("sd"), bad=True)
    for i in range(600):
        ty = ["Value", "Schema", "Expr", "Environment"][i % 4]
        out.append({"kind": "direct", "ty": ty, "d": g.struct(ty, 4), "fam": "search"})
    return out
