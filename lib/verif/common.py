"""Shared machinery of the checks: build (srcfacts, coq make, go harness), implementation runner,
Coq evaluation of correspondence shards, obligations / assumptions, evidence, known findings."""
import concurrent.futures as cf
import fcntl
import hashlib
import json
import os
import re
import shutil
import subprocess
import sys
import time

VERIF = os.path.dirname(os.path.dirname(os.path.dirname(os.path.abspath(__file__))))
REPO = os.environ.get("VERIF_REPO", "/repo")
COQ = os.path.join(VERIF, "coq")
HARNESS = os.path.join(VERIF, "harness")
WORK = os.path.join(VERIF, "work")
EVID = os.path.join(VERIF, "evidence")
KNOWN = os.path.join(VERIF, "known-findings.txt")

GOENV = dict(os.environ, GOFLAGS="-mod=mod", GOPROXY="off", GOSUMDB="off", GOTOOLCHAIN="local",
             CGO_ENABLED="0")

ALLOWED_AXIOMS = set()  # none: every property theorem must be closed under the global context

FORBIDDEN = re.compile(
    r"\b(Admitted|admit|Axiom|Axioms|Parameter|Parameters|Conjecture|Admit Obligations|bypass_check|"
    r"Unset Guard Checking|Unset Positivity Checking|Unset Universe Checking|type-in-type|impredicative-set)\b")


def log(*a):
    print(*a, file=sys.stderr, flush=True)


def sh(cmd, cwd=None, env=None, timeout=None, inp=None):
    p = subprocess.run(cmd, cwd=cwd, env=env, timeout=timeout, input=inp, stdout=subprocess.PIPE,
                       stderr=subprocess.PIPE, text=True)
    return p.returncode, p.stdout, p.stderr


# ------------------------------------------------------------------------------------------------
# build
class Build:
    def __init__(self):
        self.src_status = {}
        self.make_ok = False
        self.make_log = ""
        self.go_ok = False
        self.go_log = ""
        self.lint = []


def lint_coq():
    bad = []
    for root, _, files in os.walk(COQ):
        for f in files:
            if not f.endswith(".v") or f.startswith("gen_"):
                continue
            p = os.path.join(root, f)
            txt = open(p, encoding="utf-8", errors="replace").read()
            txt_nc = re.sub(r"\(\*.*?\*\)", "", txt, flags=re.S)
            for m in FORBIDDEN.finditer(txt_nc):
                bad.append("%s: %s" % (os.path.relpath(p, COQ), m.group(0)))
            # Variable/Hypothesis outside a Section
            depth = 0
            for line in txt_nc.splitlines():
                s = line.strip()
                if re.match(r"Section\s+\w+", s):
                    depth += 1
                elif re.match(r"End\s+\w+", s) and depth > 0:
                    depth -= 1
                elif depth == 0 and re.match(r"(Variables?|Hypothes[ie]s|Context)\b", s):
                    bad.append("%s: %s outside Section" % (os.path.relpath(p, COQ), s[:40]))
    return bad


def coq_files():
    out = []
    for d in ("Base", "Src", "Model", "Proofs", "Corr", "Properties"):
        dd = os.path.join(COQ, d)
        if not os.path.isdir(dd):
            continue
        for f in sorted(os.listdir(dd)):
            if f.endswith(".v") and not f.startswith("gen_"):
                out.append("%s/%s" % (d, f))
    return out


def write_if_changed(path, content):
    try:
        if open(path).read() == content:
            return False
    except OSError:
        pass
    with open(path, "w") as f:
        f.write(content)
    return True


def build(need_go=True):
    """srcfacts -> coq make -k -> go build (hooks on).  Serialised by a file lock."""
    os.makedirs(WORK, exist_ok=True)
    b = Build()
    with open(os.path.join(WORK, ".build.lock"), "w") as lk:
        fcntl.flock(lk, fcntl.LOCK_EX)
        t0 = time.time()
        os.makedirs(os.path.join(HARNESS, "bin"), exist_ok=True)
        os.makedirs(os.path.join(COQ, "Src"), exist_ok=True)
        os.makedirs(os.path.join(COQ, "Corr"), exist_ok=True)
        shutil.copyfile(os.path.join(REPO, "go.sum"), os.path.join(HARNESS, "go.sum"))
        gomod = open(os.path.join(HARNESS, "go.mod")).read()
        gomod2 = re.sub(r"replace github.com/pulumi/esc => .*", "replace github.com/pulumi/esc => " + REPO, gomod)
        write_if_changed(os.path.join(HARNESS, "go.mod"), gomod2)
        rc, o, e = sh(["go", "build", "-o", "bin/srcfacts", "./cmd/srcfacts"], cwd=HARNESS, env=GOENV, timeout=600)
        if rc != 0:
            b.go_log += o + e
        rc, o, e = sh([os.path.join(HARNESS, "bin/srcfacts"), REPO, os.path.join(COQ, "Src")], timeout=120)
        if rc != 0:
            b.make_log += "srcfacts failed: " + o + e
        try:
            b.src_status = json.load(open(os.path.join(COQ, "Src", "status.json")))
        except Exception:
            b.src_status = {}
        proj = ("-Q . Verif\n-arg -w -arg -notation-overridden,-deprecated-hint-without-locality,"
                "-deprecated-instance-without-locality,-deprecated-syntactic-definition\n" + "\n".join(coq_files()) + "\n")
        changed = write_if_changed(os.path.join(COQ, "_CoqProject"), proj)
        if changed or not os.path.exists(os.path.join(COQ, "Makefile")):
            sh(["coq_makefile", "-f", "_CoqProject", "-o", "Makefile"], cwd=COQ, timeout=120)
        rc, o, e = sh(["timeout", "3000", "make", "-k", "-j16"], cwd=COQ, timeout=3100)
        b.make_ok = rc == 0
        b.make_log += o[-20000:] + e[-20000:]
        if need_go:
            rc, o, e = sh(["go", "build", "-tags", "verif", "-o", "bin/implrun", "./cmd/implrun"], cwd=HARNESS,
                          env=GOENV, timeout=1200)
            b.go_ok = rc == 0
            b.go_log += o + e
        b.lint = lint_coq()
        b.wall = time.time() - t0
    return b


def vo_ok(rel_v):
    """Is the .vo of a source file present and not older than its source?"""
    v = os.path.join(COQ, rel_v)
    vo = v + "o"
    return os.path.exists(vo) and os.path.getmtime(vo) >= os.path.getmtime(v)


# ------------------------------------------------------------------------------------------------
# obligations
THM_RE = re.compile(r"^\s*(Theorem|Lemma|Corollary|Example|Proposition|Fact)\s+([A-Za-z_][\w']*)", re.M)


def theorems_of(rel_v):
    txt = open(os.path.join(COQ, rel_v)).read()
    txt = re.sub(r"\(\*.*?\*\)", "", txt, flags=re.S)
    return [m.group(2) for m in THM_RE.finditer(txt)]


def coqc_text(name, text, timeout=900):
    """Compile a generated file under coq/Corr and return (rc, stdout+stderr)."""
    d = os.path.join(COQ, "Corr")
    p = os.path.join(d, "gen_%s.v" % name)
    with open(p, "w") as f:
        f.write(text)
    rc, o, e = sh(["timeout", str(timeout), "coqc", "-Q", COQ, "Verif", "-w", "-notation-overridden", p], cwd=d,
                  timeout=timeout + 30)
    for ext in (".vo", ".vok", ".vos", ".glob"):
        try:
            os.remove(p[:-2] + ext)
        except OSError:
            pass
    try:
        os.remove(os.path.join(d, ".gen_%s.aux" % name))
    except OSError:
        pass
    return rc, o + e


def check_obligations(prop):
    """Returns dict: theorems, discharged, assumptions {thm: text}, ok, broken (description).
    Obligations of a property: every Theorem/Lemma/Example of Properties/<prop>.v and of Properties/<prop>_*.v."""
    import glob as _glob
    rels = ["Properties/%s.v" % prop] + sorted("Properties/" + os.path.basename(f)
                                               for f in _glob.glob(os.path.join(COQ, "Properties", "%s_*.v" % prop)))
    res = {"file": ", ".join(rels), "theorems": [], "discharged": 0, "assumptions": {}, "ok": False, "broken": None}
    if not os.path.exists(os.path.join(COQ, rels[0])):
        res["broken"] = "missing " + rels[0]
        return res
    thms, per_file = [], []
    for rel in rels:
        t = theorems_of(rel)
        per_file.append((rel, t))
        thms += t
    res["theorems"] = thms
    for rel, _ in per_file:
        if not vo_ok(rel):
            res["broken"] = "%s does not compile (see make log)" % rel
            return res
    text = ""
    for rel, t in per_file:
        mod = rel[:-2].replace("/", ".")
        text += "From Verif Require %s.\n" % mod
        for name in t:
            text += "Print Assumptions %s.%s.\n" % (mod.split(".", 1)[1] if False else "Verif." + mod, name)
    rc, out = coqc_text("assum_%s" % prop, text)
    if rc != 0:
        res["broken"] = "Print Assumptions failed: " + out[-2000:]
        return res
    chunks = re.split(r"(?=Closed under the global context|Axioms:)", out)
    chunks = [c.strip() for c in chunks if c.strip()]
    bad = []
    for t, c in zip(thms, chunks):
        res["assumptions"][t] = c
        if not c.startswith("Closed under the global context"):
            names = re.findall(r"^([\w\.']+)\s*:", c, re.M)
            if not names or any(n not in ALLOWED_AXIOMS for n in names):
                bad.append(t)
    if len(chunks) != len(thms):
        res["broken"] = "could not read Print Assumptions output"
        return res
    if bad:
        res["broken"] = "theorems depend on axioms: " + ", ".join(bad)
        return res
    res["discharged"] = len(thms)
    res["ok"] = True
    return res


# ------------------------------------------------------------------------------------------------
# implementation runner
def run_impl(prop, cases, batch=400, timeout=120, workers=8):
    """Run implrun on the cases (dicts with unique 'id').  Child processes; a batch that dies is
    resumed after the killing case, which gets {'crash': ...}."""
    exe = os.path.join(HARNESS, "bin/implrun")
    results = {}

    def run_batch(chunk):
        out = {}
        todo = list(chunk)
        while todo:
            inp = "".join(json.dumps(c) + "\n" for c in todo)
            try:
                p = subprocess.run([exe, prop], input=inp, stdout=subprocess.PIPE, stderr=subprocess.PIPE, text=True,
                                   timeout=timeout)
                so, se, rc = p.stdout, p.stderr, p.returncode
                timed_out = False
            except subprocess.TimeoutExpired as ex:
                so = ex.stdout or ""
                se = ex.stderr or ""
                if isinstance(so, bytes):
                    so = so.decode("utf-8", "replace")
                if isinstance(se, bytes):
                    se = se.decode("utf-8", "replace")
                rc, timed_out = -1, True
            done = 0
            for line in so.splitlines():
                try:
                    r = json.loads(line)
                except Exception:
                    break
                out[r["id"]] = r
                done += 1
            if done >= len(todo):
                break
            killer = todo[done]
            out[killer["id"]] = {"id": killer["id"], "crash": "hang" if timed_out else ("exit %s: %s" % (rc, se[-600:]))}
            todo = todo[done + 1:]
        return out

    chunks = [cases[i:i + batch] for i in range(0, len(cases), batch)]
    with cf.ThreadPoolExecutor(max_workers=workers) as ex:
        for out in ex.map(run_batch, chunks):
            results.update(out)
    return [results.get(c["id"], {"id": c["id"], "crash": "no result"}) for c in cases]


# ------------------------------------------------------------------------------------------------
# Coq term printing
def chex(b):
    if isinstance(b, str):
        b = b.encode("utf-8")
    return '(hx "%s")' % b.hex()


def sx(b):
    """wire atom of a byte string"""
    if isinstance(b, str):
        b = b.encode("utf-8")
    return "x" + b.hex()


def cN(n):
    return "%d%%N" % n


def cnat(n):
    return "%d%%nat" % n


def cbool(b):
    return "true" if b else "false"


def clist(items):
    return "[" + "; ".join(items) + "]"


def copt(x):
    return "None" if x is None else "(Some %s)" % x


# ------------------------------------------------------------------------------------------------
# Coq evaluation of shards
def parse_print_list(out, name):
    """Parse `name = [a; b; ...]\n : list N` printed by `Print name.`"""
    m = re.search(r"\b%s\s*=\s*(.*?)\n\s*:\s" % re.escape(name), out, re.S)
    if not m:
        return None
    body = m.group(1).strip()
    body = re.sub(r"%N|%nat", "", body)
    body = body.strip()
    if body.startswith("["):
        body = body[1:-1]
    body = body.replace("\n", " ")
    items = [x.strip() for x in body.split(";") if x.strip()]
    try:
        return [int(x) for x in items]
    except ValueError:
        return None


def eval_shards(prop, header, case_terms, preds=("mismatch", "spec_fail_new", "spec_fail_known", "nontrivial"),
                shard=500, workers=14, timeout=900, case_type="case"):
    """case_terms: list of Coq terms of type Corr.<prop>.case.  For each predicate name P of
    Corr.<prop>, returns the list of global indices on which P holds.  Raises on Coq failure."""
    shards = [case_terms[i:i + shard] for i in range(0, len(case_terms), shard)]

    def one(k):
        terms = shards[k]
        text = header + "\nFrom Verif Require Import Base.CorrUtil.\n"
        text += "Definition cs : list %s := [\n%s\n].\n" % (case_type, ";\n".join(terms))
        for p in preds:
            text += "Definition R_%s := Eval vm_compute in idx_filter %s cs.\nPrint R_%s.\n" % (p, p, p)
        rc, out = coqc_text("%s_%d_%d" % (prop, os.getpid(), k), text, timeout=timeout)
        if rc != 0:
            return k, None, out
        res = {}
        for p in preds:
            l = parse_print_list(out, "R_" + p)
            if l is None:
                return k, None, "unparsable output for %s: %s" % (p, out[-1500:])
            res[p] = [k * shard + i for i in l]
        return k, res, out

    total = {p: [] for p in preds}
    errors = []
    with cf.ThreadPoolExecutor(max_workers=workers) as ex:
        for k, res, out in ex.map(one, range(len(shards))):
            if res is None:
                errors.append((k, out[-3000:]))
                continue
            for p in preds:
                total[p].extend(res[p])
    return total, errors


def eval_terms(prop, header, defs, timeout=300):
    """Evaluate named terms: defs = [(name, coqterm)], returns raw output text."""
    text = header + "\n"
    for n, t in defs:
        text += "Definition %s := Eval vm_compute in %s.\nPrint %s.\n" % (n, t, n)
    return coqc_text("%s_%d_terms" % (prop, os.getpid()), text, timeout=timeout)


# ------------------------------------------------------------------------------------------------
# extracted model runner (Extraction + ExtrOcamlBasic only; OCaml driver extract/main.ml)
def build_modelrun(prop):
    """Extract Corr.<prop>.run_line to OCaml and build work/extract/<prop>/modelrun.  Cached on the hash of the
    compiled Corr/<prop>.vo.  Returns (path or None, log)."""
    vo = os.path.join(COQ, "Corr", "%s.vo" % prop)
    if not vo_ok("Corr/%s.v" % prop):
        return None, "Corr/%s.vo is not built" % prop
    d = os.path.join(WORK, "extract", prop)
    os.makedirs(d, exist_ok=True)
    main_ml = os.path.join(VERIF, "extract", "main.ml")
    key = hashlib.sha256(open(vo, "rb").read() + open(main_ml, "rb").read()).hexdigest()
    exe = os.path.join(d, "modelrun")
    try:
        if open(os.path.join(d, "key")).read() == key and os.path.exists(exe):
            return exe, "cached"
    except OSError:
        pass
    with open(os.path.join(d, "ext.v"), "w") as f:
        f.write("From Verif Require Import Corr.%s.\nRequire Import Coq.extraction.Extraction Coq.extraction.ExtrOcamlBasic.\n"
                "Extraction Language OCaml.\nSet Warnings \"-extraction-opaque-accessed,-extraction-reserved-identifier\".\n"
                "Extraction \"mr.ml\" Corr.%s.run_line.\n" % (prop, prop))
    rc, o, e = sh(["timeout", "600", "coqc", "-Q", COQ, "Verif", "ext.v"], cwd=d, timeout=630)
    if rc != 0:
        return None, "extraction failed: " + (o + e)[-2000:]
    shutil.copyfile(main_ml, os.path.join(d, "main.ml"))
    rc, o, e = sh(["ocamlfind", "ocamlopt", "-O3", "-w", "-a", "-o", "modelrun", "mr.mli", "mr.ml", "main.ml"], cwd=d,
                  timeout=600)
    if rc != 0:
        rc, o, e = sh(["ocamlfind", "ocamlopt", "-w", "-a", "-o", "modelrun", "mr.mli", "mr.ml", "main.ml"], cwd=d,
                      timeout=600)
    if rc != 0:
        return None, "ocaml build failed: " + (o + e)[-2000:]
    with open(os.path.join(d, "key"), "w") as f:
        f.write(key)
    return exe, "built"


def run_model_lines(exe, lines, workers=16, timeout=1800):
    """Feed the wire lines to the extracted runner (split over processes); returns list of int verdicts
    (None where the runner produced nothing, e.g. it was killed)."""
    if not lines:
        return []
    n = max(1, min(workers, (len(lines) + 49) // 50))
    size = (len(lines) + n - 1) // n
    chunks = [lines[i:i + size] for i in range(0, len(lines), size)]

    def one(chunk):
        try:
            p = subprocess.run(["sh", "-c", "ulimit -s 1000000 2>/dev/null; exec \"$0\"", exe], input="\n".join(chunk) + "\n",
                               stdout=subprocess.PIPE, stderr=subprocess.PIPE, text=True, timeout=timeout)
            outs = p.stdout.split()
        except subprocess.TimeoutExpired:
            outs = []
        res = []
        for i in range(len(chunk)):
            try:
                res.append(int(outs[i]))
            except (IndexError, ValueError):
                res.append(None)
        return res

    out = []
    with cf.ThreadPoolExecutor(max_workers=n) as ex:
        for r in ex.map(one, chunks):
            out.extend(r)
    return out


def run_coq_lines(prop, lines, shard=150, workers=8, timeout=900):
    """Evaluate Corr.<prop>.run_line on the wire lines inside Coq (vm_compute).  Returns list of int verdicts
    or raises RuntimeError with the coqc output."""
    shards = [lines[i:i + shard] for i in range(0, len(lines), shard)]

    def one(k):
        text = "From Verif Require Import Base.Bytes Corr.%s.\nOpen Scope string_scope.\n" % prop
        text += "Definition ls : list string := [\n%s\n]%%list.\n" % ";\n".join('"%s"' % l for l in shards[k])
        text += ("Definition R := Eval vm_compute in String.concat \" \" (List.map Corr.%s.run_line ls).\nPrint R.\n" % prop)
        rc, out = coqc_text("%s_%d_%d" % (prop, os.getpid(), k), text, timeout=timeout)
        m = re.search(r'R\s*=\s*"([0-9 \n]*)"', out)
        if rc != 0 or not m:
            return None, out
        return [int(x) for x in m.group(1).split()], out

    res, errs = [], []
    with cf.ThreadPoolExecutor(max_workers=workers) as ex:
        for k, (r, out) in enumerate(ex.map(one, range(len(shards)))):
            if r is None or len(r) != len(shards[k]):
                errs.append(out[-2500:])
                res.extend([None] * len(shards[k]))
            else:
                res.extend(r)
    return res, errs


# ------------------------------------------------------------------------------------------------
# known findings
def known_findings(prop):
    """Lines: known: property=C01 id=... class=... witness=<file> <text>   /   fixed: property=... <commit> <text>"""
    out = []
    if not os.path.exists(KNOWN):
        return out
    for line in open(KNOWN):
        line = line.strip()
        if not line or line.startswith("#"):
            continue
        m = re.match(r"known:\s+property=(\S+)\s+id=(\S+)\s+class=(\S+)\s+witness=(\S+)\s+(.*)", line)
        if m and m.group(1) == prop:
            out.append({"id": m.group(2), "class": m.group(3), "witness": m.group(4), "text": m.group(5)})
    return out


# ------------------------------------------------------------------------------------------------
class Rng:
    """splitmix64; every random choice of a run derives from VERIF_SEED through this."""

    def __init__(self, seed):
        self.s = seed & 0xFFFFFFFFFFFFFFFF

    def next(self):
        self.s = (self.s + 0x9E3779B97F4A7C15) & 0xFFFFFFFFFFFFFFFF
        z = self.s
        z = ((z ^ (z >> 30)) * 0xBF58476D1CE4E5B9) & 0xFFFFFFFFFFFFFFFF
        z = ((z ^ (z >> 27)) * 0x94D049BB133111EB) & 0xFFFFFFFFFFFFFFFF
        return z ^ (z >> 31)

    def below(self, n):
        return self.next() % n if n > 0 else 0

    def choice(self, l):
        return l[self.below(len(l))]

    def chance(self, num, den):
        return self.below(den) < num

    def bytes(self, n):
        return bytes(self.below(256) for _ in range(n))

    def fork(self, tag):
        h = hashlib.sha256(("%d/%s" % (self.s, tag)).encode()).digest()
        return Rng(int.from_bytes(h[:8], "big"))

    def shuffle(self, l):
        l = list(l)
        for i in range(len(l) - 1, 0, -1):
            j = self.below(i + 1)
            l[i], l[j] = l[j], l[i]
        return l


def seed_from_env():
    try:
        return int(os.environ.get("VERIF_SEED", "20260930"))
    except ValueError:
        return 20260930


def write_evidence(prop, ev):
    os.makedirs(EVID, exist_ok=True)
    with open(os.path.join(EVID, "%s.json" % prop), "w") as f:
        json.dump(ev, f, indent=1, sort_keys=True)
        f.write("\n")
