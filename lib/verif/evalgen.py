"""Shared library of the evaluator-family checks (C01, C02, C03, C05, C06, C07, C09, C10):
program ASTs, rendering to (JSON-flavoured) YAML for the implementation, wire s-expressions for the model,
world description, observation printing, and seeded program generators."""
import json

from . import common as C

# ---- AST constructors (tuples) -------------------------------------------------------------------
# ("null",) ("bool",b) ("num",text) ("str",s) ("interp",[(text, path|None)...]) ("sym",path) ("arr",[e...])
# ("obj",[(key,e)...]) ("join",d,vs) ("tojson",e) ("fromjson",e) ("tostring",e) ("tob64",e) ("fromb64",e)
# ("secret",s) ("cipher",repr) ("open",provider,inputs)
# path = [("name",s) | ("key",s) | ("idx",i)]


def norm_interp(parts):
    """canonical form produced by ast.ParseExpr for a string with these parts"""
    # merge adjacent text-only parts into the following one, drop empty tail
    out, acc = [], ""
    for text, p in parts:
        if p is None:
            acc += text
        else:
            out.append((acc + text, p))
            acc = ""
    if acc != "":
        out.append((acc, None))
    if not out:
        return ("str", "")
    if len(out) == 1:
        text, p = out[0]
        if p is None:
            return ("str", text)
        if text == "":
            return ("sym", p)
    return ("interp", out)


SIMPLE = set("abcdefghijklmnopqrstuvwxyzABCDEFGHIJKLMNOPQRSTUVWXYZ0123456789_-")


def render_path(path):
    s = ""
    for i, (k, v) in enumerate(path):
        if k == "name":
            s += ("." if i > 0 else "") + v
        elif k == "key":
            s += '["' + v.replace('"', '\\"') + '"]'
        else:
            s += "[%d]" % v
    return "${" + s + "}"


def esc_dollar(t):
    return t.replace("$", "$$")


def to_jsonable(e):
    """the YAML (as JSON) node for an expression"""
    k = e[0]
    if k == "null":
        return None
    if k == "bool":
        return e[1]
    if k == "num":
        return RawNum(e[1])
    if k == "str":
        return esc_dollar(e[1])
    if k == "interp":
        return "".join(esc_dollar(t) + (render_path(p) if p is not None else "") for t, p in e[1])
    if k == "sym":
        return render_path(e[1])
    if k == "arr":
        return [to_jsonable(x) for x in e[1]]
    if k == "obj":
        return OrderedObj([(kk, to_jsonable(v)) for kk, v in e[1]])
    if k == "join":
        return OrderedObj([("fn::join", [to_jsonable(e[1]), to_jsonable(e[2])])])
    if k in ("tojson", "fromjson", "tostring", "tob64", "fromb64"):
        name = {"tojson": "fn::toJSON", "fromjson": "fn::fromJSON", "tostring": "fn::toString", "tob64": "fn::toBase64",
                "fromb64": "fn::fromBase64"}[k]
        return OrderedObj([(name, to_jsonable(e[1]))])
    if k == "secret":
        # the plaintext of a secret is literal text (no $$ un-escaping since fix ed5aa3c); "${" must not occur in it
        return OrderedObj([("fn::secret", e[1])])
    if k == "cipher":
        return OrderedObj([("fn::secret", OrderedObj([("ciphertext", e[1])]))])
    if k == "open":
        return OrderedObj([("fn::open::" + e[1], to_jsonable(e[2]))])
    raise ValueError(k)


class RawNum:
    def __init__(self, t):
        self.t = t


class OrderedObj:
    def __init__(self, items):
        self.items = items


def dumps(x):
    if isinstance(x, RawNum):
        return x.t
    if isinstance(x, OrderedObj):
        return "{" + ", ".join(json.dumps(k) + ": " + dumps(v) for k, v in x.items) + "}"
    if isinstance(x, list):
        return "[" + ", ".join(dumps(v) for v in x) + "]"
    return json.dumps(x)


def render_env(envdef):
    """envdef = {"imports": [(name, merge)], "values": [(key, expr)]} -> YAML text"""
    parts = []
    if envdef.get("imports"):
        items = []
        for n, m in envdef["imports"]:
            # m: True = the plain name; "empty" = object form without a merge key (`{name: {}}`, merged by default);
            # "explicit" = `{name: {merge: true}}`; False = `{name: {merge: false}}`
            items.append("{%s: {}}" % json.dumps(n) if m == "empty" else "{%s: {merge: true}}" % json.dumps(n) if m == "explicit"
                         else json.dumps(n) if m else "{%s: {merge: false}}" % json.dumps(n))
        parts.append("imports: [" + ", ".join(items) + "]")
    if envdef.get("values") is not None and (envdef["values"] or not envdef.get("imports")):
        parts.append("values: " + dumps(OrderedObj([(k, to_jsonable(v)) for k, v in envdef["values"]])))
    return "\n".join(parts) + "\n"


# ---- wire printing ------------------------------------------------------------------------------------
def sx(s):
    return C.sx(s)


def w_path(p):
    out = []
    for k, v in p:
        if k == "idx":
            out.append("(idx %d)" % v)
        else:
            out.append("(%s %s)" % (k, sx(v)))
    return "(" + " ".join(out) + ")"


def w_expr(e):
    k = e[0]
    if k == "null":
        return "null"
    if k == "bool":
        return "(b %s)" % ("t" if e[1] else "f")
    if k == "num":
        return "(n %s)" % sx(e[1])
    if k == "str":
        return "(s %s)" % sx(e[1])
    if k == "interp":
        return "(interp %s)" % " ".join("(%s %s)" % (sx(t), "none" if p is None else w_path(p)) for t, p in e[1])
    if k == "sym":
        return "(sym %s)" % w_path(e[1])
    if k == "arr":
        return "(arr %s)" % " ".join(w_expr(x) for x in e[1])
    if k == "obj":
        return "(obj %s)" % " ".join("(%s %s)" % (sx(kk), w_expr(v)) for kk, v in e[1])
    if k == "join":
        return "(join %s %s)" % (w_expr(e[1]), w_expr(e[2]))
    if k in ("tojson", "fromjson", "tostring", "tob64", "fromb64"):
        return "(%s %s)" % (k, w_expr(e[1]))
    if k == "secret":
        return "(secret %s)" % sx(e[1])
    if k == "cipher":
        return "(cipher %s)" % sx(e[1])
    if k == "open":
        return "(open %s %s)" % (sx(e[1]), w_expr(e[2]))
    raise ValueError(k)


def w_envdef(d):
    return "(def (%s) (%s))" % (" ".join("(%s %s)" % (sx(n), "t" if m else "f") for n, m in d.get("imports", [])),
                               " ".join("(%s %s)" % (sx(k), w_expr(v)) for k, v in d.get("values", [])))


def w_sch(s):
    if isinstance(s, str):
        return s
    if s["t"] == "array":
        return "(array (%s) %s)" % (" ".join(w_sch(p) for p in s["prefix"]), "none" if s.get("items") is None else w_sch(s["items"]))
    return "(object (%s) %s)" % (" ".join("(%s %s)" % (sx(k), w_sch(v)) for k, v in sorted(s["props"].items())),
                                "none" if s.get("addl") is None else w_sch(s["addl"]))


def w_insch(s):
    if s == "always":
        return "always"
    return "(record (%s) (%s) %s)" % (" ".join("(%s %s)" % (sx(k), v) for k, v in sorted(s["props"].items())),
                                      " ".join(sx(r) for r in s.get("required", [])),
                                      "t" if s.get("closed") else "f")


def insch_to_go(s):
    if s == "always":
        return "always"
    d = {"t": "object", "props": dict(s["props"]), "required": list(s.get("required", []))}
    if s.get("closed"):
        d["addl"] = "never"
    return d


def w_xval_spec(v):
    """value spec (python dict {"s","u","v"}) -> wire; strings are python str"""
    f = lambda b: "t" if b else "f"
    x = v["v"]
    if x is None:
        return "(xs %s %s null)" % (f(v["s"]), f(v["u"]))
    if isinstance(x, bool):
        return "(xs %s %s (b %s))" % (f(v["s"]), f(v["u"]), f(x))
    if isinstance(x, str):
        return "(xs %s %s (s %s))" % (f(v["s"]), f(v["u"]), sx(x))
    if isinstance(x, list):
        return "(xa %s %s (%s))" % (f(v["s"]), f(v["u"]), " ".join(w_xval_spec(e) for e in x))
    if "n" in x:
        return "(xs %s %s (n %s))" % (f(v["s"]), f(v["u"]), sx(x["n"]))
    return "(xo %s %s (%s))" % (f(v["s"]), f(v["u"]), " ".join("(%s %s)" % (sx(k), w_xval_spec(e)) for k, e in sorted(x["o"].items())))


def w_xval_obs(v):
    """value tree as returned by the Go handler (strings/keys hex-encoded)"""
    if v is None:
        return "none"
    f = lambda b: "t" if b else "f"
    x = v["v"]
    if x is None:
        return "(xs %s %s null)" % (f(v["s"]), f(v["u"]))
    if isinstance(x, bool):
        return "(xs %s %s (b %s))" % (f(v["s"]), f(v["u"]), f(x))
    if isinstance(x, list):
        return "(xa %s %s (%s))" % (f(v["s"]), f(v["u"]), " ".join(w_xval_obs(e) for e in x))
    if "n" in x:
        return "(xs %s %s (n %s))" % (f(v["s"]), f(v["u"]), sx(x["n"]))
    if "h" in x:
        return "(xs %s %s (s x%s))" % (f(v["s"]), f(v["u"]), x["h"])
    if "o" in x:
        return "(xo %s %s (%s))" % (f(v["s"]), f(v["u"]),
                                    " ".join("(x%s %s)" % (k, w_xval_obs(e)) for k, e in sorted(x["o"].items(), key=lambda kv: bytes.fromhex(kv[0]))))
    return "(xs f f null)"


def w_log(log):
    out = []
    for e in log or []:
        if e[0] == "load":
            out.append("(load %s)" % sx(e[1]))
        elif e[0] == "loadprovider":
            out.append("(loadprovider %s)" % sx(e[1]))
        elif e[0] == "open":
            out.append("(open %s %s %s %s)" % (sx(e[1]), w_xval_obs(e[2]), sx(e[3]), sx(e[4])))
        elif e[0] == "decrypt":
            out.append("(decrypt %s x%s)" % (sx(e[1]), e[2]))
    return "(" + " ".join(out) + ")"


def w_world(case):
    envs = []
    for n, e in sorted(case.get("envs", {}).items()):
        if e["kind"] == "fail":
            envs.append("(%s fail)" % sx(n))
        elif e["kind"] == "noparse":
            envs.append("(%s noparse)" % sx(n))
        else:
            envs.append("(%s %s)" % (sx(n), w_envdef(e["def"])))
    provs = []
    for n, p in sorted(case.get("provs", {}).items()):
        beh = p["beh"] if p["beh"] != "const" else "(const %s)" % w_xval_spec(p["const"])
        provs.append("(%s %s %s %s)" % (sx(n), w_insch(p["in"]), w_sch(p["out"]), beh))
    ctx = " ".join("(%s %s)" % (sx(k), w_xval_spec(v)) for k, v in sorted(case.get("ctx", {}).items()))
    fault = "none" if case.get("fault") is None else str(case["fault"])
    return "(world (%s) (%s) (%s) %s %s %s)" % (" ".join(envs), " ".join(provs), ctx,
                                                 "t" if case.get("check") else "f", "t" if case.get("show") else "f", fault)


def w_obs(o):
    if "crash" in o:
        return "crash"
    if "panic" in o:
        return "panic"
    if o.get("loaderr"):
        return "loaderr"
    if o.get("nerr") is not None:
        return "(obs %s %s %s %d)" % (w_xval_obs(o.get("value")), "t" if o.get("errors") else "f", w_log(o.get("log")), o["nerr"])
    return "(obs %s %s %s)" % (w_xval_obs(o.get("value")), "t" if o.get("errors") else "f", w_log(o.get("log")))


def w_case(case, obs):
    """the common part of an evaluator line: root name, root def, world, observation"""
    return "%s %s %s %s" % (sx(case["name"]), w_envdef(case["def"]), w_world(case), w_obs(obs))


def request(case, **extra):
    """request for the Go handler EV"""
    envs = {}
    for n, e in case.get("envs", {}).items():
        if e["kind"] == "def":
            envs[n] = {"kind": "yaml", "text": render_env(e["def"])}
        elif e["kind"] == "noparse":
            envs[n] = {"kind": "yaml", "text": e.get("text", "values: [1, 2\n")}
        else:
            envs[n] = {"kind": "fail"}
    provs = {}
    for n, p in case.get("provs", {}).items():
        provs[n] = {"in": insch_to_go(p["in"]), "out": p["out"], "beh": p["beh"]}
        if p["beh"] == "const":
            provs[n]["const"] = p["const"]
    r = {"name": case["name"], "text": render_env(case["def"]), "envs": envs, "provs": provs,
         "check": bool(case.get("check")), "show": bool(case.get("show")), "ctx": case.get("ctx", {})}
    if case.get("fault") is not None:
        r["fault"] = case["fault"]
    r.update(extra)
    return r


# ---- generators ----------------------------------------------------------------------------------------
KEYS = ["a", "b", "c"]


def gen_literal(rng, depth, keys=KEYS, scalars=None):
    """JSON-shaped literal over a small key alphabet"""
    k = rng.below(10)
    if depth <= 0 or k < 4:
        return gen_scalar(rng, scalars)
    if k < 8:
        n = rng.below(len(keys) + 1)
        ks = rng.shuffle(keys)[:n]
        return ("obj", [(kk, gen_literal(rng, depth - 1, keys, scalars)) for kk in ks])
    return ("arr", [gen_literal(rng, depth - 1, keys, scalars) for _ in range(rng.below(3))])


def gen_scalar(rng, scalars=None):
    k = rng.below(7)
    if k == 0:
        return ("null",)
    if k == 1:
        return ("bool", rng.chance(1, 2))
    if k == 2:
        return ("num", rng.choice(["0", "1", "42", "-7", "3.5"]))
    return ("str", rng.choice(scalars or ["", "x", "y", "hello", "a b", "z9"]))


def gen_graph(rng, nenv, depth=2, merge_false=5, keys=KEYS, valgen=None):
    """acyclic import graph env0..env{n-1}; env i imports only lower-numbered ones (repetition and diamonds allowed)"""
    envs = {}
    valgen = valgen or (lambda r, i: [(k, gen_literal(r, depth, keys)) for k in r.shuffle(keys)[: r.below(len(keys) + 1)]])
    for i in range(nenv):
        imports = []
        if i > 0:
            for _ in range(rng.below(min(i, 4) + 1)):
                imports.append(("e%d" % rng.below(i), not rng.chance(1, merge_false)))
        envs["e%d" % i] = {"imports": imports, "values": valgen(rng, i)}
    return envs


def case_from_graph(envs, root):
    return {"name": root, "def": envs[root],
            "envs": {n: {"kind": "def", "def": d} for n, d in envs.items() if n != root}}


# ---- rich programs: providers, secrets, ciphertexts, imports ----------------------------------------------
import base64 as _b64
import struct as _struct
import zlib as _zlib

CLOSED_OK = True  # closed records (additionalProperties: false): the silent-rejection defect C08-false is fixed (fbca339)
RSTRS = ["", "x", "hello", "a b", "us-west-2", "tok3n"]


def envelope_repr(ct):
    body = b"escx" + _struct.pack(">I", 1) + ct
    return _b64.b64encode(body + _struct.pack(">I", _zlib.crc32(body) & 0xFFFFFFFF)).decode()


def xspec(v, sec=False, unk=False):
    """python value -> value spec dict used for provider constants / context values"""
    if isinstance(v, dict) and set(v.keys()) == {"s", "u", "v"}:
        return v
    if isinstance(v, dict):
        return {"s": sec, "u": unk, "v": {"o": {k: xspec(x) for k, x in v.items()}}}
    if isinstance(v, list):
        return {"s": sec, "u": unk, "v": [xspec(x) for x in v]}
    if isinstance(v, tuple) and v[0] == "num":
        return {"s": sec, "u": unk, "v": {"n": v[1]}}
    return {"s": sec, "u": unk, "v": v}


def out_schema_of(spec):
    """closed record/tuple/scalar schema that a constant provider output satisfies exactly"""
    x = spec["v"]
    if x is None:
        return "null"
    if isinstance(x, bool):
        return "boolean"
    if isinstance(x, str):
        return "string"
    if isinstance(x, list):
        return {"t": "array", "prefix": [out_schema_of(e) for e in x], "items": "never"}
    if "n" in x:
        return "number"
    return {"t": "object", "props": {k: out_schema_of(e) for k, e in x["o"].items()}, "required": sorted(x["o"].keys()),
            "addl": "never"}


def gen_const_output(rng, depth=2, secret_mode=None):
    """provider output with the secret flag placed top-level only / nested only / mixed / nowhere"""
    secret_mode = secret_mode if secret_mode is not None else rng.below(4)

    def go(d, top):
        k = rng.below(6)
        if d <= 0 or k < 3:
            v = rng.choice(["s3cr3t-" + str(rng.below(100)), ("num", str(rng.below(50))), True, None, "plain"])
            sec = (secret_mode == 1 and rng.chance(1, 2)) or (secret_mode == 2 and rng.chance(1, 3))
            return xspec(v, sec=sec)
        if k < 5:
            n = 1 + rng.below(3)
            m = {kk: go(d - 1, False) for kk in rng.shuffle(["user", "pass", "tok", "a"])[:n]}
            sec = (secret_mode == 0 and top) or (secret_mode == 2 and rng.chance(1, 4))
            return {"s": sec, "u": False, "v": {"o": m}}
        sec = (secret_mode == 0 and top)
        return {"s": sec, "u": False, "v": [go(d - 1, False) for _ in range(1 + rng.below(2))]}

    out = go(depth, True)
    if "o" not in (out["v"] if isinstance(out["v"], dict) else {}):
        out = {"s": secret_mode == 0, "u": False, "v": {"o": {"val": out}}}
    return out


class RichGen:
    """generates a world (root + imports) whose values mix literals, references, built-ins, secrets and fn::open"""

    def __init__(self, rng, nimports=None, bad_refs=True, ciphertexts=True, providers=True, nonobject_inputs=True,
                 faulty=True):
        self.rng = rng
        self.sites = []
        self.provs = {}
        self.opts = dict(bad_refs=bad_refs, ciphertexts=ciphertexts, providers=providers, nonobject_inputs=nonobject_inputs,
                         faulty=faulty)
        # mostly 0..2 imports; one world in six has 3 or 4 (check mode with three or more merged imports is otherwise unreached)
        self.nimports = (rng.below(3) if not rng.chance(1, 6) else 3 + rng.below(2)) if nimports is None else nimports
        self.open_keys = []

    def scalar(self):
        r = self.rng
        return r.choice([("str", r.choice(RSTRS)), ("num", r.choice(["1", "42", "0"])), ("bool", True), ("null",)])

    def secret(self, env):
        r = self.rng
        if self.opts["ciphertexts"] and r.chance(1, 3):
            k = r.below(6)
            if k == 0:
                return ("cipher", "bm90IGFuIGVudmVsb3Bl")      # valid base64, not an envelope
            if k == 1:
                return ("cipher", envelope_repr(b"!undecryptable"))
            return ("cipher", envelope_repr(r.choice([b"ct-one", b"", b"zz", b"ct-" + str(r.below(9)).encode()])))
        return ("secret", r.choice(["hunter2", "p4ss", "", "s e c"]))

    def value(self, env, names, depth):
        """an expression; `names` are top-level keys of this environment that exist so far"""
        r = self.rng
        k = r.below(14)
        if depth <= 0 or k < 3:
            return self.scalar()
        if k == 3:
            return self.secret(env)
        if k == 4 and names:
            p = [("name", r.choice(names))]
            for _ in range(r.below(3)):
                p.append(r.choice([("name", "val"), ("name", "user"), ("idx", 0), ("idx", 1), ("key", "p"), ("name", "tok"),
                                   ("idx", 10), ("idx", 16), ("name", "key037"), ("key", "key074")]))
            return ("sym", p)
        if k == 5 and self.opts["bad_refs"]:
            return ("sym", [("name", r.choice(["nope", "missing"]))] + ([("name", "x")] if r.chance(1, 2) else []))
        if k == 6:
            return ("obj", [(kk, self.value(env, names, depth - 1)) for kk in r.shuffle(["p", "q", "r"])[: 1 + r.below(3)]])
        if k == 7:
            if r.chance(1, 12):
                # long arrays (indices >= 10) and wide objects (Go maps with several buckets), read back by index / key
                n = r.choice([11, 12, 17, 33])
                return ("arr", [("num", str(i)) if i % 3 else ("str", "e%d" % i) for i in range(n)])
            if r.chance(1, 12):
                n = r.choice([9, 17, 33, 70])
                return ("obj", [("key%03d" % ((i * 37) % 1000), ("num", str(i))) for i in range(n)])
            return ("arr", [self.value(env, names, depth - 1) for _ in range(r.below(3))])
        if k == 8 and names:
            # one to three references in one string: which of them is unknown / secret must not depend on its position
            parts = []
            for i in range(1 + r.below(3)):
                pth = [("name", r.choice(names))]
                if r.chance(1, 3):
                    pth.append(r.choice([("name", "val"), ("name", "user"), ("idx", 0), ("name", "tok")]))
                parts.append((["pre-", ":", "/"][i], pth))
            parts.append((r.choice(["-post", ""]), None))
            return norm_interp(parts)
        if k == 9:
            # delimiter: literal, reference, or a (known) secret; elements may be unknown (dangling, provider output, bad ciphertext)
            d = r.below(5)
            delim = ("str", ",") if d < 2 else (self.secret(env) if d == 2 else
                                                 (("sym", [("name", r.choice(names))]) if names else ("str", "::")))
            elems = [self.value(env, names, 0 if r.chance(2, 3) else 1) for _ in range(r.below(4))]
            return ("join", delim, ("arr", elems))
        if k == 10:
            return ("tojson", self.value(env, names, depth - 1))
        if k == 11:
            return ("tostring", self.value(env, names, depth - 1))
        if k >= 12 and self.opts["providers"]:
            e = self.open(env, names, depth - 1)
            self.open_keys.append(None)
            return e
        return self.scalar()

    def open(self, env, names, depth):
        r = self.rng
        pname = "p%s%d" % (env, len(self.sites))
        site = {"prov": pname, "env": env, "literal_inputs": None}
        self.sites.append(site)
        in_kind = r.below(3)
        props = {"region": "string", "n": "number", "cfg": "object", "tags": "array"}
        literal_inputs = None
        if self.opts["nonobject_inputs"] and r.chance(1, 12):
            inputs = r.choice([("str", "hello"), ("arr", []), ("num", "3"), ("null",)])
            in_s = "always" if r.chance(1, 2) else {"props": {"region": "string"}, "required": [], "closed": False}
        else:
            entries = []
            lit = {}
            all_lit = True
            for kk in r.shuffle(["region", "n", "cfg", "tags", "extra"])[: 1 + r.below(4)]:
                j = r.below(8)
                if j < 3:
                    good = {"region": ("str", r.choice(RSTRS)), "n": ("num", "7"), "cfg": ("obj", [("k", ("str", "v"))]),
                            "tags": ("arr", [("str", "t")]), "extra": ("bool", True)}[kk]
                    e = good if not r.chance(1, 6) else self.scalar()
                elif j == 3:
                    e = self.secret(env)
                    all_lit = all_lit and e[0] == "secret"
                elif j == 4 and names:
                    e = ("sym", [("name", r.choice(names))])
                    all_lit = False
                elif j == 5 and self.opts["bad_refs"]:
                    e = ("sym", [("name", "nope")])
                    all_lit = False
                elif j == 6 and depth > 0 and self.opts["providers"]:
                    e = self.open(env, names, depth - 1)
                    all_lit = False
                else:
                    e = self.scalar()
                entries.append((kk, e))
            inputs = ("obj", entries)
            if in_kind == 0:
                in_s = "always"
            else:
                in_s = {"props": {k: props[k] for k in r.shuffle(list(props))[: 1 + r.below(4)]},
                        "required": (["region"] if r.chance(1, 2) else []), "closed": in_kind == 2 and CLOSED_OK}
            if all_lit:
                literal_inputs = entries
        beh = r.below(6)
        if beh == 0 and self.opts["faulty"]:
            spec = {"in": in_s, "out": "always", "beh": "fail"}
        elif beh <= 2:
            spec = {"in": in_s, "out": "always", "beh": "echo"}
        else:
            const = gen_const_output(r)
            o = r.below(8)
            out_s = out_schema_of(const) if o < 4 else "always" if o < 6 else r.choice(
                ["array", "object", {"t": "array", "prefix": ["string"]}, {"t": "object", "props": {"val": "string"}}])
            spec = {"in": in_s, "out": out_s, "beh": "const", "const": const}
        if not (self.opts["faulty"] and r.chance(1, 15)):
            self.provs[pname] = spec
        site["literal_inputs"] = literal_inputs
        return ("open", pname, inputs)

    def env_values(self, env, nkeys, depth):
        vals, names = [], []
        for i in range(nkeys):
            k = "%s%d" % ("v", i)
            vals.append((k, self.value(env, names, depth)))
            names.append(k)
        return vals

    def world(self, depth=2):
        r = self.rng
        envs = {}
        names = []
        for i in range(self.nimports):
            n = "e%d" % (i + 1)
            imports = [(m, True) for m in names if r.chance(1, 3)]
            envs[n] = {"imports": imports, "values": self.env_values(n, 1 + r.below(3), depth)}
            names.append(n)
        root_imports = [(m, not r.chance(1, 5)) for m in names if r.chance(3, 4)]
        if names and r.chance(1, 4):
            root_imports.append((r.choice(names), True))      # repeated import
        envs["root"] = {"imports": root_imports, "values": self.env_values("root", 2 + r.below(4), depth)}
        # references into imports
        if root_imports and r.chance(1, 2):
            m = r.choice(root_imports)[0]
            envs["root"]["values"].append(("imp", ("sym", [("name", "imports"), ("name", m)])))
        c = case_from_graph(envs, "root")
        c["provs"] = self.provs
        c["sites"] = self.sites
        return c


def flag_matrix_worlds():
    """directed family: every multi-argument built-in over every pairing of {plain, known secret, unknown-because-failed
    ciphertext, provider output (unknown while checking / when the provider fails), dangling} arguments"""
    pool = [("plain", ("str", "pl")), ("sec", ("sym", [("name", "sec")])), ("bad", ("sym", [("name", "bad")])),
            ("out", ("sym", [("name", "o"), ("name", "val")])), ("outsec", ("sym", [("name", "o"), ("name", "tok")])),
            ("dangling", ("sym", [("name", "nope")])), ("lit-secret", ("secret", "hunter2"))]
    const = {"s": False, "u": False, "v": {"o": {"val": xspec("out"), "tok": xspec("t0k", sec=True)}}}
    base = [("sec", ("secret", "s3p")), ("bad", ("cipher", envelope_repr(b"!undecryptable"))),
            ("o", ("open", "pm", ("obj", [("region", ("str", "x"))])))]
    out = []
    for dn, d in pool:
        for an, a in pool:
            for bn, b in pool:
                if an > bn:
                    continue
                vals = list(base) + [
                    ("j", ("join", d, ("arr", [a, b]))),
                    ("j2", ("join", d, ("arr", [("str", "k"), a]))),
                    ("t", ("tojson", ("obj", [("p", a), ("q", b)]))),
                    ("i", norm_interp([("pre-", [("name", "j")]), ("-post", None)])),
                    ("i2", norm_interp([("<", a[1] if a[0] == "sym" else [("name", "sec")]), ("|", b[1] if b[0] == "sym" else [("name", "o"), ("name", "val")]), (">", None)])),
                    ("i3", norm_interp([("<", b[1] if b[0] == "sym" else [("name", "o"), ("name", "val")]), ("|", a[1] if a[0] == "sym" else [("name", "sec")]), (">", None)])),
                    ("ii", norm_interp([("x", [("name", "i2")]), ("y", [("name", "i")]), ("z", None)])),
                    ("iii", norm_interp([("[", [("name", "ii")]), ("]", None)])),
                    ("ts", ("tostring", ("sym", [("name", "i2")]))),
                    ("after", ("str", "still evaluated"))]
                c = case_from_graph({"root": {"imports": [], "values": vals}}, "root")
                c["provs"] = {"pm": {"in": "always", "out": out_schema_of(const), "beh": "const", "const": const}}
                c["sites"] = [{"prov": "pm", "env": "root", "literal_inputs": [("region", ("str", "x"))]}]
                c["matrix"] = "%s/%s/%s" % (dn, an, bn)
                out.append(c)
    return out


def provider_layer_worlds(full=False):
    """directed family: a provider's output as ONE LAYER of a three-layer merge of the same key `x` (imports e1, e2 and the
    root's own value; also as a chain root -> e2 -> e1), for every kind of output (closed object record, string with a
    `string` schema, closed tuple, echo with no schema) against object and scalar layers that overlap it at nested keys; on
    top of it the references, interpolations and fn::toJSON that read through the layers.  Learnt from seeded changes
    C02-k (fn::open's output validated before the merge), C06-k (an unknown layer of a known scalar type no longer hides the
    layer below), C07-l (object over non-object over object), C01-l (a key defined only in the third layer)."""
    o1 = ("obj", [("foo", ("obj", [("j", ("num", "2"))])), ("host", ("str", "db.internal")),
                  ("options", ("obj", [("sslmode", ("str", "require"))]))])
    o2 = ("obj", [("foo", ("obj", [("k", ("num", "1"))])), ("options", ("obj", [("timeout", ("num", "3"))]))])
    o3 = ("obj", [("deep", ("str", "only-here")), ("foo", ("obj", [("z", ("bool", True))]))])
    inp = ("obj", [("region", ("str", "x"))])
    cobj = {"s": False, "u": False, "v": {"o": {"options": xspec({"timeout": ("num", "5")}), "password": xspec("pw", sec=True)}}}
    cstr = xspec("text")
    carr = xspec(["p", "q"])
    provs = {"pobj": {"in": "always", "out": out_schema_of(cobj), "beh": "const", "const": cobj},
             "pstr": {"in": "always", "out": "string", "beh": "const", "const": cstr},
             "parr": {"in": "always", "out": out_schema_of(carr), "beh": "const", "const": carr},
             "pany": {"in": "always", "out": "always", "beh": "echo"},
             "pfoo": {"in": "always", "out": {"t": "object", "props": {"foo": {"t": "object", "props": {"k": "number"}}}},
                      "beh": "const", "const": xspec({"foo": {"k": ("num", "7")}})}}
    kinds = {"O1": o1, "O2": o2, "O3": o3, "S": ("str", "str"), "N": ("null",), "A": ("arr", [("str", "el")]),
             "PO": ("open", "pobj", inp), "PS": ("open", "pstr", inp), "PA": ("open", "parr", inp), "PE": ("open", "pany", inp),
             "PF": ("open", "pfoo", inp)}
    bottoms = ["O1", "O3", "PO"] if not full else ["O1", "O3", "S", "PO", "PS", "PF"]
    middles = ["O2", "S", "N", "A", "PO", "PS", "PA", "PE", "PF"]
    tops = ["O2", "PO", "PS", "PF", None] if not full else ["O2", "O3", "PO", "PS", "PE", "PF", None]
    reads = [("r_host", ("sym", [("name", "x"), ("name", "host")])),
             ("r_j", ("sym", [("name", "x"), ("name", "foo"), ("name", "j")])),
             ("r_k", ("sym", [("name", "x"), ("name", "foo"), ("name", "k")])),
             ("r_deep", ("sym", [("name", "x"), ("name", "deep")])),
             ("r_to", ("sym", [("name", "x"), ("name", "options"), ("name", "timeout")])),
             ("r_ssl", norm_interp([("ssl=", [("name", "x"), ("name", "options"), ("name", "sslmode")]), ("", None)])),
             ("r_foo", ("sym", [("name", "x"), ("name", "foo")])),
             ("t_x", ("tojson", ("sym", [("name", "x")]))),
             ("t_foo", ("tojson", ("sym", [("name", "x"), ("name", "foo")])))]
    out = []
    for bi, b in enumerate(bottoms):
        for mi, m in enumerate(middles):
            for ti, t in enumerate(tops):
                ks = [b, m] + ([t] if t else [])
                if not any(k.startswith("P") for k in ks) and not (m in ("S", "N", "A")) and b != "O3":
                    continue            # all-literal object towers are C01's own families (kept: a key only in the third layer)
                for chain in ((False, True) if (bi + mi + ti) % 4 == 0 or full else (False,)):
                    for nreads in ((len(reads), 0) if (bi + mi + ti) % 5 == 0 or full else (len(reads),)):
                        # one provider NAME per fn::open expression (the C05 oracle identifies an expression by it)
                        def layer(k, env):
                            return ("open", kinds[k][1] + "_" + env, inp) if k.startswith("P") else kinds[k]
                        e1 = {"imports": [], "values": [("x", layer(b, "e1"))]}
                        e2 = {"imports": [("e1", True)] if chain else [], "values": [("x", layer(m, "e2"))]}
                        rv = ([("x", layer(t, "root"))] if t else []) + reads[:nreads]
                        root = {"imports": [("e2", True)] if chain else [("e1", True), ("e2", True)], "values": rv}
                        c = case_from_graph({"e1": e1, "e2": e2, "root": root}, "root")
                        c["provs"] = {kinds[k][1] + "_" + env: provs[kinds[k][1]]
                                      for k, env in zip(ks, ("e1", "e2", "root")) if k.startswith("P")}
                        c["sites"] = [{"prov": kinds[k][1] + "_" + env, "env": env, "literal_inputs": [("region", ("str", "x"))]}
                                      for k, env in zip(ks, ("e1", "e2", "root")) if k.startswith("P")]
                        c["matrix"] = "layers:%s/%s/%s%s%s" % (b, m, t or "-", "/chain" if chain else "", "" if nreads else "/noreads")
                        out.append(c)
    return out


def lit_xval_wire(e, secret=False):
    """wire xval of a literal expression (secrets flagged)"""
    k = e[0]
    f = "t" if secret else "f"
    if k == "null":
        return "(xs %s f null)" % f
    if k == "bool":
        return "(xs %s f (b %s))" % (f, "t" if e[1] else "f")
    if k == "num":
        return "(xs %s f (n %s))" % (f, sx(e[1]))
    if k == "str":
        return "(xs %s f (s %s))" % (f, sx(e[1]))
    if k == "secret":
        return "(xs t f (s %s))" % sx(e[1])
    if k == "arr":
        return "(xa %s f (%s))" % (f, " ".join(lit_xval_wire(x) for x in e[1]))
    if k == "obj":
        return "(xo %s f (%s))" % (f, " ".join("(%s %s)" % (sx(kk), lit_xval_wire(v)) for kk, v in sorted(e[1], key=lambda kv: kv[0].encode())))
    raise ValueError(k)
