"""Single source of truth for MANIFEST.json (bin/mkmanifest)."""
HOOK_COMMITS = ["1948070", "0be6ff1", "25ace7b", "2d7245c", "1beee83", "9a3e6ee"]
NOTES = ("All checks: bin/check <id> quick|thorough.  Each run: srcfacts regenerates coq/Src from /repo, make re-checks the "
         "Coq development, the Go harness is rebuilt from /repo with -tags verif, cases are generated from VERIF_SEED, "
         "the implementation and the model are run on them and compared, the Coq specification predicate is evaluated on "
         "the implementation's observations.  known-findings.txt lists recorded findings and fixed defects.")
NOT_APPLICABLE = {}
CHECKS = {
 "C11": {
  "text": "Coq theorems over the executable envelope model (base64, big-endian fields, bit-serial CRC-32): round trip for every byte "
          "string, rejection of wrong magic/version/short input; model tied to eval/crypt.go by srcfacts (magic, version, length "
          "floor) and by differential execution through the verif hook on exhaustive small families and random cases",
  "note": "Trusted: Coq kernel, srcfacts, the correspondence harness, extraction (cross-checked against vm_compute each run). "
          "Go's base64/crc32 packages are modelled (bit-serial CRC, std alphabet), not verified.",
  "technique": "machine-checked proof in Coq + model/implementation correspondence check",
 },
}

def _ev(text):
    return {"text": text,
            "note": "Trusted: Coq kernel, the correspondence harness (generators, YAML rendering, EV handler), extraction (cross-checked "
                    "against vm_compute each run). The evaluator model (coq/Model/{Chain,GoText,Eval}.v) is hand-written; yaml.v3, "
                    "encoding/json on non-ASCII text and the full JSON-Schema validator are exercised, not modelled.",
            "technique": "machine-checked proof in Coq + model/implementation correspondence check"}

CHECKS.update({
 "C01": _ev("theorems (all depths, fan-in, repetition, merge flags, failing loads): value.go's lazy chain export equals the closed-form "
            "flat_merge; export(c1++c2) = mp(...) IFF a decidable compatibility condition; the evaluator's exported JSON equals the "
            "property's nested fold of merge patch for literal worlds outside the known class kf_oso; the full statement is refuted "
            "(C01-assoc).  value.merge / property / keys / export and evaluateImport(s) are tied to the source by extracted behaviour "
            "tables (C01_src_*).  Correspondence: the chain/evaluator model vs EvalEnvironment on exhaustive small families (layers x "
            "shapes x nestings, chains of links, aliasing imports) and random import graphs; spec = left fold of merge patch over the "
            "imports' OBSERVED values; a failure is excused as C01-assoc only if the model predicts the same observation"),
 "C02": _ev("theorems: byte-level port of parseInterpolate / propertyAccessParser with $$ law, exact path round trip, totality; "
            "fromJSON(toJSON v) = v incl. arrays and objects; base64 round trip in the evaluator; string form = the value toJSON shows "
            "for single-layer values, refuted for inherited keys (C02-tostring); C02_reference_denotes_final_value, "
            "C02_nested_reference_denotes, C02_interpolation_denotes: in a run without diagnostics and unknowns a reference (top-level, "
            "nested, inside a string) denotes x_access of the exported final value; the PARSER is inside the model (Model/Parse.v = "
            "ast.ParseExpr / ParseEnvironment): parse(render e) = e on the canonical class and the diagnostic-free image of the parser "
            "is exactly that class (C02_parse_*), its name switch re-read from the source; evaluateExpr's dispatch, the access walkers "
            "and the builtins are tied to the source by behaviour tables (C02_src_*).  The documented functions of the other built-ins "
            "at evaluator level are checked by claims on the implementation's result (oracle); key-order independence is proved "
            "under C09.  Correspondence: evaluator model on random programs in two key orders; Model/Interp.v vs ast.Interpolate; "
            "the implementation's decoded YAML tree through the model's parser vs the implementation's AST"),
 "C03": _ev("theorem C03_noninterference_partial: for every program without fn::fromJSON (imports, providers, fault plans, check mode "
            "included) two runs that differ only in secret payloads and both end without diagnostics have low-equivalent results and "
            "byte-identical redacted JSON / string / env-var / temp-file renderings (relational invariant over the mutually recursive "
            "evaluator); refuted with fn::fromJSON of a secret null (C03-fromjson-null).  Correspondence: two-run oracle on the "
            "implementation with every secret payload substituted, plus flag-level comparison with the model"),
 "C05": _ev("theorems over every reachable call log of the model (all worlds, fuels, fault plans): no Open while checking; every Open "
            "has unknown-free, schema-valid, object inputs and the right root/current names; each fn::open expression is opened at most "
            "once (memo discipline) and each successfully loaded environment is loaded at most once; calls are logged exactly once.  "
            "Correspondence: the implementation's collaborator call log compared event by event; the same clauses evaluated on it"),
 "C06": _ev("theorems: checking logs no Open and (without showSecrets) no Decrypt; a decrypt only follows a valid envelope; fn::open and "
            "undisclosed ciphertexts evaluate to unknown with the declared schema while checking; C06_check_approx_open_partial: for "
            "every program without fn::toJSON the check result approximates the opened one (simulation between the modes; refuted with "
            "toJSON: known finding C06-tojson-merged); schema clause: C06_schema_sound_refuted (eight witnesses, four recorded as known "
            "findings C06-schema-*, one repaired) and C06_schema_sound_partial for environments without merged imports whose provider "
            "schemas have no open records/arrays.  Correspondence: check / check+showSecrets / open runs of the same world: the "
            "oracle `approx`, and the JSON-Schema specification vspec (the one C08's theorems are about) applied to check's "
            "Environment.Schema and the opened value; the model's schemas are compared with the implementation's on every case"),
 "C07": _ev("theorems: results do not depend on fuel once it suffices, and an explicit bound always suffices (reference cycles, import "
            "cycles, self-imports, every fault plan; excluding the model's 'unsupported' marker for non-ASCII JSON text); every declared "
            "key is present in the result; every failure path yields an unknown value and a diagnostic; C07_run_terminates_cleanly "
            "(size-based bound).  Oracle on the implementation: no crash/panic/hang, every declared key present, and no unknown value "
            "in an OPENED environment that reported no error.  Go panics, stack exhaustion and "
            "hangs are runtime behaviour: covered by fault enumeration over every collaborator call position (compared with the model), "
            "cyclic/failing imports, shape errors, byte mutation and interpolation fuzz through Load/Check/Eval/Encrypt/Decrypt"),
 "C09": _ev("theorem C09_key_order_irrelevant: reordering keys at every nesting level of the root and of every loadable environment "
            "leaves the observation unchanged (the model iterates no map).  Go's randomised map iteration is runtime behaviour: N+1 "
            "evaluations in one process and one in a fresh process, Environment JSON and sorted diagnostic texts byte-compared, on "
            "programs with many errors, conflicting provider schemas and keys differing only in case"),
 "C10": _ev("theorems: the imports table is a memo (an evaluated import is never re-evaluated and contributes exactly the stored value to "
            "imports.<name> and to the merge), value_access into imports.<x> returns the stored chain whatever was merged, what is "
            "stored does not depend on the base being merged onto; C10_state_independent / C10_imported_same_everywhere: for arbitrary "
            "expressions, providers, secrets and import cycles, X evaluates to the same chain from any two states that agree on its "
            "import closure, and every table entry for X is X opened on its own (fault-free worlds that do not read `context`; each "
            "hypothesis shown necessary); evaluateImport(s), newEvalContext, CopyForEnv and the defensive copy of evaluatePropertyAccess "
            "are tied to the source by behaviour tables (C10_src_*).  Mutable aliasing is runtime: ${imports.X} seen from arbitrary "
            "importers after all merges is compared with X evaluated on its own, and a key only one merged import defines must arrive "
            "unchanged (alias and multi-reference families, per-environment decrypters)"),
})

CHECKS["C17"] = {
 "text": "Coq theorems over a model of the shell renderer and a small POSIX semantics of `export NAME=word` scripts: the rendering of "
         "every value without NUL under every valid name evaluates to exactly the intended exports (induction over the value and the "
         "entry list), redacted renderings are independent of secret values; the quoting byte list and line format are read from "
         "prepare.go by srcfacts; the real renderValue output is compared with the model and executed by /bin/sh, bash and mvdan.cc/sh; "
         "sh_eval itself is validated against those shells on the same scripts",
 "note": "Trusted: Coq kernel, srcfacts, correspondence harness, extraction; the POSIX fragment sh_eval is a hand-written specification "
         "validated against dash/bash on every run; strconv.Quote modelled for 7-bit input only (dotenv compared on ASCII values)",
 "technique": "machine-checked proof in Coq + model/implementation correspondence check",
}

CHECKS["C16"] = {
 "text": "Coq theorems over a model of createTemporaryFile(s)/removeTemporaryFiles and the RunE skeleton with a fault-injectable file "
         "system: for every number of file entries, every fault plan and every child outcome, files hold the projected values, are "
         "exported under their keys, are all removed on return unless their own Remove fails, and a k-th creation failure rolls back "
         "and runs nothing (induction/invariants, no bounds); source-shape facts read by srcfacts; the real `esc run` command is driven "
         "with an in-memory fault-injecting escFS/cmdExec through a verif hook and compared step by step on the exhaustive fault family",
 "note": "Trusted: Coq kernel, srcfacts, correspondence harness (fake file system semantics for a failing Close: truncation), extraction. "
         "Signals (SIGINT skips the deferred cleanup) and real file systems are outside the model.",
 "technique": "machine-checked proof in Coq + model/implementation correspondence check (exhaustive fault enumeration)",
}

CHECKS["C14"] = {
 "text": "Coq theorem no_lost_update over an optimistic-concurrency model (store (def, rev), read-modify-write commands, arbitrary "
         "schedules as step lists, arbitrary prior store): for ANY number of commands and EVERY schedule, if each command sends the tag "
         "it read then each update is either rejected leaving the store unchanged or is an edit of the latest definition, and the "
         "final definition is the fold of exactly the successful edits in write order (invariant by induction over the schedule); the "
         "refuted variant for empty tags; srcfacts reads from env_set/env_rm/env_edit/client.go that each command passes the tag of "
         "its own GetEnvironment and that the client forwards it; the real CLI commands run concurrently in-process against a gated "
         "fake backend under all interleavings of 2 (quick) / 3 (thorough) commands",
 "note": "Trusted: Coq kernel, srcfacts (call-site shape recognition), correspondence harness (gated httptest backend enforcing tags), "
         "extraction. Real concurrent processes and the real service are outside the model; env edit --file sends no tag by design "
         "and is modelled as a blind writer (the class of the refuted theorem).",
 "technique": "machine-checked proof in Coq + model/implementation correspondence check (exhaustive interleavings)",
}

CHECKS["C13"] = {
 "text": "Coq theorems over a model of the line-buffered output filter (Write/Close state machine, all-occurrence covering replacement, "
         "threshold and placeholder read by srcfacts): for EVERY chunking of every stream the output equals the one-write output; "
         "output is line-wise; clean text is unchanged; nothing is withheld after Close; every byte of every occurrence of a filtered "
         "secret without inner newline is withheld (overlapping, nested, adjacent occurrences); byte-level corollary for secrets "
         "independent of the placeholder; secret collection covers env vars, files and (nested) interpolated arguments; multi-line "
         "secrets refuted (known finding). Correspondence: all 2^(n-1) chunkings of streams up to 11 (14 thorough) bytes on 20 "
         "families, the aho-corasick library compared with its modelled match semantics, whole `esc run` commands through a hook",
 "note": "Trusted: Coq kernel, srcfacts, correspondence harness, extraction. The aho-corasick automaton construction is modelled by its "
         "match semantics (differentially tested each run); writer errors, OS pipe chunking and os/exec goroutines are outside the model.",
 "technique": "machine-checked proof in Coq + model/implementation correspondence check (exhaustive chunkings)",
}

CHECKS["C20"] = {
 "text": "the operation table (verb, path template, query, retry policy, headers) of all 33 request-issuing client methods is REGENERATED "
         "from client.go/retry.go by srcfacts on every run; Coq theorems over that table: cleanPath and the URL round trip are the "
         "identity on well-formed targets, request targets are injective in the valid names, every request carries the token and the "
         "tag, a non-GET operation is sent exactly once under ANY sequence of transient failures, a GET at most MaxRetry tries, retries "
         "continue until the first success; the diagnostics clause is refuted (known finding) and proved outside its class; the real "
         "client is driven against fault-injecting httptest servers (5xx / connection reset prefixes) and compared request by request",
 "note": "Trusted: Coq kernel, srcfacts (a method it no longer recognises breaks C20_src_interface_covered), correspondence harness, "
         "extraction. net/http, pulumi's httputil timing and real network faults are exercised, not modelled (the transparent replay "
         "of GETs on reused connections is modelled). Names outside the valid-name hypothesis ('..', '?', '#') mis-address requests: "
         "reported as an observation.",
 "technique": "model regenerated from source + machine-checked proof in Coq + correspondence check",
}

CHECKS["C19"] = {
 "text": "Coq theorems over a model of positionIndex/pos/yamlEndPos/ScalarRange parametrised by seven source facts read by srcfacts "
         "(guard bounds, column and length units): for ALL texts, positions and node trees, byte offsets agree with line/column "
         "(true_byte, cross-proved against a single-pass scan), ranges lie inside the text with begin <= end, and a plain single-line "
         "scalar's range slices to its text - each with a _partial theorem outside decidable known classes, a _refuted witness while the "
         "defective fact is in the source, and a _full_if_repaired theorem; the implementation's every range (Exprs, Trace.Def, "
         "diagnostics, imports) is compared with the model fed by yaml.v3's own node positions",
 "note": "Trusted: Coq kernel, srcfacts, correspondence harness, extraction. yaml.v3's node positions are an input of the model (checked "
         "per run: plain scalars are found at their yaml position); uniseg is modelled for width-1 code points only. Six known findings "
         "are pinned by golden files of the unedited suite (see known-findings.txt).",
 "technique": "machine-checked proof in Coq + model/implementation correspondence check",
}

CHECKS["C08"] = {
 "text": "Coq theorems relating a line-by-line model of the Go validator (vimpl, gate_impl) to JSON Schema 2020-12 semantics written "
         "independently (vspec) for the supported vocabulary: agreement of verdicts for all compiled schemas, values and fuel outside "
         "three decidable known classes (const:null, uniqueItems, number text), reject => diagnostic, accept => none, gate correctness; "
         "string-length unit and the silent-rejection repair are read from the source by srcfacts; the real gate (EvalEnvironment with a "
         "stub provider whose input schema is the generated schema) is compared on generated (schema, value) pairs; python jsonschema "
         "cross-validates vspec in the thorough tier only",
 "note": "Trusted: Coq kernel, srcfacts, correspondence harness, extraction. Restrictions named in the theorems: integral canonical "
         "numerals below 2^64, well-formed UTF-8, single type names other than integer, $defs at the root, multipleOf > 0; pattern "
         "matching is a shared parameter (Go regexp is exercised, not modelled).",
 "technique": "machine-checked proof in Coq + model/implementation correspondence check",
}

CHECKS["C12"] = {
 "text": "Coq theorems over yaml-node and esc syntax trees and the decode -> Walk -> encode pipeline of EncryptSecrets/DecryptSecrets: "
         "skeleton preservation for every tree of the accepted subset and every encrypter/decrypter (all non-secret keys, scalars with "
         "tag and value, sequences, mappings, order and comments carried over; the replaced scalar keeps its trivia), strings stay "
         "strings, Walk is structural; the yaml.v3 text codec is a section variable with a round-trip assumption, exercised for real on "
         "generated documents (styles, YAML-special strings, comments, non-ASCII) by comparing node trees of input and output and "
         "re-loading the output",
 "note": "Trusted: Coq kernel, srcfacts (names compared by crypt.go/ast, MarshalYAML's quoting words), correspondence harness, extraction. "
         "yaml.v3 is not modelled; scalar presentation style and the spelling of null are not part of the skeleton.",
 "technique": "machine-checked proof in Coq + model/implementation correspondence check",
}
CHECKS["C04"] = {
 "text": "Coq theorems: after encryption no fn::secret carries plaintext and every scalar of the result is a skeleton scalar, the "
         "ciphertext key, an envelope of a plaintext or a pre-existing ciphertext; decrypt(encrypt t) restores all secrets and the "
         "skeleton for every reversible cipher (uses C11's envelope round trip); the syntactic (crypt.go) and semantic (ast) recognition "
         "of secrets agree on the tabulated shapes; per-secret transparency open(encrypted) = open(plain). Whole-document transparency "
         "is checked implementation-against-implementation (EvalEnvironment on both forms, values and flags) on documents x special "
         "texts x ciphertext lengths 0..40",
 "note": "Trusted: as C12, plus the toy reversible cipher shared by harness and model. Values and flags of whole documents through the "
         "evaluator are compared, not proved, for this property.",
 "technique": "machine-checked proof in Coq + model/implementation correspondence check",
}

CHECKS["C15"] = {
 "text": "Coq theorems over yaml.v3 node trees and a line-by-line model of YAMLSyntax.Get/Set/Delete and the env set / env rm / env get "
         "routing, parametric in nine source facts read by srcfacts: get-after-set, frame (every path neither above nor below the edited "
         "one finds the identical node, untouched keys keep order and comments, new keys appended), well-formedness, delete removes "
         "exactly the path with the index shift stated, delete of a missing path is a no-op or error and never a panic, --secret stores "
         "fn::secret of the given text; lifted by induction to ALL sequences of commands; direct YAMLSyntax calls and the real CLI "
         "commands against a fake backend are compared step by step on sequences of 1-6 operations",
 "note": "Trusted: Coq kernel, srcfacts, correspondence harness (fake backend, in-memory fs through a verif hook), extraction. yaml.v3's "
         "scanner/emitter, ParsePropertyPath and cobra are exercised, not modelled; parsed definitions/values/paths are inputs of the model.",
 "technique": "machine-checked proof in Coq + model/implementation correspondence check",
}
CHECKS["C18"] = {
 "text": "Coq theorems over a table-driven executable model of encoding/json for the API types: serialisability and unmarshal(marshal v) = v "
         "for every value of every type outside decidable known-finding classes, injectivity, distinctness of null/false/0/\"\"/[]/{}; "
         "struct tags, custom (Un)MarshalJSON shapes and Schema's boolean cases are RE-READ from the Go sources on every run with side "
         "conditions discharged by computation; tied to the real types by differential execution (reflection-built trees incl. "
         "exhaustive per-field families, raw JSON documents, evaluation results of generated programs)",
 "note": "Trusted: Coq kernel, srcfacts, the reflection build/dump in implrun/c18.go (self-checked), extraction; the json text layer and "
         "float formatting are exercised, not modelled.",
 "technique": "model tables regenerated from source + machine-checked proof in Coq + correspondence check",
}

# ---- additions after the independent audits (DESIGN section 13) ------------------------------------------------------------
_ADDENDA = {
 "C03": "  Since the audit the main theorem names its second restriction: the two runs' secret payloads have the same SHAPE "
        "(C03_noninterference_shape_refuted: keys of a secret object show through a public object merged over it - known finding "
        "C03-secret-shape, reproduced on the implementation); the two-run oracle also varies shapes; renderings go through the CLI's own "
        "PrepareEnvironment (plain, dotenv, shell).",
 "C05": "  The load clause was false for FAILING imports (found by the theorem audit, repaired in esc by fix 080ae3f: a failed import is "
        "remembered) and is now proved for all loads and every fault plan; the oracle checks load-at-most-once on the implementation's log "
        "for all loads; the number of error diagnostics is compared with the model's.  Input schemas are modelled at the level of shapes (types, required, closed); the "
        "keyword-level validator behind the same gate is C08's model and check.",
 "C11": "  Flip guarantees are about bits of the binary envelope before base64; at the level of the stored base64 text one flipped bit can "
        "be accepted (C11_text_one_flip_refuted, known finding C11-text-flips) and what does hold there is proved "
        "(C11_text_one_char_replaced, C11_text_char_outside_alphabet, C11_two_adjacent_bytes_rejected).  Every text also goes through "
        "DecryptSecrets and fn::secret with a recording decrypter: error class, diagnostics count and every payload handed over are judged; "
        "payloads up to 128 KiB; the wrap side through EncryptSecrets.",
 "C13": "  Lines of every length are compared (run_fast = run proved); whole `esc run` commands are judged for every scalar secret leaf; the "
        "second exclusion of the no-leak theorem is the exact class ph_clash (a secret spellable with placeholder text), with a refutation; the "
        "whole-command theorem is over the Write/Close state machine for every chunking and every way the child ends.",
 "C14": "  The model and the scripted backend include faults: a PATCH committed whose reply is lost or 5xx, a 400 with diagnostics, the "
        "interactive edit's retry rounds, edit --show-secrets; no_lost_update is proved for every schedule with every fault placement; oracle "
        "clauses (a)-(d) are evaluated on the backend's log; known finding C14-diag-exit0.",
 "C15": "  Since the audit the edit is modelled on the `values` node as the code does it, `printable` also constrains key comments, the real "
        "`env get` is part of the oracle, `--secret` values are encrypted as a backend does and opened, sizes up to 1000 entries / 70 000 bytes "
        "and head / line / foot comments on every node position are generated, texts are compared token-wise.",
 "C20": "  Cross-operation addressing: C20_target_injective_across_ops_refuted / _partial (known finding C20-route-words); request identity "
        "covers verb, target, credentials, tag header and body leaves; bounds for reused connections; the model's out-of-fuel and panic branches "
        "are proved unreachable.",
 "C06": "  The model's schemas are compared with the implementation's outside the decidable class hist_class (Go's mutable per-value schema "
        "makes the result depend on the re-merge history there).",
 "C07": "  The model follows the implementation's silent rejection of unknown values whose schema is `false` (C07 failure-path theorems are "
        "restated as _refuted + _partial with the class never_arg); every collaborator call position is faulted; the number of error "
        "diagnostics is compared with the model's.",
 "C08": "  Values also reach the gate by reference to an object merged from three layers (found and repaired: const/enum vs merged objects, "
        "c0963c8); numeric keyword combinations and $ref chains with sibling keywords are enumerated.",
 "C01": "  References that read through 2-4 layers (siblings and chains) and sparse nestings (a middle layer without the inner key) are "
        "generated next to the fold itself.",
 "C02": "  A provider's output as one layer of a three-layer merge of the same key (every kind of output schema) with path claims for every "
        "reference that reads through the layers.",
 "C10": "  Sparse nesting family: which of three layers lacks the inner key x depth 1-3 x listing order.",
 "C16": "  The fake process runner hands out a genuine *exec.ExitError obtained from a real child.",
 "C12": "  A panic inside the rewrite is an observation of the case (judged), not a skipped case; no tree handed to the emitter holds a "
        "string yaml.v3 mangles (C12_encrypt/_decrypt_output_encodable, fix 9b9d633); the codec hypothesis of the text-level theorems is "
        "shown satisfiable (C12_book_is_a_codec); every document also runs through yaml.v3 ALONE (parse, emit, parse) as a control: where "
        "that control already loses or moves a comment beyond the weak projection, the comments of that document are not judged (counted).",
 "C17": "  The real open / env open / env get commands are driven in process (hook 9a3e6ee); three interpreters execute every script and a "
        "deviation only mvdan/sh shows is listed as that interpreter's quirk; file values shadowing a variable of the same name is refuted "
        "(known finding C17-file-shadows-variable); values to 128 KiB and 1000 entries.",
 "C18": "  The lossy class is exactly 5 of the 18 omitempty slice/map fields (C18_lossy_classes_cover, C18_roundtrip_tidy for the other 13); "
        "the non-UTF-8 excuse applies only to values that reach the encoder with invalid UTF-8 (direct and base64-decoded sources).",
 "C19": "  Known classes are excused only where the model reproduces the range and the recorded cause sits on the attached node; grapheme "
        "widths are the answers of the external collaborator uniseg and travel on the wire; anchored slices are refuted; a crash is a "
        "violation.  Three routes report ranges: the fresh declaration, the same declaration evaluated again after its diagnostics were printed "
        "with its own writer, and the text loaded through the io.Reader entry point.",
}
for _k, _t in _ADDENDA.items():
    CHECKS[_k]["text"] = CHECKS[_k]["text"] + _t
