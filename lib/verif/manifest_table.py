"""Single source of truth for MANIFEST.json (bin/mkmanifest)."""
HOOK_COMMITS = ["1948070"]
NOTES = ("All checks: bin/check <id> quick|thorough.  Each run: srcfacts regenerates coq/Src from /repo, make re-checks the "
         "Coq development, the Go harness is rebuilt from /repo with -tags verif, cases are generated from VERIF_SEED, "
         "the implementation and the model are run on them and compared, the Coq specification predicate is evaluated on "
         "the implementation's observations.  known-findings.txt lists recorded findings and fixed defects.")
NOT_APPLICABLE = {}
CHECKS = {
 "C11": {
  "text": "Coq theorems over the executable envelope model (base64, big-endian fields, bit-serial CRC-32): round trip for every byte "
          "string, rejection of wrong magic/version/short input; model tied to eval/crypt.go by srcfacts (magic, version, length "
          "floor) and by differential execution through the verif hook on exhaustive small families and random cases",
  "note": "Trusted: Coq kernel, srcfacts, the correspondence harness, extraction (cross-checked against vm_compute each run). "
          "Go's base64/crc32 packages are modelled (bit-serial CRC, std alphabet), not verified.",
  "technique": "machine-checked proof in Coq + model/implementation correspondence check",
 },
}
