"""Decision procedure of a check (DESIGN §6): obligations (O), correspondence (K), spec oracle on the
implementation (S), known findings, targeted search, replay files, evidence."""
import importlib
import json
import os
import sys
import time

from . import common as C


class PropModule:
    """Interface each props/cXX.py implements (duck-typed):
       ID            property id
       HEADER        Coq imports for shards (must import Corr.<ID>)
       gen(rng, tier) -> list of case dicts (each gets an 'id' assigned by the driver)
       term(case, obs) -> Coq term of type Corr.<ID>.case   (or None to skip: counted as skipped)
       Optional:
         impl_prop   name passed to implrun (default ID)
         shrink(case) -> iterable of smaller candidate cases
         describe(case) -> short JSON-able description for evidence samples
         extra_checks(ctx) -> list of violation dicts (implementation-vs-implementation oracles)
         search(rng, broken) -> extra cases for the targeted search
         ASSUMPTIONS, TRUSTED  lists of strings for the evidence
         SRC_FACTS    srcfacts names this property uses
    """


def load(prop):
    return importlib.import_module("verif.props.%s" % prop.lower())


def evaluate(mod, cases, tag="main", sample=None):
    """Run impl + model on cases.  Returns dict with per-predicate index lists and obs."""
    for i, c in enumerate(cases):
        c["id"] = i
    impl_prop = getattr(mod, "impl_prop", mod.ID)
    prep = getattr(mod, "prepare", lambda c: c)
    reqs = []
    for i, c in enumerate(cases):
        q = dict(prep(c))
        q["id"] = i
        reqs.append(q)
    if getattr(mod, "FRESH_PROCESS_COMPARE", False):
        # the same requests again, in other processes; the handler's "hash" must agree
        obs_b = C.run_impl(impl_prop, list(reversed(reqs)), batch=getattr(mod, "BATCH", 400) + 7, timeout=getattr(mod, "IMPL_TIMEOUT", 180))
        hb = {o.get("id"): o.get("hash") for o in obs_b}
    else:
        hb = None
    obs = C.run_impl(impl_prop, reqs, batch=getattr(mod, "BATCH", 400), timeout=getattr(mod, "IMPL_TIMEOUT", 180))
    if hb is not None:
        for o in obs:
            if o.get("hash") is not None and hb.get(o.get("id")) is not None and hb[o["id"]] != o["hash"]:
                o["fresh_diff"] = True
    lines, index = [], []
    skipped = 0
    for i, (c, o) in enumerate(zip(cases, obs)):
        t = mod.line(c, o)
        if t is None:
            skipped += 1
            continue
        lines.append(t)
        index.append(i)
    errors = []
    exe, xlog = C.build_modelrun(mod.ID)
    if exe is None:
        errors.append((0, xlog))
        verdicts = [None] * len(lines)
    else:
        verdicts = C.run_model_lines(exe, lines)
    # in-Coq evaluation (vm_compute, no extraction) of a sample, cross-checked against the extracted runner
    nsample = min(len(lines), sample if sample is not None else getattr(mod, "COQ_SAMPLE", 150))
    cross = {"in_coq": 0, "disagree": 0}
    if nsample:
        # Coq parses literals slowly (and overflows its stack on very long ones): sample among the lines of moderate length
        short = [j for j in range(len(lines)) if len(lines[j]) <= 6000]
        step = max(1, len(short) // nsample) if short else 1
        sel = short[::step][:nsample]
        cv, cerrs = C.run_coq_lines(mod.ID, [lines[j] for j in sel])
        for e in cerrs:
            errors.append((0, "in-Coq evaluation failed: " + e))
        for j, v in zip(sel, cv):
            if v is None:
                continue
            cross["in_coq"] += 1
            if verdicts[j] is None:
                verdicts[j] = v
            elif verdicts[j] != v:
                cross["disagree"] += 1
                errors.append((j, "extracted runner and vm_compute disagree on line %r: %s vs %s" % (lines[j][:300], verdicts[j], v)))
    bad = [j for j, v in enumerate(verdicts) if v is None or v >= 16]
    if bad:
        errors.append((bad[0], "model produced no verdict for %d lines, first: %r -> %s" % (len(bad), lines[bad[0]][:400], verdicts[bad[0]])))
    res = {"mismatch": [], "spec_fail_new": [], "spec_fail_known": [], "nontrivial": []}
    for j, v in enumerate(verdicts):
        if v is None or v >= 16:
            continue
        if v & 1:
            res["mismatch"].append(index[j])
        if v & 2:
            res["spec_fail_new"].append(index[j])
        if v & 4:
            res["spec_fail_known"].append(index[j])
        if v & 8:
            res["nontrivial"].append(index[j])
    res["cross"] = cross
    res["lines"] = {index[j]: lines[j] for j in range(len(lines))}
    res["obs"] = obs
    res["errors"] = errors
    res["skipped"] = skipped
    res["evaluated"] = len(lines)
    return res


def shrink(mod, case, pred):
    """Greedy structural shrinking: keep a candidate if `pred` (one of the predicate names) still holds."""
    if not hasattr(mod, "shrink"):
        return case
    cur = case
    for _ in range(40):
        improved = False
        try:
            cands = list(mod.shrink(cur))[:60]
        except Exception as ex:       # a generator's shrinker must never cost the report of a failure: keep the unshrunk case
            sys.stderr.write("shrink failed (%s: %s); the case is reported as generated\n" % (type(ex).__name__, ex))
            break
        if not cands:
            break
        cands = [dict(c) for c in cands]
        r = evaluate(mod, cands, tag="shrink", sample=0)
        if r["errors"]:
            break
        hits = r[pred]
        if hits:
            cur = cands[hits[0]]
            improved = True
        if not improved:
            break
    cur = dict(cur)
    cur.pop("id", None)
    return cur


def write_replay(prop, n, payload):
    d = os.path.join(C.WORK, prop)
    os.makedirs(d, exist_ok=True)
    p = os.path.join(d, "replay-%d.json" % n)
    with open(p, "w") as f:
        json.dump(payload, f, indent=1, sort_keys=True)
        f.write("\n")
    return p


def run_check(prop, tier, replay=None):
    t0 = time.time()
    mod = load(prop)
    seed = C.seed_from_env()
    rng = C.Rng(seed).fork(prop)
    b = C.build()
    d = os.path.join(C.WORK, prop)
    if os.path.isdir(d) and not replay:
        for f in os.listdir(d):
            if f.startswith("replay-"):
                os.remove(os.path.join(d, f))
    violations = []  # (replay path, suffix)
    notes = []
    if b.lint:
        notes.append("lint: " + "; ".join(b.lint))
    if not b.go_ok:
        # the implementation does not build with hooks on: nothing can be decided
        p = write_replay(prop, 0, {"property": prop, "kind": "harness-build-failure", "log": b.go_log[-4000:]})
        print("VIOLATION property=%s replay=%s no-failing-input-found" % (prop, p))
        write_min_evidence(prop, tier, seed, t0, "harness build failed")
        return 1

    if replay:
        return do_replay(mod, replay)

    # ---- O: proof obligations ------------------------------------------------------------------
    ob = C.check_obligations(prop)
    if b.lint:
        ob["ok"] = False
        ob["broken"] = "forbidden construct in the development: " + "; ".join(b.lint)
    # facts about the evaluator core (harness/cmd/srcfacts/evalcore.go) are assigned to properties in one table
    try:
        _ev = json.load(open(os.path.join(os.path.dirname(__file__), "props", "evalsrc_facts.json"))).get(prop, [])
    except (OSError, ValueError):
        _ev = []
    mod.SRC_FACTS = list(dict.fromkeys(list(getattr(mod, "SRC_FACTS", [])) + _ev))
    src_unrec = [k for k, v in b.src_status.items() if v != "ok" and k in getattr(mod, "SRC_FACTS", [])]

    # ---- known findings: replay witnesses ----------------------------------------------------------
    kfs = C.known_findings(prop)

    # ---- K + S on generated cases ----------------------------------------------------------------------
    cases = mod.gen(rng, tier)
    r = evaluate(mod, cases)
    coq_errors = r["errors"]
    mism, sfail, sknown = r["mismatch"], r["spec_fail_new"], r["spec_fail_known"]

    extra_viol = []
    if hasattr(mod, "extra_checks"):
        extra_viol = mod.extra_checks({"rng": rng, "tier": tier, "cases": cases, "res": r, "build": b}) or []

    # known-finding lines (witness still fails on the implementation?)
    kf_lines = []
    if kfs:
        kf_lines = known_lines(mod, kfs, cases, r)

    n_rep = 0
    # S: concrete failing inputs outside known classes
    if sfail:
        i = sfail[0]
        small = shrink(mod, cases[i], "spec_fail_new")
        n_rep += 1
        p = write_replay(prop, n_rep, {"property": prop, "kind": "spec-violation-on-implementation", "seed": seed,
                                       "case": small, "original_case": strip(cases[i]), "impl_obs": r["obs"][i],
                                       "count": len(sfail)})
        violations.append((p, ""))
    # a fatal crash or hang of the implementation on a generated input is a failure of every property (no property
    # permits it), and so is a case the property's line() dropped: a check may not count either as a pass.  Properties whose
    # line() already turns a crash into a failing verdict set CRASH_IS_JUDGED = True (then the verdict decides).
    if not sfail and not getattr(mod, "CRASH_IS_JUDGED", False):
        crashed = [i for i, o in enumerate(r["obs"]) if isinstance(o, dict) and ("crash" in o or "panic" in o)
                   and i not in r["lines"]]
        if crashed:
            i = crashed[0]
            n_rep += 1
            p = write_replay(prop, n_rep, {"property": prop, "kind": "implementation-crash-or-hang", "seed": seed,
                                           "case": strip(cases[i]), "impl_obs": r["obs"][i], "count": len(crashed),
                                           "note": "the implementation crashed, panicked or hung on this input and the case was not judged"})
            violations.append((p, ""))
    if sknown and not kfs and not sfail:
        # failures inside an excused class, but known-findings.txt records no finding for this property: the class is a
        # stale tolerance (e.g. left behind after a fix) and must not hide anything
        i = sknown[0]
        small = shrink(mod, cases[i], "spec_fail_known")
        n_rep += 1
        p = write_replay(prop, n_rep, {"property": prop, "kind": "spec-violation-on-implementation", "seed": seed,
                                       "case": small, "original_case": strip(cases[i]), "impl_obs": r["obs"][i],
                                       "count": len(sknown),
                                       "note": "excused by a class in Corr without a `known:` line in known-findings.txt"})
        violations.append((p, ""))
    for ev in extra_viol:
        n_rep += 1
        p = write_replay(prop, n_rep, dict(ev, property=prop, seed=seed))
        violations.append((p, "" if ev.get("concrete", True) else " no-failing-input-found"))

    broken = []
    if not ob["ok"]:
        broken.append(("obligation", ob["broken"]))
    if src_unrec:
        # a source fact this property rests on was not recognised in today's source: whatever default the extractor wrote,
        # the tie between model and code is not established for it
        broken.append(("obligation", "source facts not recognised in the current source: " + ", ".join(sorted(src_unrec))))
    if mism:
        broken.append(("correspondence", "implementation and model disagree on %d of %d cases" % (len(mism), r["evaluated"])))
    if coq_errors:
        broken.append(("correspondence", "model evaluation failed: " + coq_errors[0][1][-800:]))

    if broken and not violations:
        # targeted search for a concrete failing input
        found = None
        extra = []
        if hasattr(mod, "search"):
            extra = mod.search(rng.fork("search"), {"broken": broken, "mismatch_cases": [cases[i] for i in mism[:20]],
                                                    "tier": tier})
        if extra:
            r2 = evaluate(mod, extra, tag="search")
            if r2["spec_fail_new"]:
                j = r2["spec_fail_new"][0]
                small = shrink(mod, extra[j], "spec_fail_new")
                found = {"case": small, "impl_obs": r2["obs"][j]}
        n_rep += 1
        payload = {"property": prop, "seed": seed, "broken": [{"what": k, "detail": d} for k, d in broken],
                   "theorems": ob["theorems"], "make_log_tail": b.make_log[-3000:] if not ob["ok"] else ""}
        if mism:
            i = mism[0]
            small = shrink(mod, cases[i], "mismatch")
            payload["disagreement"] = {"case": small, "impl_obs_original": r["obs"][i]}
        if found:
            payload["kind"] = "spec-violation-on-implementation"
            payload.update(found)
            p = write_replay(prop, n_rep, payload)
            violations.append((p, ""))
        else:
            payload["kind"] = "broken-" + broken[0][0]
            p = write_replay(prop, n_rep, payload)
            violations.append((p, " no-failing-input-found"))

    # ---- evidence ---------------------------------------------------------------------------------------
    samples = []
    desc0 = getattr(mod, "describe", lambda c: strip(c))

    def desc(c):
        try:
            return desc0(c)
        except Exception as ex:       # a description is documentation: it must never cost the verdict
            return {"undescribed": "%s: %s" % (type(ex).__name__, ex), "case": strip(c)}
    step = max(1, len(cases) // 5)
    for i in range(0, len(cases), step):
        samples.append({"case": desc(cases[i]), "impl": trim(r["obs"][i])})
    ev = {
        "property_id": prop, "tier": tier, "seed": seed, "level": "proof",
        "coverage": {
            "obligations": len(ob["theorems"]), "discharged": ob["discharged"],
            "checker_cmd": "make -k -j16 (coq_makefile, coqc 8.16.1, full .vo build) in coq/; Print Assumptions on every theorem of %s" % ob["file"],
            "trusted_base": ["Coq 8.16.1 kernel + vm_compute", "harness/cmd/srcfacts (Go AST -> coq/Src)",
                             "correspondence harness (lib/verif, harness/cmd/implrun)",
                             "Coq extraction to OCaml (Extraction + ExtrOcamlBasic, no Extract Constant) + extract/main.ml, "
                             "cross-checked against vm_compute on a sample in every run"] + getattr(mod, "TRUSTED", []),
            "theorems": ob["theorems"], "assumptions_reported": sorted(set(ob["assumptions"].values())),
            "obligations_ok": ob["ok"], "obligations_broken": ob["broken"],
            "src_facts": {k: b.src_status.get(k, "absent") for k in getattr(mod, "SRC_FACTS", [])},
            "src_facts_unrecognised": src_unrec,
            "evaluations": len(cases), "distinct_nontrivial": len(set(json.dumps(strip(cases[i]), sort_keys=True) for i in r["nontrivial"])),
            "rule": getattr(mod, "RULE", ""),
            "samples": samples[:6],
            "correspondence": {"cases": r["evaluated"], "skipped": r["skipped"], "mismatches": len(mism),
                               "spec_failures_outside_known_classes": len(sfail),
                               "spec_failures_in_known_classes": len(sknown),
                               "impl_crashes": sum(1 for o in r["obs"] if "crash" in o),
                               "impl_panics": sum(1 for o in r["obs"] if "panic" in o),
                               "in_coq_vm_compute_cases": r["cross"]["in_coq"],
                               "extracted_vs_vm_compute_disagreements": r["cross"]["disagree"],
                               "distribution": getattr(mod, "distribution", lambda cs, rs: {})(cases, r)},
            "known_findings_reported": [l for l in kf_lines],
            "notes": notes,
        },
        "assumptions": getattr(mod, "ASSUMPTIONS", []),
        "wall_s": round(time.time() - t0, 2),
        "violations": len(violations),
    }
    if hasattr(mod, "extra_evidence"):
        ev["coverage"].update(mod.extra_evidence())
    C.write_evidence(prop, ev)
    for l in kf_lines:
        print("KNOWN-FINDING: property=%s %s" % (prop, l))
    for p, suffix in violations:
        print("VIOLATION property=%s replay=%s%s" % (prop, p, suffix))
    if not violations:
        print("OK property=%s tier=%s obligations=%d/%d cases=%d mismatches=0 wall=%.1fs" % (
            prop, tier, ob["discharged"], len(ob["theorems"]), r["evaluated"], time.time() - t0))
    return 1 if violations else 0


def known_lines(mod, kfs, cases, r):
    """For each known finding replay its witness on the implementation; report it iff it still fails
    (inside its class).  A witness that no longer fails is simply not reported (the correspondence
    decides what that means)."""
    lines = []
    wcases, owners = [], []
    for kf in kfs:
        p = os.path.join(C.VERIF, kf["witness"])
        try:
            w = json.load(open(p))
        except Exception:
            continue
        ws = w if isinstance(w, list) else [w]
        for c in ws:
            wcases.append(dict(c))
            owners.append(kf)
    if not wcases:
        return lines
    rr = evaluate(mod, wcases, tag="known")
    failing = set(rr["spec_fail_known"])
    seen = set()
    for i, kf in enumerate(owners):
        if i in failing and kf["id"] not in seen:
            seen.add(kf["id"])
            lines.append("%s %s" % (kf["id"], kf["text"]))
    # a witness failing OUTSIDE its class is treated like any other new failure by the caller's S run
    return lines


def strip(c):
    c = dict(c)
    c.pop("id", None)
    return c


def trim(o, n=300):
    o = dict(o)
    o.pop("stack", None)
    s = json.dumps(o, sort_keys=True)
    if len(s) > n:
        return s[:n] + "..."
    return o


def write_min_evidence(prop, tier, seed, t0, why):
    C.write_evidence(prop, {"property_id": prop, "tier": tier, "seed": seed, "level": "other",
                            "coverage": {"explanation": why}, "wall_s": round(time.time() - t0, 2), "violations": 1})


def do_replay(mod, path):
    payload = json.load(open(path))
    case = payload.get("case") or (payload.get("disagreement") or {}).get("case")
    if case is None:
        print("replay file names a broken obligation/correspondence, no concrete input:")
        print(json.dumps(payload.get("broken"), indent=1))
        return 1
    cases = [dict(case)]
    r = evaluate(mod, cases, tag="replay")
    print("case:", json.dumps(C_strip(cases[0]), sort_keys=True))
    print("implementation:", json.dumps(r["obs"][0], sort_keys=True)[:4000])
    print("model/spec verdict: mismatch=%s spec_fail_new=%s spec_fail_known=%s" % (
        bool(r["mismatch"]), bool(r["spec_fail_new"]), bool(r["spec_fail_known"])))
    if hasattr(mod, "model_show"):
        print("model:", mod.model_show(cases[0], r["obs"][0]))
    if r["errors"]:
        print("coq errors:", r["errors"][0][1][-2000:])
    bad = r["mismatch"] or r["spec_fail_new"]
    if bad:
        print("VIOLATION property=%s replay=%s" % (mod.ID, path))
    return 1 if bad else 0


def C_strip(c):
    return strip(c)


def main(argv):
    if len(argv) < 2:
        print("usage: check <property> quick|thorough [--replay FILE]", file=sys.stderr)
        return 2
    prop = argv[0]
    tier = os.environ.get("VERIF_TIER") or argv[1]
    if tier not in ("quick", "thorough"):
        tier = argv[1]
    replay = None
    if "--replay" in argv:
        replay = argv[argv.index("--replay") + 1]
    return run_check(prop, tier, replay)
