(* Proofs/EvalTotalFail.v — every failure path of the evaluator produces an UNKNOWN value and at least one
   diagnostic, and evaluation goes on (C07: "a failed sub-expression yields an unknown value"). *)
From Verif Require Import Base.Bytes Model.Chain Model.GoText Model.Envelope Model.Eval
  Proofs.EvalTotalBase Proofs.EvalTotalInv Proofs.EvalTotalOrder.
From Coq Require Import Lia ZifyN ZifyNat ZifyBool.

(* the state after one more diagnostic *)
Definition bump (s : st) : st := snd (err s).
Lemma bump_nerr s : nerr (bump s) = nerr s + 1. Proof. reflexivity. Qed.
Lemma bump_oof s : oof (bump s) = oof s. Proof. reflexivity. Qed.
Lemma bump_log s : log (bump s) = log s. Proof. reflexivity. Qed.

(* all the values the error paths return are unknown *)
Lemma invalid_access_unknown : Forall (fun l => l_unk l = true) invalid_access.
Proof. repeat constructor. Qed.
Lemma unknown_layer_unknown sec c : l_unk (unknown_layer sec c) = true.
Proof. reflexivity. Qed.

(* ---- the dispatch on the first accessor of a reference ---- *)
Lemma root_dispatch {A} (k0 : option string) (a b c : A) :
  match k0 with Some "imports" => a | Some "context" => b | _ => c end
  = match k0 with
    | Some k => if String.eqb k "imports" then a else if String.eqb k "context" then b else c
    | None => c
    end.
Proof.
  destruct k0 as [k|]; [|reflexivity].
  repeat (destruct k as [|[[] [] [] [] [] [] [] []] k]; try reflexivity).
Qed.

Section FAILS.
Variable W : world.

(* ---------------- 1. cyclic reference ---------------- *)
Theorem cyclic_reference_is_unknown f E x xsec xbase id s :
  memo_get id (memo s) = Some None ->
  eval_expr W (S f) E x xsec xbase id s = ([unknown_layer false ScAlways], bump s).
Proof.
  intro H. rewrite eval_expr_S. unfold expr_body. rewrite bind_eq.
  unfold get_memo at 1 2. cbn [fst snd]. rewrite H. reflexivity.
Qed.

(* a finished expression is not evaluated again *)
Theorem memo_hit f E x xsec xbase id s v :
  memo_get id (memo s) = Some (Some v) -> eval_expr W (S f) E x xsec xbase id s = (v, s).
Proof.
  intro H. rewrite eval_expr_S. unfold expr_body. rewrite bind_eq.
  unfold get_memo at 1 2. cbn [fst snd]. rewrite H. reflexivity.
Qed.

(* ---------------- 2. invalid / dangling accesses ---------------- *)
Lemma unknown_access_diag : forall accs s,
  unknown_access s accs = (invalid_access, 1) \/ snd (unknown_access s accs) = 0.
Proof.
  induction accs as [|a rest IH]; intro s; [right; reflexivity|].
  cbn [unknown_access]. destruct s; auto.
  - destruct (array_index a _); auto.
  - destruct (object_key a); auto.
Qed.

Lemma value_access_diag : forall f c accs,
  value_access f c accs = (invalid_access, 1) \/ snd (value_access f c accs) = 0.
Proof.
  induction f as [|f IH]; intros c accs; [left; reflexivity|].
  cbn [value_access]. destruct accs as [|a rest]; [right; reflexivity|].
  destruct c as [|l base]; [left; reflexivity|].
  destruct (l_unk l); [apply unknown_access_diag|].
  destruct l as [? ? ? ?|? ? ? elems|? ? ? props]; auto.
  - destruct (array_index a _); auto.
  - destruct (object_key a) as [k|]; auto. destruct (alookup k props); auto.
    destruct (is_object base); auto.
Qed.

(* a failed access through a VALUE (provider output, import, context, inherited base): unknown + 1 diagnostic *)
Theorem value_access_failure f c accs :
  snd (value_access f c accs) <> 0 -> value_access f c accs = (invalid_access, 1).
Proof. destruct (value_access_diag f c accs); [auto|contradiction]. Qed.

Theorem walk_bad_index f E elems rsec rbase rid a rest s :
  array_index a (Z.of_nat (length elems)) = None ->
  walk W (S f) E (EArr elems) rsec rbase rid (a :: rest) s = (invalid_access, bump s).
Proof. intro H. rewrite walk_S. unfold walk_body. rewrite H. reflexivity. Qed.

Theorem walk_bad_key f E entries rsec rbase rid a rest s :
  object_key a = None ->
  walk W (S f) E (EObj entries) rsec rbase rid (a :: rest) s = (invalid_access, bump s).
Proof. intro H. rewrite walk_S. unfold walk_body. rewrite H. reflexivity. Qed.

Theorem walk_dangling f E entries rsec rbase rid a k rest s :
  object_key a = Some k -> alookup k entries = None -> is_object rbase = false ->
  walk W (S f) E (EObj entries) rsec rbase rid (a :: rest) s = (invalid_access, bump s).
Proof.
  intros H1 H2 H3. rewrite walk_S. unfold walk_body. rewrite H1.
  pose proof (find_entry_alookup k entries 0%nat) as Hf. rewrite H2 in Hf.
  destruct (find_entry k entries 0%nat) as [[i v]|]; [discriminate Hf|]. rewrite H3. reflexivity.
Qed.

Theorem walk_into_ciphertext f E repr rsec rbase rid a rest s :
  walk W (S f) E (ESecretCipher repr) rsec rbase rid (a :: rest) s = (invalid_access, bump s).
Proof. rewrite walk_S. reflexivity. Qed.

(* ${k...} where no key k is declared and nothing is inherited *)
Theorem dangling_reference_is_unknown f E a k rest s :
  object_key a = Some k -> reserved k = false ->
  alookup k (ec_values E) = None -> is_object (ec_base E) = false ->
  eval_access W (S (S f)) E (a :: rest) s = (invalid_access, bump s).
Proof.
  intros H1 H2 H3 H4. rewrite eval_access_S. unfold access_body. cbv zeta. rewrite root_dispatch, H1.
  unfold reserved in H2. apply orb_false_iff in H2. destruct H2 as [Ha Hb]. rewrite Ha, Hb.
  apply walk_dangling with (k := k); assumption.
Qed.

Theorem empty_reference_is_unknown f E s : eval_access W (S f) E [] s = (invalid_access, s).
Proof. reflexivity. Qed.

(* ---------------- 3. failed argument validation in the builtins ---------------- *)
Ltac gen_filter := match goal with |- context [filter ?p ?l] => generalize (filter p l) end.
Ltac fin := first [ intros [= <-]; lia | discriminate ].

(* two validations can fail silently (both mirror the implementation):
   - a CLOSED record with an extra key, on a value containing unknowns: the `false` subschema reports nothing (see the
     comment in Model/Eval.v validate) — [silent_accept];
   - an UNKNOWN value whose schema is `false` where a typed argument is expected — at the top of the argument, as an
     element of a known array / a prefix item of an unknown array (fn::join), as a declared property of known provider
     inputs: validateSchemaType returns false without reporting (eval_validate.go:191-193) and evaluateTypedExpr's
     fallback is skipped for values containing unknowns (eval.go:565) — the decidable class [never_arg] *)
Definition silent_accept (a : accept) : bool :=
  match a with AccIn (InRecord _ _ true) => true | _ => false end.

Definition never_arg (a : accept) (v : chain) : bool :=
  match a with
  | AccString => silent_never v
  | AccArrString =>
      match v with
      | l :: _ =>
          if l_unk l then
            match top_sch v with
            | ScNever => true
            | ScArray prefix items => existsb sch_is_never (prefix ++ match items with Some ScNever | None => [] | Some i => [i] end)
            | _ => false
            end
          else match l with LArr _ _ _ elems => existsb silent_never elems | _ => false end
      | [] => false
      end
  | AccIn InAlways => false
  | AccIn (InRecord props _ _) => silent_never v || existsb (fun p => silent_never (property (fst p) v)) props
  end.

Lemma existsb_false_all {A} (g : A -> bool) l : existsb g l = false -> forall x, In x l -> g x = false.
Proof.
  intros H x Hin. destruct (g x) eqn:E; [|reflexivity].
  assert (existsb g l = true) as Ht by (apply existsb_exists; exists x; split; assumption). rewrite Ht in H. discriminate.
Qed.

Lemma filter_filter_all {A} (q p : A -> bool) l : (forall x, In x l -> q x = true) -> filter q (filter p l) = filter p l.
Proof.
  intros H. induction l as [|a l IH]; [reflexivity|]. cbn [filter].
  assert (filter q (filter p l) = filter p l) as IH' by (apply IH; intros x Hx; apply H; now right).
  destruct (p a); [|exact IH']. cbn [filter]. rewrite (H a (or_introl eq_refl)), IH'. reflexivity.
Qed.

(* outside [never_arg]: a rejected argument costs at least one diagnostic, with the closed-record exception *)
Lemma validate_fail_diag_partial a v n :
  never_arg a v = false ->
  validate a v = (false, n) -> silent_accept a = false \/ contains_unknowns v = false -> 1 <= n.
Proof.
  destruct a as [| |[|props required closed]]; unfold validate, never_arg.
  - intros Hn. rewrite Hn. destruct (top_is_string v); intros H _; revert H; fin.
  - intros Hn H _; revert Hn H. destruct v as [|l r]; [intros _; fin|].
    destruct (l_unk l).
    + destruct (top_sch (l :: r)) as [| |ty|prefix items|ps ad|alts]; intros Hn.
      * fin.
      * discriminate Hn.
      * fin.
      * cbv zeta. rewrite filter_filter_all.
        -- gen_filter. intros [|x bad]; cbn [length]; fin.
        -- intros x Hx. apply negb_true_iff. exact (existsb_false_all _ _ Hn x Hx).
      * fin.
      * fin.
    + destruct l as [s u c sc|s u c elems|s u c p]; intros Hn; try fin.
      cbv zeta. rewrite filter_filter_all.
      * gen_filter. intros [|x bad]; cbn [length]; fin.
      * intros x Hx. apply negb_true_iff. exact (existsb_false_all _ _ Hn x Hx).
  - discriminate.
  - intros Hn. apply orb_false_iff in Hn. destruct Hn as [Hn1 Hn2].
    destruct v as [|l r]; [intros H _; revert H; fin|].
    destruct l as [s u c sc|s u c e|s u c p]; cbn [l_unk]; destruct u.
    all: try (intros H _; revert H; unfold silent_never in Hn1; cbn [l_unk andb] in Hn1;
              destruct (top_sch _); try discriminate Hn1; fin).
    all: try (intros H _; revert H; match goal with |- (false, 1) = _ -> _ => fin end).
    cbv zeta. rewrite filter_filter_all.
    2:{ intros x Hx. apply negb_true_iff. exact (existsb_false_all _ _ Hn2 x Hx). }
    match goal with |- (Nat.eqb (length ?m + length ?e + length ?b) 0, _) = _ -> _ =>
      assert (He : closed = false -> length e = 0%nat) by (intros ->; reflexivity);
      generalize dependent (length e); generalize (length m); generalize (length b) end.
    intros nb nm ne He [= Hok <-] Hc. rewrite Hok. cbn [negb andb].
    destruct (Nat.eqb (nm + nb) 0) eqn:E0.
    + destruct Hc as [Hc|Hc].
      * destruct closed; [discriminate Hc|]. specialize (He eq_refl). lia.
      * rewrite Hc. lia.
    + lia.
Qed.

(* inside [never_arg] the statement without the class is false: fn::toBase64 / fn::join / ... given an unknown of schema
   `false` are rejected without any diagnostic *)
Lemma validate_fail_diag_refuted :
  exists a v, validate a v = (false, 0) /\ silent_accept a = false /\ never_arg a v = true.
Proof. exists AccString, [unknown_layer false ScNever]. vm_compute. repeat split; reflexivity. Qed.

(* the silent cases exist (they mirror the implementation: a `false` subschema rejects without reporting; an unknown of
   schema `false` is rejected without reporting) *)
Lemma validate_silent_witness :
  validate (AccIn (InRecord [] [] true)) [LObj false false ScAlways [("x", [unknown_layer false ScAlways])]] = (false, 0).
Proof. vm_compute. reflexivity. Qed.

Lemma validate_silent_never_witness :
  validate AccString [unknown_layer false ScNever] = (false, 0)
  /\ validate AccArrString [unknown_layer false ScNever] = (false, 0)
  /\ validate AccArrString [LArr false false (ScArray [ScNever; ScType "string"] (Some ScNever))
                              [[unknown_layer false ScNever]; [str_layer false false "hello"]]] = (false, 0)
  /\ validate AccArrString [unknown_layer false (ScArray [ScNever] (Some ScNever))] = (false, 0)
  /\ validate (AccIn (InRecord [] [] false)) [unknown_layer false ScNever] = (false, 0)
  /\ validate (AccIn (InRecord [("region", "string")] [] false))
       [LObj false false (ScObject [("region", ScNever)] None) [("region", [unknown_layer false ScNever])]] = (false, 0).
Proof. vm_compute. repeat split; reflexivity. Qed.

Theorem eval_typed_failure_partial f E x a id s :
  let t := eval_typed W (S f) E x a id s in
  snd (fst t) = false ->
  never_arg a (fst (fst t)) = false ->
  silent_accept a = false \/ contains_unknowns (fst (fst t)) = false ->
  nerr s + 1 <= nerr (snd t).
Proof.
  cbv zeta. rewrite eval_typed_S. unfold typed_body. rewrite bind_eq.
  pose proof (le_nerr _ _ (eval_expr_mono W f E x false [] id s)) as Hm.
  destruct (eval_expr W f E x false [] id s) as [v s1]. cbn [fst snd] in *.
  destruct (validate a v) as [ok n] eqn:Ev. rewrite bind_eq. cbn [ret add_err fst snd nerr].
  intros -> Hn Hc. apply validate_fail_diag_partial in Ev; [lia|exact Hn|exact Hc].
Qed.

Definition arg_id (id : eid) (i : nat) : eid := (fst id, snd id ++ [IIdx i]).

(* a rejected argument: the builtin yields an unknown of its result type (always), and a diagnostic was counted unless
   the argument is in the class [never_arg] *)
Theorem tob64_bad_argument_split f E e xbase id s :
  let t := eval_typed W (S f) E e AccString (arg_id id 0) s in
  snd (fst t) = false ->
  eval_repr W (S (S f)) E (EToB64 e) xbase id s = ([unknown_layer false (ScType "string")], snd t)
  /\ (never_arg AccString (fst (fst t)) = false -> nerr s + 1 <= nerr (snd t)).
Proof.
  intros t H. split; [|intros Hn; apply eval_typed_failure_partial; [exact H|exact Hn|left; reflexivity]].
  rewrite eval_repr_S. unfold repr_body. rewrite bind_eq. fold (arg_id id 0). fold t.
  destruct t as [[v ok] s1]. cbn [fst snd] in *. subst ok. reflexivity.
Qed.

Theorem fromb64_bad_argument_split f E e xbase id s :
  let t := eval_typed W (S f) E e AccString (arg_id id 0) s in
  snd (fst t) = false ->
  eval_repr W (S (S f)) E (EFromB64 e) xbase id s = ([unknown_layer false (ScType "string")], snd t)
  /\ (never_arg AccString (fst (fst t)) = false -> nerr s + 1 <= nerr (snd t)).
Proof.
  intros t H. split; [|intros Hn; apply eval_typed_failure_partial; [exact H|exact Hn|left; reflexivity]].
  rewrite eval_repr_S. unfold repr_body. rewrite bind_eq. fold (arg_id id 0). fold t.
  destruct t as [[v ok] s1]. cbn [fst snd] in *. subst ok. reflexivity.
Qed.

Theorem fromjson_bad_argument_split f E e xbase id s :
  let t := eval_typed W (S f) E e AccString (arg_id id 0) s in
  snd (fst t) = false ->
  eval_repr W (S (S f)) E (EFromJSON e) xbase id s = ([unknown_layer false ScAlways], snd t)
  /\ (never_arg AccString (fst (fst t)) = false -> nerr s + 1 <= nerr (snd t)).
Proof.
  intros t H. split; [|intros Hn; apply eval_typed_failure_partial; [exact H|exact Hn|left; reflexivity]].
  rewrite eval_repr_S. unfold repr_body. rewrite bind_eq. fold (arg_id id 0). fold t.
  destruct t as [[v ok] s1]. cbn [fst snd] in *. subst ok. reflexivity.
Qed.

Theorem join_bad_argument_split f E d vs xbase id s :
  let t1 := eval_typed W (S f) E d AccString (arg_id id 0) s in
  let t2 := eval_typed W (S f) E vs AccArrString (arg_id id 1) (snd t1) in
  snd (fst t1) = false \/ snd (fst t2) = false ->
  eval_repr W (S (S f)) E (EJoin d vs) xbase id s = ([unknown_layer false (ScType "string")], snd t2)
  /\ ((snd (fst t1) = false /\ never_arg AccString (fst (fst t1)) = false)
      \/ (snd (fst t2) = false /\ never_arg AccArrString (fst (fst t2)) = false) -> nerr s + 1 <= nerr (snd t2)).
Proof.
  intros t1 t2 H. split.
  - rewrite eval_repr_S. unfold repr_body. rewrite bind_eq. fold (arg_id id 0). fold t1.
    cbv beta. rewrite bind_eq. fold (arg_id id 1). fold t2.
    destruct t1 as [[dv dok] s1]. destruct t2 as [[vv vok] s2]. cbn [fst snd] in *.
    destruct H as [-> | ->]; [reflexivity|]. destruct dok; reflexivity.
  - pose proof (le_nerr _ _ (eval_typed_mono W (S f) E d AccString (arg_id id 0) s)) as M1.
    pose proof (le_nerr _ _ (eval_typed_mono W (S f) E vs AccArrString (arg_id id 1) (snd t1))) as M2.
    fold t1 in M1. fold t2 in M2. intros [[H1 Hn]|[H2 Hn]].
    + pose proof (eval_typed_failure_partial f E d AccString (arg_id id 0) s H1 Hn (or_introl eq_refl)) as H'. fold t1 in H'. lia.
    + pose proof (eval_typed_failure_partial f E vs AccArrString (arg_id id 1) (snd t1) H2 Hn (or_introl eq_refl)) as H'. fold t2 in H'. lia.
Qed.

(* the statements of the builtins with the class as ONE extra hypothesis *)
Theorem tob64_bad_argument_partial f E e xbase id s :
  let t := eval_typed W (S f) E e AccString (arg_id id 0) s in
  snd (fst t) = false ->
  never_arg AccString (fst (fst t)) = false ->
  eval_repr W (S (S f)) E (EToB64 e) xbase id s = ([unknown_layer false (ScType "string")], snd t)
  /\ nerr s + 1 <= nerr (snd t).
Proof. intros t H Hn. destruct (tob64_bad_argument_split f E e xbase id s H) as [A B]. split; [exact A|exact (B Hn)]. Qed.

Theorem fromb64_bad_argument_partial f E e xbase id s :
  let t := eval_typed W (S f) E e AccString (arg_id id 0) s in
  snd (fst t) = false ->
  never_arg AccString (fst (fst t)) = false ->
  eval_repr W (S (S f)) E (EFromB64 e) xbase id s = ([unknown_layer false (ScType "string")], snd t)
  /\ nerr s + 1 <= nerr (snd t).
Proof. intros t H Hn. destruct (fromb64_bad_argument_split f E e xbase id s H) as [A B]. split; [exact A|exact (B Hn)]. Qed.

Theorem fromjson_bad_argument_partial f E e xbase id s :
  let t := eval_typed W (S f) E e AccString (arg_id id 0) s in
  snd (fst t) = false ->
  never_arg AccString (fst (fst t)) = false ->
  eval_repr W (S (S f)) E (EFromJSON e) xbase id s = ([unknown_layer false ScAlways], snd t)
  /\ nerr s + 1 <= nerr (snd t).
Proof. intros t H Hn. destruct (fromjson_bad_argument_split f E e xbase id s H) as [A B]. split; [exact A|exact (B Hn)]. Qed.

Theorem join_bad_argument_partial f E d vs xbase id s :
  let t1 := eval_typed W (S f) E d AccString (arg_id id 0) s in
  let t2 := eval_typed W (S f) E vs AccArrString (arg_id id 1) (snd t1) in
  snd (fst t1) = false \/ snd (fst t2) = false ->
  never_arg AccString (fst (fst t1)) = false /\ never_arg AccArrString (fst (fst t2)) = false ->
  eval_repr W (S (S f)) E (EJoin d vs) xbase id s = ([unknown_layer false (ScType "string")], snd t2)
  /\ nerr s + 1 <= nerr (snd t2).
Proof.
  intros t1 t2 H [Hn1 Hn2]. destruct (join_bad_argument_split f E d vs xbase id s H) as [A B]. split; [exact A|].
  apply B. destruct H as [H|H]; [left|right]; split; assumption.
Qed.

(* invalid base64 / JSON text in an otherwise valid, known string argument *)
Theorem fromb64_bad_text f E e xbase id s sec' unk' sc' txt rest :
  let t := eval_typed W f E e AccString (arg_id id 0) s in
  let v := LScalar sec' unk' sc' (SStr txt) :: rest in
  fst t = (v, true) -> contains_unknowns v = false -> b64_decode txt = None ->
  eval_repr W (S f) E (EFromB64 e) xbase id s
  = ([LScalar (contains_secrets v) true (ScType "string") SNull], bump (snd t)).
Proof.
  intros t v H1 H2 H4. rewrite eval_repr_S. unfold repr_body. rewrite bind_eq. fold (arg_id id 0). fold t.
  destruct t as [[v' ok] s1]. cbn [fst snd] in *. injection H1 as -> ->. cbn [negb]. cbv zeta.
  rewrite H2. unfold v at 1. rewrite H4. reflexivity.
Qed.

Theorem fromjson_bad_text f E e xbase id s sec' unk' sc' txt rest :
  let t := eval_typed W f E e AccString (arg_id id 0) s in
  let v := LScalar sec' unk' sc' (SStr txt) :: rest in
  fst t = (v, true) -> contains_unknowns v = false -> json_parse txt = JPErr ->
  eval_repr W (S f) E (EFromJSON e) xbase id s
  = ([LScalar (contains_secrets v) true ScAlways SNull], bump (snd t)).
Proof.
  intros t v H1 H2 H4. rewrite eval_repr_S. unfold repr_body. rewrite bind_eq. fold (arg_id id 0). fold t.
  destruct t as [[v' ok] s1]. cbn [fst snd] in *. injection H1 as -> ->. cbn [negb]. cbv zeta.
  rewrite H2. unfold v at 1. rewrite H4. reflexivity.
Qed.


(* ---------------- 4. secrets: invalid envelope, failing decrypter ---------------- *)
Definition esc_params : env_params := {| ep_magic := "escx"; ep_version := 1; ep_min_len := 12 |}.

Lemma call_fault s : w_fault W = Some (calls s) -> fst (call W s) = true.
Proof. intro H. unfold call. cbn [fst]. rewrite H. apply N.eqb_refl. Qed.

Theorem bad_ciphertext_is_unknown f E repr xbase id s :
  (forall ct, decode_ct esc_params repr <> DOk ct) ->
  eval_repr W (S f) E (ESecretCipher repr) xbase id s = ([LScalar true true (ScType "string") SNull], bump s).
Proof.
  intro H. rewrite eval_repr_S. unfold repr_body. fold esc_params.
  destruct (decode_ct esc_params repr) as [ct| | | | | |] eqn:Ed; try reflexivity.
  exfalso. exact (H ct eq_refl).
Qed.

Theorem decrypt_failure_is_unknown f E repr ct xbase id s :
  decode_ct esc_params repr = DOk ct -> w_check W && negb (w_show W) = false ->
  (w_fault W = Some (calls s) \/ w_decrypt W (ec_name E) ct = None) ->
  exists s',
    eval_repr W (S f) E (ESecretCipher repr) xbase id s = ([LScalar true true (ScType "string") SNull], s') /\
    nerr s' = nerr s + 1 /\ log s' = EvDecrypt (ec_name E) ct :: log s /\ oof s' = oof s.
Proof.
  intros Hd Hc Hf. rewrite eval_repr_S. unfold repr_body. fold esc_params. rewrite Hd, Hc.
  rewrite bind_eq. cbv beta. rewrite bind_eq.
  assert (Hn : (if fst (call W s) then None else w_decrypt W (ec_name E) ct) = None).
  { destruct Hf as [Hf|Hf]; [rewrite (call_fault s Hf); reflexivity|]. rewrite Hf. now destruct (fst (call W s)). }
  rewrite Hn. eexists. split; [reflexivity|]. repeat split.
Qed.

(* ---------------- 5. providers ---------------- *)
Theorem provider_load_failure f E pname inputs xbase id s :
  (w_fault W = Some (calls s) \/ alookup pname (w_provs W) = None) ->
  fst (eval_repr W (S f) E (EOpen pname inputs) xbase id s) = [unknown_layer false ScAlways] /\
  nerr s + 1 <= nerr (snd (eval_repr W (S f) E (EOpen pname inputs) xbase id s)).
Proof.
  intro Hf. rewrite eval_repr_S. unfold repr_body. rewrite bind_eq. cbv beta. rewrite bind_eq. cbv beta zeta.
  assert (Hn : (if fst (call W s) then None else alookup pname (w_provs W)) = None).
  { destruct Hf as [Hf|Hf]; [rewrite (call_fault s Hf); reflexivity|]. rewrite Hf. now destruct (fst (call W s)). }
  rewrite Hn. rewrite bind_eq. cbv beta. rewrite bind_eq.
  set (s1 := snd (err (snd (emit (EvLoadProvider pname) (snd (call W s)))))).
  pose proof (le_nerr _ _ (eval_typed_mono W f E inputs (AccIn InAlways) (fst id, snd id ++ [IIdx 0]) s1)) as Hm.
  destruct (eval_typed W f E inputs (AccIn InAlways) (fst id, snd id ++ [IIdx 0]) s1) as [[iv ok] s2].
  cbn [fst snd ret] in *. split; [reflexivity|]. change (nerr s1) with (nerr s + 1) in Hm. exact Hm.
Qed.

Section PROVIDER.
Variables (f : nat) (E : ectx) (pname : string) (inputs : expr) (xbase : chain) (id : eid) (s : st) (p : provider).
Hypothesis Hcall : fst (call W s) = false.
Hypothesis Hprov : alookup pname (w_provs W) = Some p.
Let s1 := snd (emit (EvLoadProvider pname) (snd (call W s))).
Let t := eval_typed W f E inputs (AccIn (pv_in p)) (arg_id id 0) s1.

Lemma open_prefix :
  eval_repr W (S f) E (EOpen pname inputs) xbase id s =
  (let '(iv, ok) := fst t in
   if negb ok || contains_unknowns iv || w_check W then ret [unknown_layer false (pv_out p)]
   else match export_t iv with
        | Some (XObj s0 u m as xin) =>
            failed2 <- call W ;;
            emit (EvOpen id pname xin (ec_root E) (ec_name E)) ;;;
            match (if failed2 then None
                   else match pv_beh p with PEcho => Some xin | PConst v => Some v | PFail => None end) with
            | Some o => ret (unexport (S (x_depth o)) false o)
            | None => err ;;; ret [unknown_layer false (pv_out p)]
            end
        | Some _ => err ;;; ret [unknown_layer false (pv_out p)]
        | None => out_of_fuel ;;; ret invalid_access
        end) (snd t).
Proof.
  rewrite eval_repr_S. unfold repr_body. rewrite bind_eq. cbv beta. rewrite bind_eq. cbv beta zeta.
  rewrite Hcall, Hprov. rewrite bind_eq. cbv beta. rewrite bind_eq. reflexivity.
Qed.

(* inputs rejected by the provider's schema: unknown output, the provider is NOT opened *)
Theorem provider_bad_inputs :
  snd (fst t) = false ->
  eval_repr W (S f) E (EOpen pname inputs) xbase id s = ([unknown_layer false (pv_out p)], snd t).
Proof.
  intro H. rewrite open_prefix. destruct t as [[iv ok] s2]. cbn [fst snd] in *. subst ok. reflexivity.
Qed.

Theorem provider_open_failure iv a b m :
  fst t = (iv, true) -> contains_unknowns iv = false -> w_check W = false ->
  export_t iv = Some (XObj a b m) ->
  (w_fault W = Some (calls (snd t)) \/ pv_beh p = PFail) ->
  exists s',
    eval_repr W (S f) E (EOpen pname inputs) xbase id s = ([unknown_layer false (pv_out p)], s') /\
    nerr s' = nerr (snd t) + 1 /\
    log s' = EvOpen id pname (XObj a b m) (ec_root E) (ec_name E) :: log (snd t).
Proof.
  intros H1 H2 H3 H4 H5. rewrite open_prefix. rewrite H1, H2, H3, H4. cbn [negb orb].
  rewrite bind_eq. cbv beta. rewrite bind_eq.
  match goal with |- context [match ?o with Some _ => _ | None => _ end] =>
    assert (Hn : o = None) end.
  { destruct H5 as [H5|H5]; [rewrite (call_fault _ H5); reflexivity|]. rewrite H5.
    now destruct (fst (call W (snd t))). }
  rewrite Hn. eexists. split; [reflexivity|]. split; reflexivity.
Qed.

(* inputs that are not an object although the schema let them through: diagnostic, not a crash *)
Theorem provider_nonobject_inputs iv x :
  fst t = (iv, true) -> contains_unknowns iv = false -> w_check W = false ->
  export_t iv = Some x -> (forall a b m, x <> XObj a b m) ->
  eval_repr W (S f) E (EOpen pname inputs) xbase id s = ([unknown_layer false (pv_out p)], bump (snd t)).
Proof.
  intros H1 H2 H3 H4 H5. rewrite open_prefix. rewrite H1, H2, H3, H4. cbn [negb orb].
  destruct x as [? ? ?|? ? ?|a b m]; try reflexivity. exfalso. exact (H5 a b m eq_refl).
Qed.

End PROVIDER.

(* ---------------- 6. imports ---------------- *)
Theorem import_failure_skipped ev n merge rest base my s :
  alookup n (imps s) = None ->
  load_result W (fst (call W s)) n = LoadFail \/ load_result W (fst (call W s)) n = LoadNoParse ->
  env_go W ev ((n, merge) :: rest) base my s
  = env_go W ev rest base my
      (snd (imps_set n {| is_evaluating := false; is_value := None |} (bump (snd (emit (EvLoad n) (snd (call W s))))))).
Proof.
  intros H1 H2. rewrite env_go_cons, bind_eq. unfold imps_get at 1 2. cbn [fst snd]. rewrite H1.
  rewrite bind_eq. cbv beta. rewrite bind_eq. destruct H2 as [-> | ->]; rewrite bind_eq, bind_eq; reflexivity.
Qed.

(* ... and the failure is remembered: a later listing of the same name (not in progress, no value) is skipped
   without a load, a call, an event or a diagnostic *)
Theorem import_remembered_failure_skipped ev n merge rest base my s i :
  alookup n (imps s) = Some i -> is_evaluating i = false -> is_value i = None ->
  env_go W ev ((n, merge) :: rest) base my s = env_go W ev rest base my s.
Proof.
  intros H1 H2 H3. rewrite env_go_cons, bind_eq. unfold imps_get at 1 2. cbn [fst snd]. rewrite H1, H2, H3.
  reflexivity.
Qed.

Lemma load_result_fault n s : w_fault W = Some (calls s) -> load_result W (fst (call W s)) n = LoadFail.
Proof. intro H. rewrite (call_fault s H). reflexivity. Qed.

Lemma load_result_missing n b : alookup n (w_envs W) = None -> load_result W b n = LoadFail.
Proof. intro H. unfold load_result. rewrite H. now destruct b. Qed.

Theorem import_cycle_skipped ev n merge rest base my s i :
  alookup n (imps s) = Some i -> is_evaluating i = true ->
  env_go W ev ((n, merge) :: rest) base my s = env_go W ev rest base my (bump s).
Proof.
  intros H1 H2. rewrite env_go_cons, bind_eq. unfold imps_get at 1 2. cbn [fst snd]. rewrite H1, H2.
  rewrite bind_eq. reflexivity.
Qed.

(* a self-import is a cycle: eval_env marks its own name as evaluating first *)
Theorem self_import_is_cycle name s :
  alookup name (imps (snd (imps_set name {| is_evaluating := true; is_value := None |} s)))
  = Some {| is_evaluating := true; is_value := None |}.
Proof. cbn. rewrite String.eqb_refl. reflexivity. Qed.

End FAILS.

(* ---------------- 7. the silent rejection of an unknown of schema `false`, on a whole program ----------------
   provider p declares {type: object} and returns {tok: "hello"}; while CHECKING, ${o.tok} is an unknown whose schema is
   `false` (sch_property of a record that neither declares the member nor has additionalProperties); the typed builtins
   reject it, yield an unknown of their result type, and NOTHING is reported.  The Go implementation does the same
   (eval_validate.go:191-193, eval.go:565). *)
Definition never_world : world :=
  {| w_envs := [];
     w_provs := [("p", {| pv_in := InAlways; pv_out := ScObject [] None;
                          pv_beh := PConst (XObj false false [("tok", XScalar false false (SStr "hello"))]) |});
                 ("q", {| pv_in := InRecord [("region", "string")] [] false; pv_out := ScAlways; pv_beh := PEcho |})];
     w_ctx := []; w_check := true; w_show := false; w_fault := None; w_decrypt := fun _ _ => None |}.

Definition never_ectx : ectx :=
  {| ec_name := "root"; ec_root := "root"; ec_values := [("o", EOpen "p" (EObj []))]; ec_base := [];
     ec_imports := imports_value []; ec_context := context_chain never_world "root" "root" |}.

Definition never_ref : expr := ESym [AName "o"; AName "tok"].
Definition never_id : eid := ("root", [IKey "c"]).

Lemma never_ref_value :
  fst (eval_expr never_world 20 never_ectx never_ref false [] (arg_id never_id 0) st0) = [unknown_layer false ScNever]
  /\ nerr (snd (eval_expr never_world 20 never_ectx never_ref false [] (arg_id never_id 0) st0)) = 0.
Proof. vm_compute. split; reflexivity. Qed.

Theorem eval_typed_failure_refuted :
  exists W f E x a id s,
    let t := eval_typed W (S f) E x a id s in
    snd (fst t) = false /\ silent_accept a = false /\ nerr (snd t) = nerr s.
Proof.
  exists never_world, 20%nat, never_ectx, never_ref, AccString, (arg_id never_id 0), st0.
  vm_compute. repeat split; reflexivity.
Qed.

Theorem tob64_bad_argument_refuted :
  exists W f E e id s,
    let t := eval_typed W (S f) E e AccString (arg_id id 0) s in
    snd (fst t) = false /\ nerr (snd t) = nerr s.
Proof. exists never_world, 20%nat, never_ectx, never_ref, never_id, st0. vm_compute. split; reflexivity. Qed.

Theorem join_bad_argument_refuted :
  exists W f E d vs id s,
    let t1 := eval_typed W (S f) E d AccString (arg_id id 0) s in
    let t2 := eval_typed W (S f) E vs AccArrString (arg_id id 1) (snd t1) in
    (snd (fst t1) = false \/ snd (fst t2) = false) /\ nerr (snd t2) = nerr s.
Proof.
  exists never_world, 20%nat, never_ectx, (EStr "-"), (EArr [never_ref; EStr "hello"]), never_id, st0.
  vm_compute. split; [right|]; reflexivity.
Qed.

(* ... as the delimiter of fn::join and as declared property of provider inputs with a record schema *)
Theorem join_delimiter_refuted :
  let t1 := eval_typed never_world 21 never_ectx never_ref AccString (arg_id never_id 0) st0 in
  snd (fst t1) = false /\ nerr (snd t1) = 0.
Proof. vm_compute. split; reflexivity. Qed.

Theorem record_input_refuted :
  let t := eval_typed never_world 21 never_ectx (EObj [("region", never_ref)])
             (AccIn (InRecord [("region", "string")] [] false)) (arg_id never_id 0) st0 in
  snd (fst t) = false /\ nerr (snd t) = 0.
Proof. vm_compute. split; reflexivity. Qed.

(* the whole program: every consumer is unknown and the check reports no error at all *)
Definition never_program : envdef :=
  {| ed_imports := [];
     ed_values := [("o", EOpen "p" (EObj []));
                   ("c", EJoin (EStr "-") (EArr [never_ref; EStr "hello"]));
                   ("d", EJoin never_ref (EArr [EStr "a"; EStr "b"]));
                   ("e", EToB64 never_ref); ("f", EFromB64 never_ref); ("g", EFromJSON never_ref);
                   ("h", EOpen "q" (EObj [("region", never_ref)]))] |}.

Theorem never_program_silent :
  let o := run 100 never_world "root" never_program in
  ob_errors o = false /\ ob_oof o = false
  /\ ob_value o = Some (XObj false false
       [("c", XScalar false true SNull); ("d", XScalar false true SNull); ("e", XScalar false true SNull);
        ("f", XScalar false true SNull); ("g", XScalar false true SNull); ("h", XScalar false true SNull);
        ("o", XScalar false true SNull)]).
Proof. vm_compute. repeat split; reflexivity. Qed.
