(* Proofs/EvalTotalFail.v — every failure path of the evaluator produces an UNKNOWN value and at least one
   diagnostic, and evaluation goes on (C07: "a failed sub-expression yields an unknown value"). *)
From Verif Require Import Base.Bytes Model.Chain Model.GoText Model.Envelope Model.Eval
  Proofs.EvalTotalBase Proofs.EvalTotalInv Proofs.EvalTotalOrder.
From Coq Require Import Lia ZifyN ZifyNat ZifyBool.

(* the state after one more diagnostic *)
Definition bump (s : st) : st := snd (err s).
Lemma bump_nerr s : nerr (bump s) = nerr s + 1. Proof. reflexivity. Qed.
Lemma bump_oof s : oof (bump s) = oof s. Proof. reflexivity. Qed.
Lemma bump_log s : log (bump s) = log s. Proof. reflexivity. Qed.

(* all the values the error paths return are unknown *)
Lemma invalid_access_unknown : Forall (fun l => l_unk l = true) invalid_access.
Proof. repeat constructor. Qed.
Lemma unknown_layer_unknown sec c : l_unk (unknown_layer sec c) = true.
Proof. reflexivity. Qed.

(* ---- the dispatch on the first accessor of a reference ---- *)
Lemma root_dispatch {A} (k0 : option string) (a b c : A) :
  match k0 with Some "imports" => a | Some "context" => b | _ => c end
  = match k0 with
    | Some k => if String.eqb k "imports" then a else if String.eqb k "context" then b else c
    | None => c
    end.
Proof.
  destruct k0 as [k|]; [|reflexivity].
  repeat (destruct k as [|[[] [] [] [] [] [] [] []] k]; try reflexivity).
Qed.

Section FAILS.
Variable W : world.

(* ---------------- 1. cyclic reference ---------------- *)
Theorem cyclic_reference_is_unknown f E x xsec xbase id s :
  memo_get id (memo s) = Some None ->
  eval_expr W (S f) E x xsec xbase id s = ([unknown_layer false ScAlways], bump s).
Proof.
  intro H. rewrite eval_expr_S. unfold expr_body. rewrite bind_eq.
  unfold get_memo at 1 2. cbn [fst snd]. rewrite H. reflexivity.
Qed.

(* a finished expression is not evaluated again *)
Theorem memo_hit f E x xsec xbase id s v :
  memo_get id (memo s) = Some (Some v) -> eval_expr W (S f) E x xsec xbase id s = (v, s).
Proof.
  intro H. rewrite eval_expr_S. unfold expr_body. rewrite bind_eq.
  unfold get_memo at 1 2. cbn [fst snd]. rewrite H. reflexivity.
Qed.

(* ---------------- 2. invalid / dangling accesses ---------------- *)
Lemma unknown_access_diag : forall accs s,
  unknown_access s accs = (invalid_access, 1) \/ snd (unknown_access s accs) = 0.
Proof.
  induction accs as [|a rest IH]; intro s; [right; reflexivity|].
  cbn [unknown_access]. destruct s; auto.
  - destruct (array_index a _); auto.
  - destruct (object_key a); auto.
Qed.

Lemma value_access_diag : forall f c accs,
  value_access f c accs = (invalid_access, 1) \/ snd (value_access f c accs) = 0.
Proof.
  induction f as [|f IH]; intros c accs; [left; reflexivity|].
  cbn [value_access]. destruct accs as [|a rest]; [right; reflexivity|].
  destruct c as [|l base]; [left; reflexivity|].
  destruct (l_unk l); [apply unknown_access_diag|].
  destruct l as [? ? ? ?|? ? ? elems|? ? ? props]; auto.
  - destruct (array_index a _); auto.
  - destruct (object_key a) as [k|]; auto. destruct (alookup k props); auto.
    destruct (is_object base); auto.
Qed.

(* a failed access through a VALUE (provider output, import, context, inherited base): unknown + 1 diagnostic *)
Theorem value_access_failure f c accs :
  snd (value_access f c accs) <> 0 -> value_access f c accs = (invalid_access, 1).
Proof. destruct (value_access_diag f c accs); [auto|contradiction]. Qed.

Theorem walk_bad_index f E elems rsec rbase rid a rest s :
  array_index a (Z.of_nat (length elems)) = None ->
  walk W (S f) E (EArr elems) rsec rbase rid (a :: rest) s = (invalid_access, bump s).
Proof. intro H. rewrite walk_S. unfold walk_body. rewrite H. reflexivity. Qed.

Theorem walk_bad_key f E entries rsec rbase rid a rest s :
  object_key a = None ->
  walk W (S f) E (EObj entries) rsec rbase rid (a :: rest) s = (invalid_access, bump s).
Proof. intro H. rewrite walk_S. unfold walk_body. rewrite H. reflexivity. Qed.

Theorem walk_dangling f E entries rsec rbase rid a k rest s :
  object_key a = Some k -> alookup k entries = None -> is_object rbase = false ->
  walk W (S f) E (EObj entries) rsec rbase rid (a :: rest) s = (invalid_access, bump s).
Proof.
  intros H1 H2 H3. rewrite walk_S. unfold walk_body. rewrite H1.
  pose proof (find_entry_alookup k entries 0%nat) as Hf. rewrite H2 in Hf.
  destruct (find_entry k entries 0%nat) as [[i v]|]; [discriminate Hf|]. rewrite H3. reflexivity.
Qed.

Theorem walk_into_ciphertext f E repr rsec rbase rid a rest s :
  walk W (S f) E (ESecretCipher repr) rsec rbase rid (a :: rest) s = (invalid_access, bump s).
Proof. rewrite walk_S. reflexivity. Qed.

(* ${k...} where no key k is declared and nothing is inherited *)
Theorem dangling_reference_is_unknown f E a k rest s :
  object_key a = Some k -> reserved k = false ->
  alookup k (ec_values E) = None -> is_object (ec_base E) = false ->
  eval_access W (S (S f)) E (a :: rest) s = (invalid_access, bump s).
Proof.
  intros H1 H2 H3 H4. rewrite eval_access_S. unfold access_body. cbv zeta. rewrite root_dispatch, H1.
  unfold reserved in H2. apply orb_false_iff in H2. destruct H2 as [Ha Hb]. rewrite Ha, Hb.
  apply walk_dangling with (k := k); assumption.
Qed.

Theorem empty_reference_is_unknown f E s : eval_access W (S f) E [] s = (invalid_access, s).
Proof. reflexivity. Qed.

(* ---------------- 3. failed argument validation in the builtins ---------------- *)
Ltac gen_filter := match goal with |- context [filter ?p ?l] => generalize (filter p l) end.
Ltac fin := first [ intros [= <-]; lia | discriminate ].

(* the only validation that can fail silently: a CLOSED record with an extra key, on a value containing unknowns
   (the `false` subschema reports nothing; see the comment in Model/Eval.v validate) *)
Definition silent_accept (a : accept) : bool :=
  match a with AccIn (InRecord _ _ true) => true | _ => false end.

Lemma validate_fail_diag a v n :
  validate a v = (false, n) -> silent_accept a = false \/ contains_unknowns v = false -> 1 <= n.
Proof.
  destruct a as [| |[|props required closed]]; unfold validate.
  - destruct (top_is_string v); intros H _; revert H; fin.
  - intros H _; revert H. destruct v as [|l r]; [fin|].
    destruct (l_unk l).
    + destruct (top_sch (l :: r)); try gen_filter; try (intros [|x bad]; cbn [length]); fin.
    + destruct l; try gen_filter; try (intros [|x bad]; cbn [length]); fin.
  - discriminate.
  - destruct v as [|l r]; [intros H _; revert H; fin|].
    destruct l as [s u c sc|s u c e|s u c p]; cbn [l_unk]; destruct u.
    all: try (intros H _; revert H; destruct (top_sch _); fin).
    all: try (intros H _; revert H; match goal with |- (false, 1) = _ -> _ => fin end).
    cbv zeta.
    match goal with |- (Nat.eqb (length ?m + length ?e + length ?b) 0, _) = _ -> _ =>
      assert (He : closed = false -> length e = 0%nat) by (intros ->; reflexivity);
      generalize dependent (length e); generalize (length m); generalize (length b) end.
    intros nb nm ne He [= Hok <-] Hc. rewrite Hok. cbn [negb andb].
    destruct (Nat.eqb (nm + nb) 0) eqn:E0.
    + destruct Hc as [Hc|Hc].
      * destruct closed; [discriminate Hc|]. specialize (He eq_refl). lia.
      * rewrite Hc. lia.
    + lia.
Qed.

(* the silent case exists (it mirrors the implementation: a `false` subschema rejects without reporting) *)
Lemma validate_silent_witness :
  validate (AccIn (InRecord [] [] true)) [LObj false false ScAlways [("x", [unknown_layer false ScAlways])]] = (false, 0).
Proof. vm_compute. reflexivity. Qed.

Theorem eval_typed_failure f E x a id s :
  let t := eval_typed W (S f) E x a id s in
  snd (fst t) = false ->
  silent_accept a = false \/ contains_unknowns (fst (fst t)) = false ->
  nerr s + 1 <= nerr (snd t).
Proof.
  cbv zeta. rewrite eval_typed_S. unfold typed_body. rewrite bind_eq.
  pose proof (le_nerr _ _ (eval_expr_mono W f E x false [] id s)) as Hm.
  destruct (eval_expr W f E x false [] id s) as [v s1]. cbn [fst snd] in *.
  destruct (validate a v) as [ok n] eqn:Ev. rewrite bind_eq. cbn [ret add_err fst snd nerr].
  intros -> Hc. apply validate_fail_diag in Ev; [lia|exact Hc].
Qed.

Definition arg_id (id : eid) (i : nat) : eid := (fst id, snd id ++ [IIdx i]).

Theorem tob64_bad_argument f E e xbase id s :
  let t := eval_typed W (S f) E e AccString (arg_id id 0) s in
  snd (fst t) = false ->
  eval_repr W (S (S f)) E (EToB64 e) xbase id s = ([unknown_layer false (ScType "string")], snd t)
  /\ nerr s + 1 <= nerr (snd t).
Proof.
  intros t H. split; [|apply eval_typed_failure; [exact H|left; reflexivity]].
  rewrite eval_repr_S. unfold repr_body. rewrite bind_eq. fold (arg_id id 0). fold t.
  destruct t as [[v ok] s1]. cbn [fst snd] in *. subst ok. reflexivity.
Qed.

Theorem fromb64_bad_argument f E e xbase id s :
  let t := eval_typed W (S f) E e AccString (arg_id id 0) s in
  snd (fst t) = false ->
  eval_repr W (S (S f)) E (EFromB64 e) xbase id s = ([unknown_layer false (ScType "string")], snd t)
  /\ nerr s + 1 <= nerr (snd t).
Proof.
  intros t H. split; [|apply eval_typed_failure; [exact H|left; reflexivity]].
  rewrite eval_repr_S. unfold repr_body. rewrite bind_eq. fold (arg_id id 0). fold t.
  destruct t as [[v ok] s1]. cbn [fst snd] in *. subst ok. reflexivity.
Qed.

Theorem fromjson_bad_argument f E e xbase id s :
  let t := eval_typed W (S f) E e AccString (arg_id id 0) s in
  snd (fst t) = false ->
  eval_repr W (S (S f)) E (EFromJSON e) xbase id s = ([unknown_layer false ScAlways], snd t)
  /\ nerr s + 1 <= nerr (snd t).
Proof.
  intros t H. split; [|apply eval_typed_failure; [exact H|left; reflexivity]].
  rewrite eval_repr_S. unfold repr_body. rewrite bind_eq. fold (arg_id id 0). fold t.
  destruct t as [[v ok] s1]. cbn [fst snd] in *. subst ok. reflexivity.
Qed.

Theorem join_bad_argument f E d vs xbase id s :
  let t1 := eval_typed W (S f) E d AccString (arg_id id 0) s in
  let t2 := eval_typed W (S f) E vs AccArrString (arg_id id 1) (snd t1) in
  snd (fst t1) = false \/ snd (fst t2) = false ->
  eval_repr W (S (S f)) E (EJoin d vs) xbase id s = ([unknown_layer false (ScType "string")], snd t2)
  /\ nerr s + 1 <= nerr (snd t2).
Proof.
  intros t1 t2 H. split.
  - rewrite eval_repr_S. unfold repr_body. rewrite bind_eq. fold (arg_id id 0). fold t1.
    cbv beta. rewrite bind_eq. fold (arg_id id 1). fold t2.
    destruct t1 as [[dv dok] s1]. destruct t2 as [[vv vok] s2]. cbn [fst snd] in *.
    destruct H as [-> | ->]; [reflexivity|]. destruct dok; reflexivity.
  - pose proof (le_nerr _ _ (eval_typed_mono W (S f) E d AccString (arg_id id 0) s)) as M1.
    pose proof (le_nerr _ _ (eval_typed_mono W (S f) E vs AccArrString (arg_id id 1) (snd t1))) as M2.
    fold t1 in M1. fold t2 in M2. destruct H as [H|H].
    + pose proof (eval_typed_failure f E d AccString (arg_id id 0) s H (or_introl eq_refl)) as H'. fold t1 in H'. lia.
    + pose proof (eval_typed_failure f E vs AccArrString (arg_id id 1) (snd t1) H (or_introl eq_refl)) as H'. fold t2 in H'. lia.
Qed.

(* invalid base64 / JSON text in an otherwise valid, known string argument *)
Theorem fromb64_bad_text f E e xbase id s sec' unk' sc' txt rest :
  let t := eval_typed W f E e AccString (arg_id id 0) s in
  let v := LScalar sec' unk' sc' (SStr txt) :: rest in
  fst t = (v, true) -> contains_unknowns v = false -> b64_decode txt = None ->
  eval_repr W (S f) E (EFromB64 e) xbase id s
  = ([LScalar (contains_secrets v) true (ScType "string") SNull], bump (snd t)).
Proof.
  intros t v H1 H2 H4. rewrite eval_repr_S. unfold repr_body. rewrite bind_eq. fold (arg_id id 0). fold t.
  destruct t as [[v' ok] s1]. cbn [fst snd] in *. injection H1 as -> ->. cbn [negb]. cbv zeta.
  rewrite H2. unfold v at 1. rewrite H4. reflexivity.
Qed.

Theorem fromjson_bad_text f E e xbase id s sec' unk' sc' txt rest :
  let t := eval_typed W f E e AccString (arg_id id 0) s in
  let v := LScalar sec' unk' sc' (SStr txt) :: rest in
  fst t = (v, true) -> contains_unknowns v = false -> json_parse txt = JPErr ->
  eval_repr W (S f) E (EFromJSON e) xbase id s
  = ([LScalar (contains_secrets v) true ScAlways SNull], bump (snd t)).
Proof.
  intros t v H1 H2 H4. rewrite eval_repr_S. unfold repr_body. rewrite bind_eq. fold (arg_id id 0). fold t.
  destruct t as [[v' ok] s1]. cbn [fst snd] in *. injection H1 as -> ->. cbn [negb]. cbv zeta.
  rewrite H2. unfold v at 1. rewrite H4. reflexivity.
Qed.


(* ---------------- 4. secrets: invalid envelope, failing decrypter ---------------- *)
Definition esc_params : env_params := {| ep_magic := "escx"; ep_version := 1; ep_min_len := 12 |}.

Lemma call_fault s : w_fault W = Some (calls s) -> fst (call W s) = true.
Proof. intro H. unfold call. cbn [fst]. rewrite H. apply N.eqb_refl. Qed.

Theorem bad_ciphertext_is_unknown f E repr xbase id s :
  (forall ct, decode_ct esc_params repr <> DOk ct) ->
  eval_repr W (S f) E (ESecretCipher repr) xbase id s = ([LScalar true true (ScType "string") SNull], bump s).
Proof.
  intro H. rewrite eval_repr_S. unfold repr_body. fold esc_params.
  destruct (decode_ct esc_params repr) as [ct| | | | | |] eqn:Ed; try reflexivity.
  exfalso. exact (H ct eq_refl).
Qed.

Theorem decrypt_failure_is_unknown f E repr ct xbase id s :
  decode_ct esc_params repr = DOk ct -> w_check W && negb (w_show W) = false ->
  (w_fault W = Some (calls s) \/ w_decrypt W (ec_name E) ct = None) ->
  exists s',
    eval_repr W (S f) E (ESecretCipher repr) xbase id s = ([LScalar true true (ScType "string") SNull], s') /\
    nerr s' = nerr s + 1 /\ log s' = EvDecrypt (ec_name E) ct :: log s /\ oof s' = oof s.
Proof.
  intros Hd Hc Hf. rewrite eval_repr_S. unfold repr_body. fold esc_params. rewrite Hd, Hc.
  rewrite bind_eq. cbv beta. rewrite bind_eq.
  assert (Hn : (if fst (call W s) then None else w_decrypt W (ec_name E) ct) = None).
  { destruct Hf as [Hf|Hf]; [rewrite (call_fault s Hf); reflexivity|]. rewrite Hf. now destruct (fst (call W s)). }
  rewrite Hn. eexists. split; [reflexivity|]. repeat split.
Qed.

(* ---------------- 5. providers ---------------- *)
Theorem provider_load_failure f E pname inputs xbase id s :
  (w_fault W = Some (calls s) \/ alookup pname (w_provs W) = None) ->
  fst (eval_repr W (S f) E (EOpen pname inputs) xbase id s) = [unknown_layer false ScAlways] /\
  nerr s + 1 <= nerr (snd (eval_repr W (S f) E (EOpen pname inputs) xbase id s)).
Proof.
  intro Hf. rewrite eval_repr_S. unfold repr_body. rewrite bind_eq. cbv beta. rewrite bind_eq. cbv beta zeta.
  assert (Hn : (if fst (call W s) then None else alookup pname (w_provs W)) = None).
  { destruct Hf as [Hf|Hf]; [rewrite (call_fault s Hf); reflexivity|]. rewrite Hf. now destruct (fst (call W s)). }
  rewrite Hn. rewrite bind_eq. cbv beta. rewrite bind_eq.
  set (s1 := snd (err (snd (emit (EvLoadProvider pname) (snd (call W s)))))).
  pose proof (le_nerr _ _ (eval_typed_mono W f E inputs (AccIn InAlways) (fst id, snd id ++ [IIdx 0]) s1)) as Hm.
  destruct (eval_typed W f E inputs (AccIn InAlways) (fst id, snd id ++ [IIdx 0]) s1) as [[iv ok] s2].
  cbn [fst snd ret] in *. split; [reflexivity|]. change (nerr s1) with (nerr s + 1) in Hm. exact Hm.
Qed.

Section PROVIDER.
Variables (f : nat) (E : ectx) (pname : string) (inputs : expr) (xbase : chain) (id : eid) (s : st) (p : provider).
Hypothesis Hcall : fst (call W s) = false.
Hypothesis Hprov : alookup pname (w_provs W) = Some p.
Let s1 := snd (emit (EvLoadProvider pname) (snd (call W s))).
Let t := eval_typed W f E inputs (AccIn (pv_in p)) (arg_id id 0) s1.

Lemma open_prefix :
  eval_repr W (S f) E (EOpen pname inputs) xbase id s =
  (let '(iv, ok) := fst t in
   if negb ok || contains_unknowns iv || w_check W then ret [unknown_layer false (pv_out p)]
   else match export big_fuel iv with
        | Some (XObj s0 u m as xin) =>
            failed2 <- call W ;;
            emit (EvOpen id pname xin (ec_root E) (ec_name E)) ;;;
            match (if failed2 then None
                   else match pv_beh p with PEcho => Some xin | PConst v => Some v | PFail => None end) with
            | Some o => ret (unexport big_fuel false o)
            | None => err ;;; ret [unknown_layer false (pv_out p)]
            end
        | Some _ => err ;;; ret [unknown_layer false (pv_out p)]
        | None => out_of_fuel ;;; ret invalid_access
        end) (snd t).
Proof.
  rewrite eval_repr_S. unfold repr_body. rewrite bind_eq. cbv beta. rewrite bind_eq. cbv beta zeta.
  rewrite Hcall, Hprov. rewrite bind_eq. cbv beta. rewrite bind_eq. reflexivity.
Qed.

(* inputs rejected by the provider's schema: unknown output, the provider is NOT opened *)
Theorem provider_bad_inputs :
  snd (fst t) = false ->
  eval_repr W (S f) E (EOpen pname inputs) xbase id s = ([unknown_layer false (pv_out p)], snd t).
Proof.
  intro H. rewrite open_prefix. destruct t as [[iv ok] s2]. cbn [fst snd] in *. subst ok. reflexivity.
Qed.

Theorem provider_open_failure iv a b m :
  fst t = (iv, true) -> contains_unknowns iv = false -> w_check W = false ->
  export big_fuel iv = Some (XObj a b m) ->
  (w_fault W = Some (calls (snd t)) \/ pv_beh p = PFail) ->
  exists s',
    eval_repr W (S f) E (EOpen pname inputs) xbase id s = ([unknown_layer false (pv_out p)], s') /\
    nerr s' = nerr (snd t) + 1 /\
    log s' = EvOpen id pname (XObj a b m) (ec_root E) (ec_name E) :: log (snd t).
Proof.
  intros H1 H2 H3 H4 H5. rewrite open_prefix. rewrite H1, H2, H3, H4. cbn [negb orb].
  rewrite bind_eq. cbv beta. rewrite bind_eq.
  match goal with |- context [match ?o with Some _ => _ | None => _ end] =>
    assert (Hn : o = None) end.
  { destruct H5 as [H5|H5]; [rewrite (call_fault _ H5); reflexivity|]. rewrite H5.
    now destruct (fst (call W (snd t))). }
  rewrite Hn. eexists. split; [reflexivity|]. split; reflexivity.
Qed.

(* inputs that are not an object although the schema let them through: diagnostic, not a crash *)
Theorem provider_nonobject_inputs iv x :
  fst t = (iv, true) -> contains_unknowns iv = false -> w_check W = false ->
  export big_fuel iv = Some x -> (forall a b m, x <> XObj a b m) ->
  eval_repr W (S f) E (EOpen pname inputs) xbase id s = ([unknown_layer false (pv_out p)], bump (snd t)).
Proof.
  intros H1 H2 H3 H4 H5. rewrite open_prefix. rewrite H1, H2, H3, H4. cbn [negb orb].
  destruct x as [? ? ?|? ? ?|a b m]; try reflexivity. exfalso. exact (H5 a b m eq_refl).
Qed.

End PROVIDER.

(* ---------------- 6. imports ---------------- *)
Theorem import_failure_skipped ev n merge rest base my s :
  alookup n (imps s) = None ->
  load_result W (fst (call W s)) n = LoadFail \/ load_result W (fst (call W s)) n = LoadNoParse ->
  env_go W ev ((n, merge) :: rest) base my s
  = env_go W ev rest base my (bump (snd (emit (EvLoad n) (snd (call W s))))).
Proof.
  intros H1 H2. rewrite env_go_cons, bind_eq. unfold imps_get at 1 2. cbn [fst snd]. rewrite H1.
  rewrite bind_eq. cbv beta. rewrite bind_eq. destruct H2 as [-> | ->]; rewrite bind_eq; reflexivity.
Qed.

Lemma load_result_fault n s : w_fault W = Some (calls s) -> load_result W (fst (call W s)) n = LoadFail.
Proof. intro H. rewrite (call_fault s H). reflexivity. Qed.

Lemma load_result_missing n b : alookup n (w_envs W) = None -> load_result W b n = LoadFail.
Proof. intro H. unfold load_result. rewrite H. now destruct b. Qed.

Theorem import_cycle_skipped ev n merge rest base my s i :
  alookup n (imps s) = Some i -> is_evaluating i = true ->
  env_go W ev ((n, merge) :: rest) base my s = env_go W ev rest base my (bump s).
Proof.
  intros H1 H2. rewrite env_go_cons, bind_eq. unfold imps_get at 1 2. cbn [fst snd]. rewrite H1, H2.
  rewrite bind_eq. reflexivity.
Qed.

(* a self-import is a cycle: eval_env marks its own name as evaluating first *)
Theorem self_import_is_cycle name s :
  alookup name (imps (snd (imps_set name {| is_evaluating := true; is_value := None |} s)))
  = Some {| is_evaluating := true; is_value := None |}.
Proof. cbn. rewrite String.eqb_refl. reflexivity. Qed.

End FAILS.
