(* Proofs/TempFilesMaps.v — finite-map lemmas and the effect of the single file-system operations of
   Model/TempFiles.v. *)
From Verif Require Import Base.Bytes Model.TempFiles.
From Coq Require Import Lia.

Lemma eqb_refl' (p : string) : String.eqb p p = true.
Proof. apply String.eqb_refl. Qed.

Lemma eqb_neq' (p q : string) : p <> q -> String.eqb p q = false.
Proof. intro H. apply String.eqb_neq. exact H. Qed.

Lemma lookup_fremove_eq p m : lookup p (fremove p m) = None.
Proof.
  induction m as [|[q c] r IH]; cbn [fremove lookup]; [reflexivity|].
  destruct (String.eqb p q) eqn:E; [exact IH|]. cbn [lookup]. rewrite E. exact IH.
Qed.

Lemma lookup_fremove_neq p q m : p <> q -> lookup q (fremove p m) = lookup q m.
Proof.
  intro Hne. induction m as [|[k c] r IH]; cbn [fremove lookup]; [reflexivity|].
  destruct (String.eqb p k) eqn:E.
  - apply String.eqb_eq in E. subst k. rewrite IH.
    rewrite (eqb_neq' q p) by congruence. reflexivity.
  - cbn [lookup]. rewrite IH. reflexivity.
Qed.

Lemma lookup_fremove_sub p q c m : lookup q (fremove p m) = Some c -> lookup q m = Some c.
Proof.
  destruct (string_dec p q) as [->|Hne].
  - rewrite lookup_fremove_eq. discriminate.
  - rewrite lookup_fremove_neq by exact Hne. auto.
Qed.

Lemma lookup_finsert_eq p c m : lookup p (finsert p c m) = Some c.
Proof. unfold finsert. cbn [lookup]. rewrite eqb_refl'. reflexivity. Qed.

Lemma lookup_finsert_neq p q c m : p <> q -> lookup q (finsert p c m) = lookup q m.
Proof.
  intro Hne. unfold finsert. cbn [lookup]. rewrite (eqb_neq' q p) by congruence.
  apply lookup_fremove_neq. exact Hne.
Qed.

Lemma lookup_fupdate_eq p f m : lookup p (fupdate p f m) = option_map f (lookup p m).
Proof.
  unfold fupdate. destruct (lookup p m) eqn:E; cbn [option_map].
  - apply lookup_finsert_eq.
  - exact E.
Qed.

Lemma lookup_fupdate_neq p q f m : p <> q -> lookup q (fupdate p f m) = lookup q m.
Proof.
  intro Hne. unfold fupdate. destruct (lookup p m); [|reflexivity].
  apply lookup_finsert_neq. exact Hne.
Qed.

Lemma lookup_unlink_all_sub env : forall m q c, lookup q (unlink_all env m) = Some c -> lookup q m = Some c.
Proof.
  induction env as [|e r IH]; intros m q c H; cbn [unlink_all] in H; [exact H|].
  apply IH in H. eapply lookup_fremove_sub. exact H.
Qed.

(* ---- counting ---- *)
Lemma count_app k a b : count k (a ++ b) = (count k a + count k b)%nat.
Proof.
  induction a as [|e r IH]; cbn [count app]; [reflexivity|].
  destruct (is_kind k e); rewrite IH; reflexivity.
Qed.

Lemma kind_eqb_refl k : kind_eqb k k = true.
Proof. destruct k; reflexivity. Qed.

Lemma kind_eqb_eq a b : kind_eqb a b = true -> a = b.
Proof. destruct a, b; cbn; congruence. Qed.

Lemma plan_of_nil k i : plan_of [] k i = false.
Proof. reflexivity. Qed.
