(* Proofs/RedactorFast.v — the linear-time twin of the filter used by the correspondence on long lines is the filter;
   a run of Write calls followed by Close is [write_all] followed by [close]. *)
From Verif Require Import Base.Bytes Model.Redactor Proofs.RedactorBase Proofs.RedactorStream.
From Coq Require Import Arith Lia.
Local Open Scope nat_scope.

Lemma lines_rev_acc : forall s cr, lines_rev cr s = lines_acc (rev cr) s.
Proof.
  induction s as [|c s IH]; intros cr; cbn [lines_rev lines_acc].
  - rewrite rev_append_rev, app_nil_r. reflexivity.
  - destruct (is_nl c).
    + rewrite (IH []). cbn [rev]. rewrite rev_append_rev. reflexivity.
    + rewrite IH. reflexivity.
Qed.

Theorem run_fast_run : forall P secrets chunks, run_fast P secrets chunks = run P secrets chunks.
Proof.
  intros P secrets chunks. unfold run_fast, run. rewrite run_chunks_linewise. unfold split_lines.
  rewrite lines_rev_acc. reflexivity.
Qed.

Lemma run_chunks_write_all : forall ph pats chunks line,
  run_chunks ph pats line chunks =
  let (o, l) := write_all ph pats line chunks in
  let (o', l') := close ph pats l in (o ++ o', l').
Proof.
  intros ph pats. induction chunks as [|b r IH]; intros line; cbn [run_chunks write_all].
  - destruct (close ph pats line) as [o' l']. reflexivity.
  - destruct (write ph pats line b) as [o1 l1]. rewrite IH.
    destruct (write_all ph pats l1 r) as [o2 l2]. destruct (close ph pats l2) as [o' l'].
    rewrite app_assoc. reflexivity.
Qed.
