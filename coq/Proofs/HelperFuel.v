(* Proofs/HelperFuel.v — the inner helpers of the evaluator never run out of fuel silently.
   For every fuelled helper the model calls with a COMPUTED fuel (Model/Eval.v, header "FUEL"):
     value_access (va_need c accs)      to_string (ts_need c)      unexport (S (x_depth v))      x_to_json (S (x_depth v))
     sch_property / sch_item / sch_is_type (sch_depth s)           merged_schema (sch_depth top)
   the result does not depend on the fuel from that value on ([*_stable]: any two fuels above the need give the same
   result), i.e. the [O] branch of the helper is not reached; for [value_access] the result is moreover shown equal to a
   structurally recursive, fuel-free restatement of evaluateValueAccess ([value_access_exact]).
   Only Model/ is used, so that every proof file can import this one. *)
From Verif Require Import Base.Bytes Model.Chain Model.GoText Model.Envelope Model.Eval.
From Coq Require Import Lia.
Local Open Scope nat_scope.

(* ------------------------------------------------------------------------------------------------ *)
(** * 1. value_access *)

(* evaluateValueAccess without fuel: recursion on the path, then on the chain (the skip to the base) *)
Fixpoint value_access_s (accs : path) : chain -> chain * N :=
  match accs with
  | [] => fun c => (c, 0%N)
  | a :: rest =>
      fix find (c : chain) : chain * N :=
        match c with
        | [] => (invalid_access, 1%N)
        | l :: base =>
            if l_unk l then unknown_access (top_sch c) accs
            else match l with
                 | LArr _ _ _ elems =>
                     match array_index a (Z.of_nat (length elems)) with
                     | Some i => value_access_s rest (nth i elems [])
                     | None => (invalid_access, 1%N)
                     end
                 | LObj _ _ _ props =>
                     match object_key a with
                     | None => (invalid_access, 1%N)
                     | Some k =>
                         match alookup k props with
                         | Some child => value_access_s rest (child ++ property k base)
                         | None => if is_object base then find base else (invalid_access, 1%N)
                         end
                     end
                 | LScalar _ _ _ _ => (invalid_access, 1%N)
                 end
        end
  end.

Lemma va_steps_nil c : va_steps [] c = 1.
Proof. reflexivity. Qed.
Lemma va_steps_cons_nil a rest : va_steps (a :: rest) [] = 1.
Proof. reflexivity. Qed.
Lemma va_steps_cons a rest l base :
  va_steps (a :: rest) (l :: base) =
    if l_unk l then 1
    else match l with
         | LArr _ _ _ elems =>
             match array_index a (Z.of_nat (length elems)) with
             | Some i => S (va_steps rest (nth i elems []))
             | None => 1
             end
         | LObj _ _ _ props =>
             match object_key a with
             | None => 1
             | Some k =>
                 match alookup k props with
                 | Some child => S (va_steps rest (child ++ property k base))
                 | None => if is_object base then S (va_steps (a :: rest) base) else 1
                 end
             end
         | LScalar _ _ _ _ => 1
         end.
Proof. reflexivity. Qed.

Lemma value_access_s_nil c : value_access_s [] c = (c, 0%N).
Proof. reflexivity. Qed.
Lemma value_access_s_cons_nil a rest : value_access_s (a :: rest) [] = (invalid_access, 1%N).
Proof. reflexivity. Qed.
Lemma value_access_s_cons a rest l base :
  value_access_s (a :: rest) (l :: base) =
    if l_unk l then unknown_access (top_sch (l :: base)) (a :: rest)
    else match l with
         | LArr _ _ _ elems =>
             match array_index a (Z.of_nat (length elems)) with
             | Some i => value_access_s rest (nth i elems [])
             | None => (invalid_access, 1%N)
             end
         | LObj _ _ _ props =>
             match object_key a with
             | None => (invalid_access, 1%N)
             | Some k =>
                 match alookup k props with
                 | Some child => value_access_s rest (child ++ property k base)
                 | None => if is_object base then value_access_s (a :: rest) base else (invalid_access, 1%N)
                 end
             end
         | LScalar _ _ _ _ => (invalid_access, 1%N)
         end.
Proof. reflexivity. Qed.

Lemma value_access_S f c accs :
  value_access (S f) c accs =
    match accs with
    | [] => (c, 0%N)
    | a :: rest =>
        match c with
        | [] => (invalid_access, 1%N)
        | l :: base =>
            if l_unk l then unknown_access (top_sch c) accs
            else match l with
                 | LArr _ _ _ elems =>
                     match array_index a (Z.of_nat (length elems)) with
                     | Some i => value_access f (nth i elems []) rest
                     | None => (invalid_access, 1%N)
                     end
                 | LObj _ _ _ props =>
                     match object_key a with
                     | None => (invalid_access, 1%N)
                     | Some k =>
                         match alookup k props with
                         | Some child => value_access f (child ++ property k base) rest
                         | None => if is_object base then value_access f base accs else (invalid_access, 1%N)
                         end
                     end
                 | LScalar _ _ _ _ => (invalid_access, 1%N)
                 end
        end
    end.
Proof. reflexivity. Qed.

Lemma va_steps_pos accs c : 1 <= va_steps accs c.
Proof.
  destruct accs as [|a rest]; [rewrite va_steps_nil; lia|].
  destruct c as [|l base]; [rewrite va_steps_cons_nil; lia|]. rewrite va_steps_cons.
  destruct (l_unk l); [lia|]. destruct l as [? ? ? ?|? ? ? elems|? ? ? props]; [lia| |].
  - destruct (array_index a _); lia.
  - destruct (object_key a); [|lia]. destruct (alookup _ props); [lia|]. destruct (is_object base); lia.
Qed.

(* with any fuel from [va_steps] on, [value_access] is evaluateValueAccess itself: its [O] branch is not reached *)
Theorem value_access_exact_ge : forall accs c f, va_steps accs c <= f -> value_access f c accs = value_access_s accs c.
Proof.
  induction accs as [|a rest IHa]; intros c f Hf.
  - destruct f as [|f]; [rewrite va_steps_nil in Hf; lia|]. reflexivity.
  - revert f Hf. induction c as [|l base IHc]; intros f Hf.
    + destruct f as [|f]; [rewrite va_steps_cons_nil in Hf; lia|]. reflexivity.
    + destruct f as [|f]; [pose proof (va_steps_pos (a :: rest) (l :: base)); lia|].
      rewrite va_steps_cons in Hf. rewrite value_access_S, value_access_s_cons.
      destruct (l_unk l); [reflexivity|]. destruct l as [? ? ? ?|? ? ? elems|? ? ? props]; [reflexivity| |].
      * destruct (array_index a _) as [i|]; [|reflexivity]. apply IHa. lia.
      * destruct (object_key a) as [k|]; [|reflexivity]. destruct (alookup k props) as [child|].
        -- apply IHa. lia.
        -- destruct (is_object base); [|reflexivity]. apply IHc. lia.
Qed.

Theorem value_access_exact c accs : value_access (va_need c accs) c accs = value_access_s accs c.
Proof. apply value_access_exact_ge. unfold va_need. lia. Qed.

Theorem value_access_fuel_stable c accs f :
  va_need c accs <= f -> value_access f c accs = value_access (va_need c accs) c accs.
Proof. intro H. rewrite value_access_exact. apply value_access_exact_ge, H. Qed.

(* two accesses (of two runs, say) can always be read at ONE common fuel *)
Lemma value_access_need_max c accs n :
  value_access (va_need c accs) c accs = value_access (Nat.max (va_need c accs) n) c accs.
Proof. symmetry. apply value_access_fuel_stable. lia. Qed.
Lemma value_access_need_max' c accs n :
  value_access (va_need c accs) c accs = value_access (Nat.max n (va_need c accs)) c accs.
Proof. symmetry. apply value_access_fuel_stable. lia. Qed.

(* ------------------------------------------------------------------------------------------------ *)
(** * 2. to_string *)

Definition ts_list (cs : list chain) : nat :=
  (fix go (cs : list (list layer)) : nat :=
     match cs with
     | [] => O
     | c :: r => Nat.max (match c with [] => 1 | l' :: _ => ts_need_l l' end) (go r)
     end) cs.
Definition ts_props (ps : list (string * chain)) : nat :=
  (fix go (ps : list (string * list layer)) : nat :=
     match ps with
     | [] => O
     | kc :: r => Nat.max (match snd kc with [] => 1 | l' :: _ => ts_need_l l' end) (go r)
     end) ps.

Lemma ts_need_arr s u sc elems : ts_need (LArr s u sc elems :: nil) = if u then 1 else S (ts_list elems).
Proof. reflexivity. Qed.
Lemma ts_need_l_arr s u sc elems : ts_need_l (LArr s u sc elems) = if u then 1 else S (ts_list elems).
Proof. reflexivity. Qed.
Lemma ts_need_l_obj s u sc props : ts_need_l (LObj s u sc props) = if u then 1 else S (ts_props props).
Proof. reflexivity. Qed.
Lemma ts_list_cons c r : ts_list (c :: r) = Nat.max (ts_need c) (ts_list r).
Proof. reflexivity. Qed.
Lemma ts_props_cons kc r : ts_props (kc :: r) = Nat.max (ts_need (snd kc)) (ts_props r).
Proof. reflexivity. Qed.

Lemma ts_list_In c cs : In c cs -> ts_need c <= ts_list cs.
Proof.
  induction cs as [|c' r IH]; [intros []|]. rewrite ts_list_cons. intros [->|H]; [lia|]. specialize (IH H). lia.
Qed.
Lemma ts_props_In kc ps : In kc ps -> ts_need (snd kc) <= ts_props ps.
Proof.
  induction ps as [|kc' r IH]; [intros []|]. rewrite ts_props_cons. intros [->|H]; [lia|]. specialize (IH H). lia.
Qed.

Lemma ts_need_pos c : 1 <= ts_need c.
Proof.
  destruct c as [|l r]; [cbn; lia|]. cbn [ts_need]. destruct l as [? ? ? ?|? u ? ?|? u ? ?]; [cbn; lia| |].
  - rewrite ts_need_l_arr. destruct u; lia.
  - rewrite ts_need_l_obj. destruct u; lia.
Qed.

Theorem to_string_stable2 : forall f f' c, ts_need c <= f -> ts_need c <= f' -> to_string f c = to_string f' c.
Proof.
  induction f as [|f IH]; intros f' c H H'; [pose proof (ts_need_pos c); lia|].
  destruct f' as [|f']; [pose proof (ts_need_pos c); lia|]. cbn [to_string].
  destruct c as [|l r]; [reflexivity|]. cbn [ts_need] in H, H'.
  destruct l as [s u sc x|s u sc e|s u sc p]; cbn [l_unk]; [reflexivity| |].
  - rewrite ts_need_l_arr in H, H'. destruct u; [reflexivity|].
    assert (Hm : map (to_string f) e = map (to_string f') e).
    { apply map_ext_in. intros c Hc. apply ts_list_In in Hc. apply IH; lia. }
    rewrite Hm. reflexivity.
  - rewrite ts_need_l_obj in H, H'. destruct u; [reflexivity|].
    assert (Hm : map (fun kv => (fst kv, to_string f (snd kv))) p = map (fun kv => (fst kv, to_string f' (snd kv))) p).
    { apply map_ext_in. intros kc Hc. apply ts_props_In in Hc. f_equal. apply IH; lia. }
    rewrite Hm. reflexivity.
Qed.

Theorem to_string_fuel_stable c f : ts_need c <= f -> to_string f c = to_string (ts_need c) c.
Proof. intro H. apply to_string_stable2; [exact H|lia]. Qed.

Lemma to_string_need_max c n : to_string (ts_need c) c = to_string (Nat.max (ts_need c) n) c.
Proof. symmetry. apply to_string_fuel_stable. lia. Qed.
Lemma to_string_need_max' c n : to_string (ts_need c) c = to_string (Nat.max n (ts_need c)) c.
Proof. symmetry. apply to_string_fuel_stable. lia. Qed.

(* ------------------------------------------------------------------------------------------------ *)
(** * 3. unexport, x_to_json: fuel above the depth of the exported value *)

Lemma fold_max_le {A} (g : A -> nat) (l : list A) (a : nat) : a <= fold_left (fun acc x => Nat.max acc (g x)) l a.
Proof. revert a. induction l as [|x r IH]; intros a; [cbn; lia|]. cbn [fold_left]. specialize (IH (Nat.max a (g x))). lia. Qed.

Lemma fold_max_In {A} (g : A -> nat) (l : list A) (a : nat) x :
  In x l -> g x <= fold_left (fun acc x => Nat.max acc (g x)) l a.
Proof.
  revert a. induction l as [|y r IH]; intros a; [intros []|]. cbn [fold_left]. intros [->|H].
  - pose proof (fold_max_le g r (Nat.max a (g x))). lia.
  - apply IH, H.
Qed.

Lemma x_depth_arr_In s u l x : In x l -> x_depth x < x_depth (XArr s u l).
Proof. intro H. cbn [x_depth]. pose proof (fold_max_In x_depth l 0 x H). lia. Qed.
Lemma x_depth_obj_In s u m kv : In kv m -> x_depth (snd kv) < x_depth (XObj s u m).
Proof. intro H. cbn [x_depth]. pose proof (fold_max_In (fun kv : string * xval => x_depth (snd kv)) m 0 kv H). lia. Qed.
Lemma x_depth_pos v : 1 <= x_depth v.
Proof. destruct v; cbn [x_depth]; lia. Qed.

Lemma fold_ainsert_ext {A B} (g g' : B -> A) (m : list (string * B)) (acc : list (string * A)) :
  (forall kv, In kv m -> g (snd kv) = g' (snd kv)) ->
  fold_left (fun acc kv => ainsert (fst kv) (g (snd kv)) acc) m acc
  = fold_left (fun acc kv => ainsert (fst kv) (g' (snd kv)) acc) m acc.
Proof.
  revert acc. induction m as [|kv r IH]; intros acc H; [reflexivity|]. cbn [fold_left].
  rewrite (H kv (or_introl eq_refl)). apply IH. intros kv' Hin. apply H. now right.
Qed.

Theorem unexport_stable2 : forall f f' sec v, x_depth v <= f -> x_depth v <= f' -> unexport f sec v = unexport f' sec v.
Proof.
  induction f as [|f IH]; intros f' sec v H H'; [pose proof (x_depth_pos v); lia|].
  destruct f' as [|f']; [pose proof (x_depth_pos v); lia|]. cbn [unexport].
  destruct v as [s u sc|s u l|s u m]; [reflexivity| |].
  - assert (Hm : map (unexport f (s || sec)) l = map (unexport f' (s || sec)) l).
    { apply map_ext_in. intros x Hx. pose proof (x_depth_arr_In s u l x Hx). apply IH; lia. }
    rewrite Hm. reflexivity.
  - rewrite (fold_ainsert_ext (unexport f (s || sec)) (unexport f' (s || sec)) m []); [reflexivity|].
    intros kv Hkv. pose proof (x_depth_obj_In s u m kv Hkv). apply IH; lia.
Qed.

Theorem unexport_fuel_stable sec v f : S (x_depth v) <= f -> unexport f sec v = unexport (S (x_depth v)) sec v.
Proof. intro H. apply unexport_stable2; lia. Qed.

Lemma unexport_need_max sec v n : unexport (S (x_depth v)) sec v = unexport (Nat.max (S (x_depth v)) n) sec v.
Proof. apply unexport_stable2; lia. Qed.
Lemma unexport_need_max' sec v n : unexport (S (x_depth v)) sec v = unexport (Nat.max n (S (x_depth v))) sec v.
Proof. apply unexport_stable2; lia. Qed.

Theorem x_to_json_stable2 : forall f f' v, x_depth v <= f -> x_depth v <= f' -> x_to_json f v = x_to_json f' v.
Proof.
  induction f as [|f IH]; intros f' v H H'; [pose proof (x_depth_pos v); lia|].
  destruct f' as [|f']; [pose proof (x_depth_pos v); lia|]. cbn [x_to_json].
  destruct v as [s u sc|s u l|s u m]; [reflexivity| |]; destruct u; try reflexivity; f_equal.
  - apply map_ext_in. intros x Hx. pose proof (x_depth_arr_In s false l x Hx). apply IH; lia.
  - apply map_ext_in. intros kv Hkv. pose proof (x_depth_obj_In s false m kv Hkv). f_equal. apply IH; lia.
Qed.

Theorem x_to_json_fuel_stable v f : S (x_depth v) <= f -> x_to_json f v = x_to_json (S (x_depth v)) v.
Proof. intro H. apply x_to_json_stable2; lia. Qed.

Lemma existsb_ext_in {A} (g g' : A -> bool) (l : list A) : (forall x, In x l -> g x = g' x) -> existsb g l = existsb g' l.
Proof.
  induction l as [|x r IH]; intro H; [reflexivity|]. cbn [existsb]. rewrite (H x (or_introl eq_refl)). f_equal.
  apply IH. intros y Hy. apply H. now right.
Qed.

Theorem x_any_stable2 p : forall f f' v, x_depth v <= f -> x_depth v <= f' -> x_any p f v = x_any p f' v.
Proof.
  induction f as [|f IH]; intros f' v H H'; [pose proof (x_depth_pos v); lia|].
  destruct f' as [|f']; [pose proof (x_depth_pos v); lia|]. cbn [x_any].
  destruct v as [s u sc|s u l|s u m]; [reflexivity| |]; f_equal.
  - apply existsb_ext_in. intros x Hx. pose proof (x_depth_arr_In s u l x Hx). apply IH; lia.
  - apply existsb_ext_in. intros kv Hkv. pose proof (x_depth_obj_In s u m kv Hkv). apply IH; lia.
Qed.

(* x_has_unknown / x_has_secret (fuel S (x_depth v)) see every node *)
Theorem x_has_unknown_fuel v f : S (x_depth v) <= f -> x_any (fun _ u => u) f v = x_has_unknown v.
Proof. intro H. unfold x_has_unknown. apply x_any_stable2; lia. Qed.
Theorem x_has_secret_fuel v f : S (x_depth v) <= f -> x_any (fun s _ => s) f v = x_has_secret v.
Proof. intro H. unfold x_has_secret. apply x_any_stable2; lia. Qed.

(* ------------------------------------------------------------------------------------------------ *)
(** * 4. schema helpers: fuel = nesting depth of the schema they descend *)

Definition schs_depth (l : list sch) : nat :=
  (fix go (l : list sch) : nat := match l with [] => O | x :: r => Nat.max (sch_depth x) (go r) end) l.
Definition props_depth (l : list (string * sch)) : nat :=
  (fix go (l : list (string * sch)) : nat := match l with [] => O | x :: r => Nat.max (sch_depth (snd x)) (go r) end) l.

Lemma sch_depth_oneof alts : sch_depth (ScOneOf alts) = S (schs_depth alts).
Proof. reflexivity. Qed.
Lemma sch_depth_object props addl :
  sch_depth (ScObject props addl) = S (Nat.max (props_depth props) (match addl with Some a => sch_depth a | None => O end)).
Proof. reflexivity. Qed.
Lemma schs_depth_cons x r : schs_depth (x :: r) = Nat.max (sch_depth x) (schs_depth r).
Proof. reflexivity. Qed.
Lemma props_depth_cons x r : props_depth (x :: r) = Nat.max (sch_depth (snd x)) (props_depth r).
Proof. reflexivity. Qed.
Lemma schs_depth_In x l : In x l -> sch_depth x <= schs_depth l.
Proof. induction l as [|y r IH]; [intros []|]. rewrite schs_depth_cons. intros [->|H]; [lia|]. specialize (IH H). lia. Qed.
Lemma props_depth_In kv l : In kv l -> sch_depth (snd kv) <= props_depth l.
Proof. induction l as [|y r IH]; [intros []|]. rewrite props_depth_cons. intros [->|H]; [lia|]. specialize (IH H). lia. Qed.
Lemma sch_depth_pos s : 1 <= sch_depth s.
Proof. destruct s; cbn [sch_depth]; lia. Qed.

Theorem sch_property_stable2 k : forall f f' s, sch_depth s <= f -> sch_depth s <= f' -> sch_property f k s = sch_property f' k s.
Proof.
  induction f as [|f IH]; intros f' s H H'; [pose proof (sch_depth_pos s); lia|].
  destruct f' as [|f']; [pose proof (sch_depth_pos s); lia|]. cbn [sch_property].
  destruct s as [| |ty|prefix items|props addl|alts]; try reflexivity.
  rewrite sch_depth_oneof in H, H'. do 2 f_equal.
  apply map_ext_in. intros x Hx. apply schs_depth_In in Hx. apply IH; lia.
Qed.

Theorem sch_item_stable2 i : forall f f' s, sch_depth s <= f -> sch_depth s <= f' -> sch_item f i s = sch_item f' i s.
Proof.
  induction f as [|f IH]; intros f' s H H'; [pose proof (sch_depth_pos s); lia|].
  destruct f' as [|f']; [pose proof (sch_depth_pos s); lia|]. cbn [sch_item].
  destruct s as [| |ty|prefix items|props addl|alts]; try reflexivity.
  rewrite sch_depth_oneof in H, H'. do 2 f_equal.
  apply map_ext_in. intros x Hx. apply schs_depth_In in Hx. apply IH; lia.
Qed.

Theorem sch_is_type_stable2 ty : forall f f' s, sch_depth s <= f -> sch_depth s <= f' -> sch_is_type f ty s = sch_is_type f' ty s.
Proof.
  induction f as [|f IH]; intros f' s H H'; [pose proof (sch_depth_pos s); lia|].
  destruct f' as [|f']; [pose proof (sch_depth_pos s); lia|]. cbn [sch_is_type].
  destruct s as [| |ty'|prefix items|props addl|alts]; try reflexivity.
  rewrite sch_depth_oneof in H, H'.
  apply existsb_ext_in. intros x Hx. apply schs_depth_In in Hx. apply IH; lia.
Qed.

Lemma fold_left_ext_in2 {A B} (g g' : A -> B -> A) (l : list B) (a : A) :
  (forall acc x, In x l -> g acc x = g' acc x) -> fold_left g l a = fold_left g' l a.
Proof.
  revert a. induction l as [|x r IH]; intros a H; [reflexivity|]. cbn [fold_left].
  rewrite (H a x (or_introl eq_refl)). apply IH. intros acc y Hy. apply H. now right.
Qed.

(* mergedSchema descends through the properties of the TOP schema *)
Theorem merged_schema_stable2 : forall f f' b t, sch_depth t <= f -> sch_depth t <= f' -> merged_schema f b t = merged_schema f' b t.
Proof.
  induction f as [|f IH]; intros f' b t H H'; [pose proof (sch_depth_pos t); lia|].
  destruct f' as [|f']; [pose proof (sch_depth_pos t); lia|]. cbn [merged_schema].
  destruct b as [b|]; [|reflexivity]. destruct b as [| |?|? ?|bprops baddl|?]; try reflexivity.
  destruct t as [| |?|? ?|tprops taddl|?]; try reflexivity.
  rewrite sch_depth_object in H, H'. f_equal.
  apply fold_left_ext_in2. intros acc [k t] Hin. apply props_depth_In in Hin. cbn [snd] in Hin.
  destruct (alookup k acc) as [b|]; [|reflexivity]. f_equal. apply IH; lia.
Qed.

Theorem sch_property_fuel_stable k s f : sch_depth s <= f -> sch_property f k s = sch_property (sch_depth s) k s.
Proof. intro H. apply sch_property_stable2; lia. Qed.
Theorem sch_item_fuel_stable i s f : sch_depth s <= f -> sch_item f i s = sch_item (sch_depth s) i s.
Proof. intro H. apply sch_item_stable2; lia. Qed.
Theorem sch_is_type_fuel_stable ty s f : sch_depth s <= f -> sch_is_type f ty s = sch_is_type (sch_depth s) ty s.
Proof. intro H. apply sch_is_type_stable2; lia. Qed.
Theorem merged_schema_fuel_stable b t f : sch_depth t <= f -> merged_schema f b t = merged_schema (sch_depth t) b t.
Proof. intro H. apply merged_schema_stable2; lia. Qed.

