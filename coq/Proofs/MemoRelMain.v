(* Proofs/MemoRelMain.v — C10: the headline forms (import closure of one world; two worlds; acyclic corollary), the
   boundary of each hypothesis, and computed examples. *)
From Verif Require Import Base.Bytes Model.Chain Model.GoText Model.Envelope Model.Eval.
From Verif Require Import Proofs.ChainAlgebraLink Proofs.MemoRelKit Proofs.MemoRelEval Proofs.MemoRelEnv Proofs.MemoRelSound.
From Verif Require Proofs.ChainAlgebraEnv.
From Coq Require Import Lia.
Local Open Scope nat_scope.

(* ---------------- one world, the import closure of X ---------------- *)
Theorem state_independent (W : world) :
  w_fault W = None ->
  forall (fuel : nat) (root1 root2 X : string) (d : envdef) (s1 s2 : st),
    (forall d', alookup X (w_envs W) = Some (LoadOk d') -> d' = d) ->
    no_context_reference d ->
    (forall n dn, closure W X d n -> alookup n (w_envs W) = Some (LoadOk dn) -> no_context_reference dn) ->
    agree (closure W X d) (closure W X d) s1 s2 ->
    fst (eval_env W fuel root1 X d s1) = fst (eval_env W fuel root2 X d s2)
    /\ outcome_rel (closure W X d) s1 s2 (snd (eval_env W fuel root1 X d s1)) (snd (eval_env W fuel root2 X d s2)).
Proof.
  intros HF fuel root1 root2 X d s1 s2 HX Nd Nc Ag.
  apply (state_independent_gen W W (closure W X d)); auto.
  - intros n dn Cn El im Him. apply (closure_closed W X d) with (n := n) (dn := dn); auto.
    intros d' Hd'. now rewrite (HX d' Hd').
  - apply closure_self.
  - intros im Him. now apply closure_imports.
Qed.

(* ---------------- lexical scope: two worlds that agree on the closure ---------------- *)
Theorem lexical_scope (W1 W2 : world) :
  w_fault W1 = None -> w_fault W2 = None ->
  w_provs W1 = w_provs W2 -> w_check W1 = w_check W2 -> w_show W1 = w_show W2 ->
  forall (fuel : nat) (root1 root2 X : string) (d : envdef),
    (forall n, closure W1 X d n -> forall ct, w_decrypt W1 n ct = w_decrypt W2 n ct) ->
    (forall n, closure W1 X d n -> alookup n (w_envs W1) = alookup n (w_envs W2)) ->
    (forall d', alookup X (w_envs W1) = Some (LoadOk d') -> d' = d) ->
    no_context_reference d ->
    (forall n dn, closure W1 X d n -> alookup n (w_envs W1) = Some (LoadOk dn) -> no_context_reference dn) ->
    fst (eval_env W1 fuel root1 X d st0) = fst (eval_env W2 fuel root2 X d st0).
Proof.
  intros HF1 HF2 HP HC HS fuel root1 root2 X d HD HE HX Nd Nc.
  apply (state_independent_gen W1 W2 (closure W1 X d)); auto.
  - intros n dn Cn El im Him. apply (closure_closed W1 X d) with (n := n) (dn := dn); auto.
    intros d' Hd'. now rewrite (HX d' Hd').
  - apply closure_self.
  - intros im Him. now apply closure_imports.
  - split; reflexivity.
Qed.

(* ---------------- acyclic imports: the table entry IS the environment opened on its own ---------------- *)
Definition imported_same_everywhere_statement (acyclic_required : bool) : Prop :=
  forall (W : world) (rank : string -> nat),
    w_fault W = None ->
    (if acyclic_required
     then forall n d im, ChainAlgebraEnv.env_of W n = Some d -> In im (ed_imports d) -> rank (fst im) < rank n
     else True) ->
    (forall n d, ChainAlgebraEnv.env_of W n = Some d -> no_context_reference d) ->
    forall (fuel fuel' : nat) (root root' R X : string) (dR dX : envdef) (i : imp_state),
      ChainAlgebraEnv.env_of W R = Some dR -> ChainAlgebraEnv.env_of W X = Some dX -> X <> R ->
      oof (snd (eval_env W fuel root R dR st0)) = false -> oof (snd (eval_env W fuel' root' X dX st0)) = false ->
      alookup X (imps (snd (eval_env W fuel root R dR st0))) = Some i ->
      is_value i = Some (fst (eval_env W fuel' root' X dX st0)).

Theorem imported_same_everywhere_acyclic : imported_same_everywhere_statement true.
Proof.
  intros W rank HF HR HN fuel fuel' root root' R X dR dX i. apply (imported_same_everywhere W rank HF HR HN).
Qed.

(* ---------------- example world: a diamond over X ---------------- *)
Definition ex_base : envdef :=
  {| ed_imports := []; ed_values := [("k", EStr "v"); ("n", ENum "1")] |}.
Definition ex_X : envdef :=
  {| ed_imports := [("base", true)];
     ed_values := [("a", ESym [AName "k"]);                                            (* a reference into its own import *)
                   ("b", EInterp [("pre-", Some [AName "k"]); ("-post", None)]);     (* an interpolation *)
                   ("c", ESecretPlain "s3cr3t");                                       (* a secret *)
                   ("d", EOpen "echo" (EObj [("in", ESym [AName "a"])]));              (* a provider *)
                   ("e", ESym [AName "imports"; AName "base"; AName "n"])] |}.
Definition ex_L : envdef := {| ed_imports := [("X", true)]; ed_values := [("l", ESym [AName "a"])] |}.
Definition ex_Rt : envdef :=
  {| ed_imports := [("L", true); ("X", false); ("base", true); ("X", true)]; ed_values := [("r", ESym [AName "d"; AName "in"])] |}.

Definition ex_W : world :=
  {| w_envs := [("base", LoadOk ex_base); ("X", LoadOk ex_X); ("L", LoadOk ex_L); ("Rt", LoadOk ex_Rt)];
     w_provs := [("echo", {| pv_in := InAlways; pv_out := ScAlways; pv_beh := PEcho |})];
     w_ctx := []; w_check := false; w_show := false; w_fault := None; w_decrypt := fun _ _ => None |}.

Definition ex_rank (n : string) : nat :=
  if String.eqb n "Rt" then 3 else if String.eqb n "L" then 2 else if String.eqb n "X" then 1 else 0.

(* decidable forms of the side conditions, for concrete worlds *)
Definition no_context_b (W : world) : bool :=
  forallb (fun nl : string * env_load =>
             match snd nl with LoadOk d => forallb (fun kv => no_ctx (snd kv)) (ed_values d) | _ => true end) (w_envs W).

Lemma no_context_b_ok W : no_context_b W = true -> forall n d, ChainAlgebraEnv.env_of W n = Some d -> no_context_reference d.
Proof.
  unfold no_context_b. intros H n d Hn. rewrite forallb_forall in H.
  assert (X : In (n, LoadOk d) (w_envs W)).
  { unfold ChainAlgebraEnv.env_of in Hn. destruct (alookup n (w_envs W)) as [[| |d']|] eqn:E; try discriminate.
    injection Hn as ->. clear -E. induction (w_envs W) as [|[k v] r IH]; [discriminate|]. cbn [alookup] in E.
    destruct (String.eqb n k) eqn:Ek; [apply String.eqb_eq in Ek; injection E as ->; subst; now left|right; now apply IH]. }
  exact (H _ X).
Qed.

Definition acyclic_b (W : world) (rank : string -> nat) : bool :=
  forallb (fun nl : string * env_load =>
             match snd nl with
             | LoadOk d => forallb (fun im => Nat.ltb (rank (fst im)) (rank (fst nl))) (ed_imports d)
             | _ => true
             end) (w_envs W).

Lemma acyclic_b_ok W rank : acyclic_b W rank = true ->
  forall n d im, ChainAlgebraEnv.env_of W n = Some d -> In im (ed_imports d) -> rank (fst im) < rank n.
Proof.
  unfold acyclic_b. intros H n d im Hn Him. rewrite forallb_forall in H.
  assert (X : In (n, LoadOk d) (w_envs W)).
  { unfold ChainAlgebraEnv.env_of in Hn. destruct (alookup n (w_envs W)) as [[| |d']|] eqn:E; try discriminate.
    injection Hn as ->. clear -E. induction (w_envs W) as [|[k v] r IH]; [discriminate|]. cbn [alookup] in E.
    destruct (String.eqb n k) eqn:Ek; [apply String.eqb_eq in Ek; injection E as ->; subst; now left|right; now apply IH]. }
  specialize (H _ X). cbn [snd fst] in H. rewrite forallb_forall in H. apply Nat.ltb_lt. now apply H.
Qed.

(* the hypotheses of the acyclic corollary hold of the example, and its conclusion is not trivial: X is reached through L,
   as a non-merged import and as a merged import; its table entry is its stand-alone value (also with another root/fuel) *)
Example ex_hypotheses :
  w_fault ex_W = None /\ acyclic_b ex_W ex_rank = true /\ no_context_b ex_W = true
  /\ oof (snd (eval_env ex_W 40 "" "Rt" ex_Rt st0)) = false /\ oof (snd (eval_env ex_W 25 "elsewhere" "X" ex_X st0)) = false
  /\ nerr (snd (eval_env ex_W 40 "" "Rt" ex_Rt st0)) = 0%N.
Proof. vm_compute. repeat split. Qed.

Example ex_same_everywhere :
  alookup "X" (imps (snd (eval_env ex_W 40 "" "Rt" ex_Rt st0))) = Some (done (fst (eval_env ex_W 25 "elsewhere" "X" ex_X st0))).
Proof. vm_compute. reflexivity. Qed.

Example ex_same_everywhere_by_theorem : forall i,
  alookup "X" (imps (snd (eval_env ex_W 40 "" "Rt" ex_Rt st0))) = Some i ->
  is_value i = Some (fst (eval_env ex_W 25 "elsewhere" "X" ex_X st0)).
Proof.
  intros i Hi.
  assert (H := ex_hypotheses). destruct H as (HF & HA & HN & O1 & O2 & _).
  apply (imported_same_everywhere_acyclic ex_W ex_rank HF (acyclic_b_ok _ _ HA) (no_context_b_ok _ HN)
           40 25 "" "elsewhere" "Rt" "X" ex_Rt ex_X i eq_refl eq_refl); [discriminate|exact O1|exact O2|exact Hi].
Qed.

(* what X exports (the provider echoes its input; the secret is marked) *)
Example ex_X_value :
  option_map (x_to_json 8) (export 64 (fst (eval_env ex_W 25 "" "X" ex_X st0)))
  = Some (JObj [("a", JStr "v"); ("b", JStr "pre-v-post"); ("c", JStr "s3cr3t"); ("d", JObj [("in", JStr "v")]);
                ("e", JNum "1"); ("k", JStr "v"); ("n", JNum "1")]).
Proof. vm_compute. reflexivity. Qed.

(* ---------------- the boundary of the hypotheses ---------------- *)
(* (a) cycles: without acyclicity the corollary is false — P imports Q imports P *)
Definition cy_P : envdef := {| ed_imports := [("Q", true)]; ed_values := [("p", ENum "1")] |}.
Definition cy_Q : envdef := {| ed_imports := [("P", true)]; ed_values := [("q", ENum "2")] |}.
Definition cy_W : world :=
  {| w_envs := [("P", LoadOk cy_P); ("Q", LoadOk cy_Q)]; w_provs := []; w_ctx := []; w_check := false; w_show := false;
     w_fault := None; w_decrypt := fun _ _ => None |}.

Theorem imported_same_everywhere_cyclic_refuted : ~ imported_same_everywhere_statement false.
Proof.
  intros H.
  specialize (H cy_W (fun _ => 0) eq_refl I (no_context_b_ok cy_W eq_refl) 20 20 "" "" "P" "Q" cy_P cy_Q).
  assert (E : alookup "Q" (imps (snd (eval_env cy_W 20 "" "P" cy_P st0)))
              = Some (done [LObj false false (ScObject [("q", ScType "number")] None)
                                [("q", [LScalar false false (ScType "number") (SNum "2")])]]))
    by (vm_compute; reflexivity).
  specialize (H _ eq_refl eq_refl ltac:(discriminate) ltac:(vm_compute; reflexivity) ltac:(vm_compute; reflexivity) E).
  assert (V : fst (eval_env cy_W 20 "" "Q" cy_Q st0) <>
              [LObj false false (ScObject [("q", ScType "number")] None) [("q", [LScalar false false (ScType "number") (SNum "2")])]])
    by (vm_compute; discriminate).
  apply V. cbn [done is_value] in H. clear -H.
  assert (X : forall a b : chain, Some a = Some b -> b = a) by (intros a b E; inversion E; reflexivity).
  exact (X _ _ H).
Qed.

(* (b) context: an environment that reads context.rootEnvironment depends on the root *)
Definition cx_d : envdef :=
  {| ed_imports := []; ed_values := [("who", ESym [AName "context"; AName "rootEnvironment"; AName "name"])] |}.
Definition cx_W : world :=
  {| w_envs := [("C", LoadOk cx_d)]; w_provs := []; w_ctx := []; w_check := false; w_show := false;
     w_fault := None; w_decrypt := fun _ _ => None |}.

Example context_needed :
  fst (eval_env cx_W 20 "r1" "C" cx_d st0) <> fst (eval_env cx_W 20 "r2" "C" cx_d st0)
  /\ no_context_b cx_W = false.
Proof. split; [vm_compute; discriminate|reflexivity]. Qed.

(* (c) agreement on the closure: a stale table entry for a member of the closure changes the value *)
Definition stale_state : st :=
  snd (imps_set "base" {| is_evaluating := false; is_value := Some [LScalar false false (ScType "number") (SNum "0")] |} st0).

Example agreement_needed :
  let s := stale_state in
  fst (eval_env ex_W 25 "" "X" ex_X s) <> fst (eval_env ex_W 25 "" "X" ex_X st0).
Proof. vm_compute. discriminate. Qed.
